"""Executable form of the C05 clauses (used by the bounded layer and for replaying counter-models).
Written from the property statement, independent of the implementation."""
from __future__ import annotations

import re

_ESC = re.compile(r"^\\([-*+>]|#+)$|^([0-9]+)\\([.)])$")


def unescape_word(w):
    m = _ESC.match(w)
    if not m:
        return w
    return m.group(1) if m.group(1) is not None else m.group(2) + m.group(3)


def check_lines(words, lines, width, first_col, rest_col, is_markdown, first_prefix="", rest_prefix="",
                maximal=True):
    """Returns a list of violated clause names for one wrapped paragraph.
    lines: output lines *with* their indents; first_col/rest_col: the column at which the text of the
    first / later lines starts (indent widths)."""
    bad = []
    if not words:
        return bad if lines in ([], [""], [first_prefix]) else ["lossless"]
    stripped = []
    for j, ln in enumerate(lines):
        pre = first_prefix if j == 0 else rest_prefix
        if not ln.startswith(pre):
            bad.append("indents")
            return bad
        stripped.append(ln[len(pre):])
    got = []
    spans = []
    for j, ln in enumerate(stripped):
        ws = ln.split(" ")
        if "" in ws:
            bad.append("lossless")
            return bad
        spans.append((len(got), len(got) + len(ws)))
        for i, w in enumerate(ws):
            if is_markdown and j > 0 and i == 0:
                w = unescape_word(w) if w != words[len(got)] else w
            got.append(w)
    if got != list(words):
        bad.append("lossless")
        return bad
    for j, ln in enumerate(stripped):
        col = first_col if j == 0 else rest_col
        a, b = spans[j]
        if col + len(ln) > width and b - a > 1:
            bad.append("bounded.first" if j == 0 else "bounded.rest")
        if maximal and j + 1 < len(stripped):
            nxt = words[b]
            if col + len(ln) + 1 + len(nxt) <= width:
                bad.append("maximal")
    return bad
