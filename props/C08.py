"""C08 bounded layer: relation Q exhaustively on short strings; document-level on/off differential."""
from __future__ import annotations

import itertools
import re

from . import docspace as D
from . import pipeline as P
from .common import *  # noqa: F401,F403

ASSUMPTIONS = [
    "lemma L-congruence(Q) (Q is reflexive, transitive, preserved by concatenation and by re.sub / join of pairwise related "
    "pieces) lifts the discharged callback clause to _apply_smart_quotes_to_text / smart_quotes: unchecked meta-lemma; the "
    "lifted statement is checked exhaustively on short strings here",
    "that Q-related text nodes render to Q-related documents with the same line breaks is argued (the wrappers measure "
    "length; straight and curly quotes are both in SENTENCE_END_RE) and explored here, not proved",
]

PAIRS = {('"', "“"), ('"', "”"), ("'", "‘"), ("'", "’")}
ALPHABET = ['"', "'", "a", "s", " ", ".", ",", "\n", "—", "(", "{%", "%}", "x", "\r", "\x0c", "6"]
PARA_BREAK = re.compile(r"\n\s*\n")          # the documented rule: two newlines with optional whitespace between them


def paired_within_paragraphs(s, r):
    """no converted double-quote pair of smart_quotes(s) spans a paragraph break of s"""
    pos = 0
    for chunk in PARA_BREAK.split(s):
        seg_in, seg_out = s[pos:pos + len(chunk)], r[pos:pos + len(chunk)]
        conv = [y for x, y in zip(seg_in, seg_out) if x != y]
        if conv.count("“") != conv.count("”") or conv.count("‘") > conv.count("’"):
            return False
        m = PARA_BREAK.match(s, pos + len(chunk))
        pos += len(chunk) + (m.end() - m.start() if m else 0)
    return True


def Q(a, b):
    return len(a) == len(b) and all(x == y or (x, y) in PAIRS for x, y in zip(a, b))


def inline_scope_obligations():
    """ST obligations on the live InlineScope tuple: rewrite_text_across_inlines joins all text below a scope into one
    string, so 'pairs only within one paragraph / code blocks never change' needs every scope class to be one whose
    children Marko parses as *inline* elements, i.e. whose __init__ (own or inherited) sets self.inline_body."""
    import ast
    import inspect
    import textwrap
    from flowmark.transforms import doc_transforms as T
    recs = []
    for cls in T.InlineScope:
        ok, where = False, "no __init__ in the MRO assigns self.inline_body"
        for k in cls.__mro__:
            init = k.__dict__.get("__init__")
            if init is None:
                continue
            try:
                tree = ast.parse(textwrap.dedent(inspect.getsource(init)))
            except (OSError, TypeError):
                break
            hit = any(isinstance(n, ast.Attribute) and n.attr == "inline_body" and isinstance(n.ctx, ast.Store)
                      and isinstance(n.value, ast.Name) and n.value.id == "self" for n in ast.walk(tree))
            ok, where = hit, "%s.__init__ %s self.inline_body" % (k.__qualname__, "assigns" if hit else "does not assign")
            break          # the first __init__ in the MRO is the one that runs
        recs.append({"oid": "shape/transforms.doc_transforms:InlineScope/%s_children_are_inline" % cls.__name__,
                     "status": "discharged" if ok else "refuted",
                     "src": "every class in InlineScope has inline children (Marko parses inline_body for it)", "detail": where})
    return recs


def static_obligations(tier):
    return inline_scope_obligations()


def replay(rec):
    if "InlineScope/" not in rec.get("oid", ""):
        return None
    docs = ['Text.[^1]\n\n[^1]: He said "hello\n\n    world" again.\n', '- He said "hello\n\n  world" again.\n',
            '> He said "hello\n>\n> world" again.\n', 'Text.[^1]\n\n[^1]: Run "this\n\n    ```\n    echo" done\n    ```\n']
    for d in docs:
        off, on = P.fmt(d, smartquotes=False), P.fmt(d, smartquotes=True)
        if not Q(off, on) or not pairing_ok(off, on) or D.literal_spans(off) != D.literal_spans(on):
            return {"reproduced": True, "input": {"text": d, "options": {"smartquotes": True}}, "got": on, "want": off}
    return {"reproduced": False}


def pairing_ok(off, on):
    """every converted opening quote has its converted closing partner later in the same paragraph (chunks between
    blank / quote-marker-only lines); a converted apostrophe needs none"""
    chunks, cur = [], []
    for lo, ln in zip(off.split("\n"), on.split("\n")):
        if lo.strip(" >") == "":
            chunks.append(cur)
            cur = []
        else:
            cur.append((lo, ln))
    chunks.append(cur)
    for ch in chunks:
        conv = [y for lo, ln in ch for x, y in zip(lo, ln) if x != y]
        depth_d = depth_s = 0
        for c in conv:
            if c == "“":
                depth_d += 1
            elif c == "”":
                depth_d -= 1
                if depth_d < 0:
                    return False
            elif c == "‘":
                depth_s += 1
            elif c == "’" and depth_s > 0:
                depth_s -= 1
        if depth_d != 0 or depth_s != 0:
            return False
    return True


def bounded(tier, seed):
    from flowmark.typography.smartquotes import smart_quotes
    viol, evals, distinct = [], 0, set()
    maxlen = 4 if tier == "quick" else 5
    for n in range(0, maxlen + 1):
        for tup in itertools.product(ALPHABET, repeat=n):
            s = "".join(tup)
            r = smart_quotes(s)
            evals += 1
            if r != s:
                distinct.add(r)
            if not Q(s, r):
                viol.append({"clause": "Q", "input": {"text": s}, "got": r})
            elif r != s and not paired_within_paragraphs(s, r):
                viol.append({"clause": "paired_within_paragraph", "input": {"text": s}, "got": r})
            # tags are copied verbatim
            for m in re.finditer(r"\{%.*?%\}", s, re.S):
                if r[m.start():m.end()] != m.group(0):
                    viol.append({"clause": "tags_untouched", "input": {"text": s}, "got": r})
    # quotes that span a paragraph break (two newlines with any whitespace between them) are never a pair
    for ws in ("", " ", "\t", "\r", "\x0c", "\x0b", "\u00a0", "\u3000", " \r", "\u2028"):
        for q in ('"', "'"):
            # ... the break in the middle of the quoted text, directly after the opening quote, directly before the closing one
            for s in ("He said %sone\n%s\ntwo%s ok." % (q, ws, q), "He wrote %s\n%s\nSecond paragraph%s and left." % (q, ws, q),
                      "He wrote %sfirst paragraph\n%s\n%s and left." % (q, ws, q), "%s\n%s\nx%s" % (q, ws, q), "%sx\n%s\n%s" % (q, ws, q)):
                r = smart_quotes(s)
                evals += 1
                if not Q(s, r) or not paired_within_paragraphs(s, r):
                    viol.append({"clause": "paired_within_paragraph", "input": {"text": s}, "got": r})
    # a template tag is copied verbatim however it is laid out -- also when it holds a blank line
    for s in ('{% tag\n\nx "b c" %}', 'a {# c\n \n "q" #} "z w".', 'x {{ a\n\n"b" }} y "p q" z', '"a b" <!-- "c\n\nd" --> "e f"'):
        r = smart_quotes(s)
        evals += 1
        for m in re.finditer(r"\{%.*?%\}|\{#.*?#\}|\{\{.*?\}\}|<!--.*?-->", s, re.S):
            if r[m.start():m.end()] != m.group(0):
                viol.append({"clause": "tags_untouched", "input": {"text": s}, "got": r})
    # document level: on vs off
    docs = D.documents(seed, 80 if tier == "quick" else 600, hazards=False)
    docs += ["He said \"it's `a \"q\" b` fine\" and 'x'.\n", "\"a\" <span title=\"t\"> [l](http://x \"T\") \\\"esc\\\" {% t a=\"b\" %} <!-- \"c\" -->\n",
             "\"one\n\ntwo\" para\n", "| \"a\" | 'b' |\n|---|---|\n| it's | \"c\" |\n", "```\n\"code\" it's\n```\n",
             # template tags that contain their own closer character, with quoted strings inside: verbatim
             'Use {% set label = "50% off" %} and {# see #12 "why" #} then {{ {"title": "two words"} | tojson }} here "quoted".\n',
             '# Heading {% if n % 2 %} \'odd\' {% endif %}\n\n- item {# 10 # "x" #} text\n',
             # quotes around sentence ends: converting them must not move a (semantic) line break
             'She said "done". Then she left the room quietly. He said \'ok\'. Next one follows here.\n',
             'It was "fine." Then more words follow here. It was \'fine.\' And again more words here.\n',
             'Is it "over"? Nobody knows for sure yet. Call it \'done\'! Everyone went home early.\n',
             # a quote that opens in one block and "closes" in the next is never a pair
             'He said "hello\n\nworld" again.\n', '- He said "hello\n\n  world" again.\n', '> He said "hello\n>\n> world" again.\n',
             'Text.[^1]\n\n[^1]: He said "hello\n\n    world" again.\n', "Text.[^n]\n\n[^n]: The so-called 'first\n\n    part' of it.\n",
             'Text.[^1]\n\n[^1]: Run "this\n\n    ```\n    echo" done\n    ```\n', '- a "b\n- c" d\n', '# Head "x\n\ny" z\n',
             '| a "b | c" d |\n|---|---|\n| "e | f" |\n', 'Text.[^1]\n\n[^1]: He said "hello world" again.\n\n    And "more" here.\n']
    for d in docs:
        for o in (dict(width=88, semantic=False), dict(width=20, semantic=True)):
            off = P.fmt(d, smartquotes=False, **o)
            on = P.fmt(d, smartquotes=True, **o)
            evals += 1
            if not Q(off, on):
                viol.append({"clause": "doc_Q", "input": {"text": d, "options": o, **P.doc_features(d)}, "got": on[:300], "want": off[:300]})
                continue
            for tag in re.findall(r"\{%.*?%\}|\{#.*?#\}|\{\{.*?\}\}|<!--.*?-->", d, re.S):
                if re.sub(r"\s+", " ", tag) not in re.sub(r"\s+", " ", on):
                    viol.append({"clause": "tags_untouched", "input": {"text": d, "options": o, **P.doc_features(d)}, "got": on[:300], "construct": tag})
                    break
            if not pairing_ok(off, on):
                viol.append({"clause": "paired_within_paragraph", "input": {"text": d, "options": o, **P.doc_features(d)}, "got": on[:300], "want": off[:300]})
            if D.literal_spans(off) != D.literal_spans(on):
                viol.append({"clause": "doc_literals_unchanged", "input": {"text": d, "options": o, **P.doc_features(d)}, "got": on[:300]})
    # coalesce_raw_text_nodes (runs before either typography rewrite) against its specification on every short child sequence
    from . import funcspecs as FS
    evals += FS.coalesce_spec_sweep(viol, 6 if tier == "quick" else 7)
    return {"evaluations": evals, "distinct_nontrivial": len(distinct), "violations": viol,
            "samples": [{"text": "\"a\" it's"}, {"text": docs[-5]}],
            "rule": "(also: coalesce_raw_text_nodes == 'each maximal run RawText (soft-break RawText)* becomes its first node with the texts joined by newline, every other node kept' on every child sequence of <= 6 (thorough 7) nodes over {text, soft break, hard break, code span, emphasis}) smart_quotes on every string of length <= %d over the 16-symbol alphabet %r: Q(input, output) and template tags "
                    "verbatim; documents of the document space + 20 targeted ones (quotes split over paragraphs, list items, quote blocks, table cells, "
                    "multi-block footnote definitions) x 2 option sets: output with the option on is "
                    "Q-related to the output with it off (same length, same line breaks), every converted opening quote has its converted partner in the same paragraph, and has the same literal spans; distinct = "
                    "distinct changed outputs" % (maxlen, ALPHABET),
            "exhaustive": True, "bound": "strings <= %d symbols" % maxlen}
