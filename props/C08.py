"""C08 bounded layer: relation Q exhaustively on short strings; document-level on/off differential."""
from __future__ import annotations

import itertools
import re

from . import docspace as D
from . import pipeline as P
from .common import *  # noqa: F401,F403

ASSUMPTIONS = [
    "lemma L-congruence(Q) (Q is reflexive, transitive, preserved by concatenation and by re.sub / join of pairwise related "
    "pieces) lifts the discharged callback clause to _apply_smart_quotes_to_text / smart_quotes: unchecked meta-lemma; the "
    "lifted statement is checked exhaustively on short strings here",
    "that Q-related text nodes render to Q-related documents with the same line breaks is argued (the wrappers measure "
    "length; straight and curly quotes are both in SENTENCE_END_RE) and explored here, not proved",
]

PAIRS = {('"', "“"), ('"', "”"), ("'", "‘"), ("'", "’")}
ALPHABET = ['"', "'", "a", "s", " ", ".", ",", "\n", "—", "(", "{%", "%}", "x"]


def Q(a, b):
    return len(a) == len(b) and all(x == y or (x, y) in PAIRS for x, y in zip(a, b))


def bounded(tier, seed):
    from flowmark.typography.smartquotes import smart_quotes
    viol, evals, distinct = [], 0, set()
    maxlen = 4 if tier == "quick" else 5
    for n in range(0, maxlen + 1):
        for tup in itertools.product(ALPHABET, repeat=n):
            s = "".join(tup)
            r = smart_quotes(s)
            evals += 1
            if r != s:
                distinct.add(r)
            if not Q(s, r):
                viol.append({"clause": "Q", "input": {"text": s}, "got": r})
            # tags are copied verbatim
            for m in re.finditer(r"\{%.*?%\}", s, re.S):
                if r[m.start():m.end()] != m.group(0):
                    viol.append({"clause": "tags_untouched", "input": {"text": s}, "got": r})
    # document level: on vs off
    docs = D.documents(seed, 80 if tier == "quick" else 600, hazards=False)
    docs += ["He said \"it's `a \"q\" b` fine\" and 'x'.\n", "\"a\" <span title=\"t\"> [l](http://x \"T\") \\\"esc\\\" {% t a=\"b\" %} <!-- \"c\" -->\n",
             "\"one\n\ntwo\" para\n", "| \"a\" | 'b' |\n|---|---|\n| it's | \"c\" |\n", "```\n\"code\" it's\n```\n"]
    for d in docs:
        for o in (dict(width=88, semantic=False), dict(width=20, semantic=True)):
            off = P.fmt(d, smartquotes=False, **o)
            on = P.fmt(d, smartquotes=True, **o)
            evals += 1
            if not Q(off, on):
                viol.append({"clause": "doc_Q", "input": {"text": d, "options": o, **P.doc_features(d)}, "got": on[:300], "want": off[:300]})
                continue
            if D.literal_spans(off) != D.literal_spans(on):
                viol.append({"clause": "doc_literals_unchanged", "input": {"text": d, "options": o, **P.doc_features(d)}, "got": on[:300]})
    return {"evaluations": evals, "distinct_nontrivial": len(distinct), "violations": viol,
            "samples": [{"text": "\"a\" it's"}, {"text": docs[-5]}],
            "rule": "smart_quotes on every string of length <= %d over the 13-symbol alphabet %r: Q(input, output) and template tags "
                    "verbatim; documents of the document space + 5 targeted ones x 2 option sets: output with the option on is "
                    "Q-related to the output with it off (same length, same line breaks) and has the same literal spans; distinct = "
                    "distinct changed outputs" % (maxlen, ALPHABET),
            "exhaustive": True, "bound": "strings <= %d symbols" % maxlen}
