"""C17 bounded layer: FileResolver against a reference written from the property statement, on generated trees."""
from __future__ import annotations

import os
import random
import shutil

import pathspec

from . import fsgen
from .common import *  # noqa: F401,F403

ASSUMPTIONS = [
    "pathspec implements gitignore pattern semantics (it is also what the reference uses for the patterns themselves); os.walk "
    "without followlinks does not descend into symlinked directories; Path.resolve / stat as documented",
    "bounded layer: trees of <= 5 directories (nesting <= 3) and <= 20 files from fixed name pools, symlinks to files and "
    "directories inside and outside the tree, sizes around the limit, .flowmarkignore at the root and / or in its parent",
]
LIMIT = 100


def reference(root, cfg, flowmarkignore):
    """files a traversal of `root` must return, from the property statement"""
    from flowmark.file_resolver.defaults import DEFAULT_EXCLUDES, DEFAULT_INCLUDES
    inc = pathspec.PathSpec.from_lines("gitignore", list(cfg.get("include", DEFAULT_INCLUDES)) + cfg.get("extend_include", []))
    exc_lines = (cfg["exclude"] if cfg.get("exclude") is not None else list(DEFAULT_EXCLUDES)) + cfg.get("extend_exclude", [])
    exc = pathspec.PathSpec.from_lines("gitignore", exc_lines)
    tool = pathspec.PathSpec.from_lines("gitignore", flowmarkignore) if flowmarkignore else None
    out = []

    def walk(d, rel):
        for name in sorted(os.listdir(d)):
            p = os.path.join(d, name)
            r = (rel + "/" + name) if rel else name
            if os.path.islink(p):
                continue                                   # nothing is reached through a symbolic link
            if os.path.isdir(p):
                if exc.match_file(name + "/") or exc.match_file(r + "/"):
                    continue
                if tool and (tool.match_file(name + "/") or tool.match_file(r + "/")):
                    continue
                walk(p, r)
            elif os.path.isfile(p):
                if not inc.match_file(name):
                    continue
                if tool and tool.match_file(r):
                    continue
                lim = cfg.get("files_max_size", 1048576)
                if lim and os.path.getsize(p) > lim:
                    continue
                out.append(os.path.realpath(p))
    walk(root, "")
    from pathlib import Path as _P
    return [str(x) for x in sorted(_P(o) for o in out)]        # Path order (component-wise), the order `sorted` gives the resolver


DOCUMENTED_DEFAULT_EXCLUDES = [".git", "node_modules", ".venv", "venv", "__pycache__", "build", "dist", ".tox", ".nox", ".idea",
                               ".vscode", "vendor", "third_party"]          # README, "Default exclusions"


def static_obligations(tier):
    """ST obligations on the live default lists: the documented default include (*.md only) and each documented default
    exclusion is a directory pattern of DEFAULT_EXCLUDES"""
    from flowmark.file_resolver import defaults as Df
    recs = [{"oid": "defaults/file_resolver.defaults:DEFAULT_INCLUDES/only_md",
             "status": "discharged" if list(Df.DEFAULT_INCLUDES) == ["*.md"] else "refuted",
             "src": "DEFAULT_INCLUDES == ['*.md'] (README: only *.md files by default)", "detail": repr(Df.DEFAULT_INCLUDES)}]
    # the module-level default lists are never handed out un-copied (a caller that extends its list must not extend them)
    from vfcore import static
    mods = static.package_modules(include=("flowmark.file_resolver.types", "flowmark.file_resolver.defaults", "flowmark.file_resolver.resolver"))
    for r in static.frame_obligations(mods):
        if "/module_state_unshared" in r["oid"] or r["oid"].endswith("/no_shared_mutation") or r["oid"].endswith("/no_nonlocal_store"):
            recs.append(r)
    import ast as _ast
    ty = mods["flowmark.file_resolver.types"]
    for fn in _ast.walk(ty):
        if isinstance(fn, _ast.FunctionDef) and fn.name in ("effective_exclude", "effective_include"):
            bad = [_ast.unparse(x) for x in _ast.walk(fn) if isinstance(x, (_ast.IfExp, _ast.BoolOp, _ast.Assign, _ast.Return))
                   for v in ([x.body, x.orelse] if isinstance(x, _ast.IfExp) else x.values if isinstance(x, _ast.BoolOp) else [x.value])
                   if isinstance(v, _ast.Name) and v.id.startswith("DEFAULT_")]
            recs.append({"oid": "frame/file_resolver.types:FileResolverConfig.%s/defaults_copied_before_use" % fn.name,
                         "status": "discharged" if not bad else "refuted",
                         "src": "a DEFAULT_* list enters the effective list only through a copy (list(..), [*..], + ..)", "detail": repr(bad)})
    for name in DOCUMENTED_DEFAULT_EXCLUDES:
        recs.append({"oid": "defaults/file_resolver.defaults:DEFAULT_EXCLUDES/%s" % name,
                     "status": "discharged" if name + "/" in Df.DEFAULT_EXCLUDES else "refuted",
                     "src": "the documented default exclusion '%s/' is in DEFAULT_EXCLUDES" % name, "detail": ""})
    return recs


# hand-written trees: (files, config, arguments relative to the root, expected relative results or None = reference walk of '.')
SCENARIOS = [
    # a multi-segment exclusion prunes exactly that directory, not other directories with the same last name
    (["docs/drafts/x.md", "src/drafts/y.md", "archive/drafts/z.md", "docs/k.md", "drafts/top.md"], {"extend_exclude": ["docs/drafts/"]}, ["."], None),
    (["a/drafts/x.md", "b/drafts/y.md", "a/b/drafts/z.md"], {"extend_exclude": ["b/drafts/"]}, ["."], None),
    # a directory that holds only sub-directories still prunes its excluded children
    (["packages/node_modules/m/r.md", "packages/app/a.md", "packages/out/o.md", "w.md"], {"extend_exclude": ["out/"]}, ["."], None),
    (["only/dirs/here/build/b.md", "only/dirs/here/ok/c.md"], {}, ["."], None),
    # an explicit file that force_exclude filters out does not hide the same file from a directory argument naming its
    # directory (a walk root is not subject to the exclusions), in either order
    (["vendor/lib.md", "a.md"], {"force_exclude": True}, ["vendor/lib.md", "vendor"], ["vendor/lib.md"]),
    (["vendor/lib.md", "a.md"], {"force_exclude": True}, ["vendor", "vendor/lib.md"], ["vendor/lib.md"]),
    (["build/x.md", "a.md"], {"force_exclude": True}, ["build/x.md", "a.md", "build"], ["a.md", "build/x.md"]),
    # dot-files and dot-directories are ordinary names for globs
    (["docs/.draft.md", "docs/.internal/i.md", "docs/v.md"], {}, ["docs/*.md"], ["docs/.draft.md", "docs/v.md"]),
    (["docs/.draft.md", "docs/.internal/i.md", "docs/v.md"], {}, ["docs/**/*.md"], ["docs/.draft.md", "docs/.internal/i.md", "docs/v.md"]),
    # the ignore file that applies to a walk root is the nearest one above THAT root, whatever was looked up before for
    # another argument (an ancestor without an ignore file, a sibling with one)
    (["proj/a.md", "proj/docs/.flowmarkignore=skip.md\n", "proj/docs/skip.md", "proj/docs/k.md"], {}, ["proj/*.md", "proj/docs"], ["proj/a.md", "proj/docs/k.md"]),
    (["p/x/.flowmarkignore=a.md\n", "p/x/a.md", "p/x/b.md", "p/y/a.md", "p/y/b.md", "p/top.md"], {}, ["p/*.md", "p/x", "p/y"],
     ["p/top.md", "p/x/b.md", "p/y/a.md", "p/y/b.md"]),
    (["q/.flowmarkignore=b.md\n", "q/sub/.flowmarkignore=a.md\n", "q/sub/a.md", "q/sub/b.md", "q/a.md", "q/b.md"], {}, ["q", "q/sub"],
     ["q/a.md", "q/sub/a.md", "q/sub/b.md"]),
    # the literal prefix of a glob is the user's choice: an excluded name IN that prefix (or above it) excludes nothing
    (["vendor/guide/a.md", "vendor/guide/sub/b.md", "build/x/y.md", "pkg/dist/notes/n.md"], {}, ["vendor/guide/*.md"], ["vendor/guide/a.md"]),
    (["vendor/guide/a.md", "vendor/guide/sub/b.md", "build/x/y.md", "pkg/dist/notes/n.md"], {}, ["build/**/*.md", "pkg/dist/notes/*.md"],
     ["build/x/y.md", "pkg/dist/notes/n.md"]),
    (["vendor/guide/a.md", "vendor/guide/node_modules/m.md"], {}, ["vendor/guide/**/*.md"], ["vendor/guide/a.md"]),
    # hard links are different files of the tree (two directory entries, two paths)
    (["docs/a.md", "docs/copy.md<-docs/a.md", "other/again.md<-docs/a.md", "k.md"], {}, ["."], ["docs/a.md", "docs/copy.md", "k.md", "other/again.md"]),
    (["docs/a.md", "docs/copy.md<-docs/a.md", "k.md"], {}, ["docs/copy.md", "docs", "*.md"], ["docs/a.md", "docs/copy.md", "k.md"]),
]


def scenarios(viol):
    from flowmark.file_resolver import FileResolver, FileResolverConfig
    n = 0
    for files, cfg, args, expect in SCENARIOS:
        base = scratch_dir("vf-c17s-")
        root = os.path.join(base, "t")
        try:
            for f in files:
                if "<-" in f:
                    continue
                f, _, content = f.partition("=")
                os.makedirs(os.path.dirname(os.path.join(root, f)), exist_ok=True)
                with open(os.path.join(root, f), "w") as fh:
                    fh.write(content or "x")
            for f in files:
                if "<-" in f:
                    new_name, _, existing = f.partition("<-")
                    os.makedirs(os.path.dirname(os.path.join(root, new_name)), exist_ok=True)
                    os.link(os.path.join(root, existing), os.path.join(root, new_name))
            want = expect if expect is not None else [os.path.relpath(p, os.path.realpath(root)) for p in reference(root, cfg, None)]
            with in_dir(root):
                for order in (list(args), list(reversed(args))):
                    got = [os.path.relpath(str(p), os.path.realpath(root)) for p in FileResolver(FileResolverConfig(respect_gitignore=False, **cfg)).resolve(order)]
                    n += 1
                    if got != sorted(want):
                        viol.append({"clause": "scenario_exact", "input": {"files": files, "config": cfg, "args": order}, "got": got, "want": sorted(want)})
        finally:
            shutil.rmtree(base, ignore_errors=True)
    return n


def bounded(tier, seed):
    from flowmark.file_resolver import FileResolver, FileResolverConfig
    from flowmark.file_resolver import defaults as _Df
    rnd = random.Random(seed)
    viol, evals, distinct, samples = [], 0, set(), []
    defaults_before = (list(_Df.DEFAULT_EXCLUDES), list(_Df.DEFAULT_INCLUDES))
    # a resolution with extra patterns leaves nothing behind for the next one in the same process
    FileResolverConfig(extend_exclude=["zz-one/"], extend_include=["*.zz"]).effective_exclude
    r_ = FileResolver(FileResolverConfig(extend_exclude=["zz-two/"], extend_include=["*.zz"]))
    evals += 1
    later = FileResolverConfig()
    if (list(_Df.DEFAULT_EXCLUDES), list(_Df.DEFAULT_INCLUDES)) != defaults_before or "zz-two/" in later.effective_exclude \
            or "zz-one/" in later.effective_exclude or "*.zz" in later.effective_include:
        viol.append({"clause": "defaults_not_mutated", "input": {"history": "FileResolverConfig(extend_exclude=['zz-one/']).effective_exclude; FileResolver(FileResolverConfig(extend_exclude=['zz-two/']))"},
                     "got": {"effective_exclude": [x for x in later.effective_exclude if x.startswith("zz")], "effective_include": later.effective_include}})
        _Df.DEFAULT_EXCLUDES[:] = defaults_before[0] if isinstance(_Df.DEFAULT_EXCLUDES, list) else _Df.DEFAULT_EXCLUDES
    evals += scenarios(viol)
    n = 40 if tier == "quick" else 400
    for i in range(n):
        base = scratch_dir("vf-c17-")
        root = os.path.join(base, "t")
        try:
            fsgen.make_tree(rnd, root, gitignores=False, symlinks=True, toolignore=True, big=True)
            fi = os.path.join(root, ".flowmarkignore")
            if not os.path.exists(fi):
                fi = os.path.join(base, ".flowmarkignore")         # the nearest ignore file walking up decides, whatever it contains
            fl = [l for l in open(fi).read().splitlines() if l.strip()] if os.path.exists(fi) else None
            cfg = rnd.choice([{}, {"extend_include": ["*.mdx"]}, {"exclude": ["docs/"]}, {"extend_exclude": ["sub/", "deep/"]},
                              {"files_max_size": LIMIT}, {"files_max_size": 0}, {"include": ["*.txt"]}, {"exclude": []},
                              {"exclude": [], "extend_exclude": ["docs/"]},
                              {"extend_exclude": ["docs/sub/", "src/deep/", "sub/docs/", "deep/src/", "a b/sub/", "docs/src/"]}])
            want = reference(root, cfg, fl)
            r = FileResolver(FileResolverConfig(respect_gitignore=False, **cfg))
            got = [str(p) for p in r.resolve([root])]
            evals += 1
            distinct.add(tuple(want))
            inp = {"tree_seed": [seed, i], "config": cfg, "flowmarkignore": fl, "files": sorted(
                os.path.relpath(os.path.join(dp, f), root) for dp, dn, fn in os.walk(root) for f in fn)}
            if got != want:
                viol.append({"clause": "traversal_exact", "input": inp, "got": [os.path.relpath(p, os.path.realpath(root)) for p in got],
                             "want": [os.path.relpath(p, os.path.realpath(root)) for p in want]})
            from pathlib import Path as _P
            if got != [str(x) for x in sorted({_P(x) for x in got})] or any(not os.path.isabs(p) for p in got):
                viol.append({"clause": "sorted_distinct_absolute", "input": inp, "got": got})
            # argument mixes and orders: directory + explicit file + glob, permuted; duplicates
            files = [os.path.join(root, f) for f in inp["files"] if f.endswith(".md") and not os.path.islink(os.path.join(root, f))][:2]
            with in_dir(root):
                args = [root] + files + ["*.md"]
                a = [str(p) for p in FileResolver(FileResolverConfig(respect_gitignore=False, **cfg)).resolve(args)]
                b = [str(p) for p in FileResolver(FileResolverConfig(respect_gitignore=False, **cfg)).resolve(list(reversed(args)) + files)]
                evals += 2
                # the same files under non-canonical spellings (through '..', relative, through './'): no file twice
                odd = [os.path.join(os.path.dirname(f), "..", os.path.basename(os.path.dirname(f)), os.path.basename(f)) for f in files] \
                    + [os.path.relpath(f, root) for f in files] + ["./" + os.path.relpath(f, root) for f in files]
                # ... and the directory itself spelled relatively next to its own files
                rel = [str(p) for p in FileResolver(FileResolverConfig(respect_gitignore=False, **cfg)).resolve(["."] + [os.path.relpath(f, root) for f in files])]
                rel2 = [str(p) for p in FileResolver(FileResolverConfig(respect_gitignore=False, **cfg)).resolve([os.path.relpath(f, root) for f in files] + ["."])]
                evals += 2
                if rel != rel2 or len({os.path.realpath(x) for x in rel}) != len(rel):
                    viol.append({"clause": "no_file_twice_canonical", "input": dict(inp, args=["."] + [os.path.relpath(f, root) for f in files]), "got": [rel, rel2]})
                c = [str(p) for p in FileResolver(FileResolverConfig(respect_gitignore=False, **cfg)).resolve(odd + args)]
                d = [str(p) for p in FileResolver(FileResolverConfig(respect_gitignore=False, **cfg)).resolve(args + odd)]
                evals += 2
            from pathlib import Path as _P
            if a != b or a != [str(x) for x in sorted({_P(x) for x in a})]:
                viol.append({"clause": "order_independent", "input": inp, "got": [a, b]})
            if c != d or len({os.path.realpath(x) for x in c}) != len(c) or any(os.path.realpath(x) != x for x in c if not os.path.islink(x)):
                viol.append({"clause": "no_file_twice_canonical", "input": dict(inp, args=odd), "got": [c, d]})
            # directory arguments in either order, one of them nested inside a directory the outer walk prunes (a directory
            # named explicitly is a walk root of its own): same result, nothing lost
            subdirs = [os.path.join(dp, x) for dp, dn, fn in os.walk(root) for x in dn if not os.path.islink(os.path.join(dp, x))]
            pruned = [p for p in subdirs if any(seg in ("node_modules", ".venv", "build") for seg in os.path.relpath(p, root).split(os.sep))]
            for sub in (pruned[:2] + subdirs[:1]):
                r1 = [str(p) for p in FileResolver(FileResolverConfig(respect_gitignore=False, **cfg)).resolve([root, sub])]
                r2 = [str(p) for p in FileResolver(FileResolverConfig(respect_gitignore=False, **cfg)).resolve([sub, root])]
                alone = [str(p) for p in FileResolver(FileResolverConfig(respect_gitignore=False, **cfg)).resolve([sub])]
                evals += 3
                if r1 != r2 or any(a not in r1 for a in alone):
                    viol.append({"clause": "directory_arguments_order_independent", "input": dict(inp, sub=os.path.relpath(sub, root)),
                                 "got": [[os.path.relpath(x, os.path.realpath(root)) for x in r1], [os.path.relpath(x, os.path.realpath(root)) for x in r2]],
                                 "want": [os.path.relpath(x, os.path.realpath(root)) for x in alone]})
            # explicit files bypass exclusions and ignore rules (not the size limit) unless force_exclude
            for f in files:
                one = FileResolver(FileResolverConfig(respect_gitignore=False, files_max_size=cfg.get("files_max_size", 1048576))).resolve([f])
                evals += 1
                lim = cfg.get("files_max_size", 1048576)
                expect = [] if (lim and os.path.getsize(f) > lim) else [os.path.realpath(f)]
                if [str(p) for p in one] != expect:
                    viol.append({"clause": "explicit_file", "input": dict(inp, file=os.path.relpath(f, root)), "got": [str(p) for p in one], "want": expect})
            # ... also when the file is named through a symbolic link: the size that counts is the file's
            bl = os.path.join(root, "biglink.md")
            if os.path.islink(bl):
                for lim, expect in ((LIMIT, []), (0, [os.path.realpath(bl)]), (250, [os.path.realpath(bl)]), (249, [])):
                    one = [str(p) for p in FileResolver(FileResolverConfig(respect_gitignore=False, files_max_size=lim)).resolve([bl])]
                    evals += 1
                    if one != expect:
                        viol.append({"clause": "explicit_file", "input": dict(inp, file="biglink.md -> 250-byte file", files_max_size=lim), "got": one, "want": expect})
            # glob results obey the same filters
            with in_dir(root):
                g = [os.path.relpath(str(p), os.path.realpath(root)) for p in
                     FileResolver(FileResolverConfig(respect_gitignore=False, **cfg)).resolve(["**/*.md" if "include" not in cfg else "**/*.txt"])]
                evals += 1
            wantrel = [os.path.relpath(p, os.path.realpath(root)) for p in want]
            extra = [p for p in g if p not in wantrel and not p.startswith("..") and not os.path.islink(os.path.join(root, p))
                     and not any(os.path.islink(os.path.join(root, *p.split("/")[:k])) for k in range(1, len(p.split("/"))))]
            link_targets = {os.path.realpath(os.path.join(dp, f)) for dp, dn, fn in os.walk(root) for f in fn + dn
                            if os.path.islink(os.path.join(dp, f))}
            extra = [p for p in extra if "extend_include" not in cfg
                     and os.path.realpath(os.path.join(root, p)) not in link_targets]   # (globs may name symlinks explicitly)
            if extra:
                viol.append({"clause": "glob_filtered", "input": inp, "got": extra})
            # ... and nothing that passes them is dropped: the recursive glob from the root finds every file the walk finds
            # (dot-files and dot-directories included)
            suffix = ".md" if "include" not in cfg else ".txt"
            missing = [p for p in wantrel if p not in g and p.endswith(suffix)]
            if missing:
                viol.append({"clause": "glob_complete", "input": dict(inp, pattern="**/*.md" if "include" not in cfg else "**/*.txt"), "got": g, "want": wantrel})
            if len(samples) < 2:
                samples.append(inp)
        finally:
            shutil.rmtree(base, ignore_errors=True)
    return {"evaluations": evals, "distinct_nontrivial": len(distinct), "violations": viol, "samples": samples,
            "rule": "(also: 17 hand-written scenarios (excluded names inside a glob's literal prefix, hard links) (incl. ignore files below / beside earlier arguments) -- same-named directories under a multi-segment exclusion, directories holding only sub-directories, force_exclude file + its directory in both orders, dot-names under globs; and glob completeness: **/*.md from the root finds every file of the reference walk) seeded trees (directories/files from fixed pools, nesting <= 3, symlinks to a file and a directory outside the tree and "
                    "to a file inside, file sizes around the limit, also behind a symbolic link, a .flowmarkignore at the root (sometimes rule-less) and / or above it) x 10 settings (incl. multi-segment user exclusions and an empty exclude list, which switches the default exclusions off): traversal result == reference "
                    "walk written from the property; sorted/distinct/absolute; same result for permuted and duplicated arguments (also two directory arguments, one nested in a directory the outer walk prunes, in both orders), also when files are named again through '..' / relative spellings (no file twice, canonical paths); "
                    "explicit files bypass exclusions but not the size limit; glob results pass the same filters; distinct = distinct "
                    "reference results",
            "exhaustive": False, "bound": "%d trees" % n}


def witnesses():
    """recorded findings of C17, replayed on small trees"""
    from flowmark.file_resolver import FileResolver, FileResolverConfig
    out = {}
    base = scratch_dir("vf-c17w-")
    try:
        for rel, content in (("a/skip.md", "x"), (".flowmarkignore", "skip.md\n"), ("build2/x.md", "x"), ("sub/build2/y.md", "y"), ("k.md", "k")):
            os.makedirs(os.path.dirname(os.path.join(base, rel)) or base, exist_ok=True)
            with open(os.path.join(base, rel), "w") as fh:
                fh.write(content)
        with in_dir(base):
            r1 = [os.path.relpath(str(p), os.path.realpath(base)) for p in FileResolver(FileResolverConfig(force_exclude=True, respect_gitignore=False)).resolve(["a/skip.md"])]
            r2 = [os.path.relpath(str(p), os.path.realpath(base)) for p in FileResolver(FileResolverConfig(extend_exclude=["/build2/"], respect_gitignore=False)).resolve(["."])]
        out["C17-force-exclude-skips-tool-ignore"] = r1 == ["a/skip.md"]
        out["C17-anchored-exclusion-matches-nested-name"] = "sub/build2/y.md" not in r2 and "build2/x.md" not in r2 and "k.md" in r2
    finally:
        shutil.rmtree(base, ignore_errors=True)
    return out
