"""C05 bounded layer: exhaustive small-scope sweep of the real wrapping functions against the
executable clauses of spec/wraps.py (labelled bounded; the replay domain for L0 counter-models)."""
from __future__ import annotations

import itertools
import random

from spec.wraps import check_lines

from .common import *  # noqa: F401,F403  (puts /repo/src on the path)

ASSUMPTIONS = [
    "bounded layer: word-length vectors of <= 4 (quick) / 5 (thorough) words with lengths in {1,2,4,7}, widths and "
    "columns as stated; words are letters only (no atomic constructs, no sentence ends) except in the sentence sweep",
    "user-supplied len_fn other than len, and user word splitters, are outside the sweep (the contracts require them "
    "additive / token-clean)",
    "line_wrap_by_sentence passes its default len_fn (len) to wrap_paragraph_lines; identified with the wrapper's len_fn",
]

LETTERS = "abcdefghij"


def mkwords(lens):
    return [LETTERS[i % 10] * n for i, n in enumerate(lens)]


def sweep_w(tier, viol, stats):
    from flowmark.linewrapping.text_wrapping import simple_word_splitter, wrap_paragraph, wrap_paragraph_lines
    lens = (1, 2, 4, 7)
    maxw = 4 if tier == "quick" else 5
    widths = (1, 3, 5, 8, 12) if tier == "quick" else tuple(range(1, 13))
    cols = ((0, 0), (0, 2), (2, 0), (3, 3), (4, 1)) if tier == "quick" else tuple(itertools.product(range(5), range(5)))
    for n in range(0, maxw + 1):
        for lv in itertools.product(lens, repeat=n):
            words = mkwords(lv)
            text = " ".join(words)
            for width in widths:
                for c0, c1 in cols:
                    for md in (False, True):
                        lines = wrap_paragraph_lines(text, width, c0, c1, splitter=simple_word_splitter, is_markdown=md)
                        stats["evals"] += 1
                        bad = check_lines(words, lines, width, c0, c1, md)
                        stats["distinct"].add((tuple(lv), width, c0, c1, len(lines)))
                        for b in bad:
                            viol.append({"clause": b, "function": "wrap_paragraph_lines",
                                         "input": {"words": words, "width": width, "initial_column": c0,
                                                   "subsequent_offset": c1, "is_markdown": md}, "got": lines})
                    # wrap_paragraph with indents of those widths
                    i0, i1 = ">" * c0, " " * c1
                    out = wrap_paragraph(text, width, i0, i1, word_splitter=simple_word_splitter)
                    stats["evals"] += 1
                    lines = out.split("\n") if out else []
                    bad = check_lines(words, lines, width, c0, c1, False, i0, i1)
                    for b in bad:
                        viol.append({"clause": b, "function": "wrap_paragraph",
                                     "input": {"words": words, "width": width, "initial_column": c0, "subsequent_offset": c1,
                                               "initial_indent": i0, "subsequent_indent": i1}, "got": lines})
            # width <= 0: exactly one line
            for width in (0, -1):
                lines = wrap_paragraph_lines("  " + "  ".join(words) + " ", width, splitter=simple_word_splitter)
                stats["evals"] += 1
                if lines != ([" ".join(words)] if words else []):
                    viol.append({"clause": "no_wrap", "function": "wrap_paragraph_lines", "input": {"words": words, "width": width}, "got": lines})


def sweep_wrappers(tier, viol, stats, rnd):
    from flowmark.linewrapping.line_wrappers import line_wrap_by_sentence, line_wrap_to_width
    lens = (1, 3, 6)
    widths = (6, 10, 25) if tier == "quick" else (4, 6, 8, 10, 16, 25, 30)
    indents = (("", ""), ("- ", "  "), ("> ", "> ")) if tier == "quick" else (("", ""), ("- ", "  "), ("> ", "> "), ("[^x]: ", "    "))
    vecs = list(itertools.product(lens, repeat=3)) + list(itertools.product(lens, repeat=4))
    if tier == "quick":
        vecs = rnd.sample(vecs, 40)
    for lv in vecs:
        base = mkwords(lv)
        for ends in itertools.product((False, True), repeat=len(lv) - 1):
            words = [w + ("." if e else "") for w, e in zip(base, list(ends) + [False])]
            text = " ".join(words)
            for width in widths:
                for i0, i1 in indents:
                    for mode in ("width", "sentence"):
                        wrapper = (line_wrap_to_width(width=width, is_markdown=True) if mode == "width"
                                   else line_wrap_by_sentence(width=width, is_markdown=True, min_line_len=8))
                        out = wrapper(text, i0, i1)
                        stats["evals"] += 1
                        lines = out.split("\n")
                        bad = check_lines(words, lines, width, len(i0), len(i1), True, i0, i1, maximal=(mode == "width"))
                        stats["distinct"].add((mode, tuple(lv), ends, width, i0, len(lines)))
                        for b in bad:
                            viol.append({"clause": b, "function": "line_wrap_" + mode,
                                         "input": {"words": words, "width": width, "initial_indent": i0, "subsequent_indent": i1,
                                                   "initial_column": len(i0), "subsequent_offset": len(i1), "mode": mode},
                                         "got": lines})
                for mode in ("width", "sentence"):
                    wrapper = (line_wrap_to_width(width=0, is_markdown=True) if mode == "width"
                               else line_wrap_by_sentence(width=0, is_markdown=True))
                    out = wrapper(text, "- ", "  ")
                    stats["evals"] += 1
                    if out != "- " + text:
                        viol.append({"clause": "no_wrap", "function": "line_wrap_" + mode, "input": {"words": words, "width": 0}, "got": out})


def sweep_fill_text(tier, viol, stats):
    from flowmark.linewrapping.text_filling import Wrap, fill_text
    from flowmark.linewrapping.text_wrapping import simple_word_splitter
    for lv in itertools.product((1, 3, 6), repeat=3):
        w1, w2 = mkwords(lv), mkwords(lv[::-1])
        text = " ".join(w1) + "\n\n" + "\n".join(w2)
        for width in (4, 7, 12):
            out = fill_text(text, Wrap.WRAP, width=width, word_splitter=simple_word_splitter)
            stats["evals"] += 1
            paras = out.split("\n\n")
            if len(paras) != 2:
                viol.append({"clause": "fill_text.paragraphs", "function": "fill_text", "input": {"text": text, "width": width}, "got": out})
                continue
            for ws, p in zip((w1, w2), paras):
                for b in check_lines(ws, p.split("\n"), width, 0, 0, False):
                    viol.append({"clause": b, "function": "fill_text", "input": {"words": ws, "width": width, "initial_column": 0,
                                                                                 "subsequent_offset": 0}, "got": p})
            out0 = fill_text(text, Wrap.WRAP, width=0, word_splitter=simple_word_splitter)
            stats["evals"] += 1
            if out0 != " ".join(w1) + "\n\n" + " ".join(w2):
                viol.append({"clause": "no_wrap", "function": "fill_text", "input": {"text": text, "width": 0}, "got": out0})


MARKERS = ["-", "*", "+", ">", "#", "##", "1.", "2)"]


def sweep_markers(tier, viol, stats):
    """Markdown mode with words that look like block markers (they get a backslash at a line start)"""
    from flowmark.linewrapping.text_wrapping import simple_word_splitter, wrap_paragraph_lines
    fill = ["aa", "bbbb", "c", "ddddd", "eee"]
    for m in MARKERS:
        for pos in range(1, 5):
            for tail in range(0, 4):
                words = fill[:pos] + [m] + fill[pos:pos + tail]
                text = " ".join(words)
                for width in range(3, 14):
                    for c1 in (0, 2):
                        lines = wrap_paragraph_lines(text, width, 0, c1, splitter=simple_word_splitter, is_markdown=True)
                        stats["evals"] += 1
                        for b in check_lines(words, lines, width, 0, c1, True):
                            viol.append({"clause": b, "function": "wrap_paragraph_lines",
                                         "input": {"words": words, "width": width, "initial_column": 0, "subsequent_offset": c1,
                                                   "is_markdown": True}, "got": lines})


def sweep_plaintext(tier, viol, stats):
    """plaintext mode through the text API: one line per paragraph at width <= 0, bounded lines otherwise"""
    from flowmark.reformat_api import reformat_text
    for lv in itertools.product((1, 3, 6), repeat=3):
        w1, w2 = mkwords(lv), mkwords(lv[::-1])
        text = "  ".join(w1[:2]) + "\n" + w1[2] + "\n\n" + "\n".join(w2) + "\n"
        for width in (0, -1):
            out = reformat_text(text, width=width, plaintext=True)
            stats["evals"] += 1
            if out.strip("\n").split("\n\n") != [" ".join(w1), " ".join(w2)]:
                viol.append({"clause": "no_wrap", "function": "reformat_text(plaintext)", "input": {"text": text, "width": width}, "got": out})
        for width in (4, 7, 12):
            out = reformat_text(text, width=width, plaintext=True)
            stats["evals"] += 1
            paras = out.strip("\n").split("\n\n")
            if len(paras) != 2:
                viol.append({"clause": "fill_text.paragraphs", "function": "reformat_text(plaintext)", "input": {"text": text, "width": width}, "got": out})
                continue
            for ws, p in zip((w1, w2), paras):
                for b in check_lines(ws, p.split("\n"), width, 0, 0, False):
                    viol.append({"clause": b, "function": "reformat_text(plaintext)",
                                 "input": {"words": ws, "width": width, "initial_column": 0, "subsequent_offset": 0}, "got": p})


def sweep_containers(tier, viol, stats, rnd):
    """the pipeline level in fill mode: paragraphs behind list / task / ordered / quote / footnote markers: no output line
    is wider than the width unless it holds a single word, and no line could have taken the next word"""
    from flowmark.reformat_api import reformat_text
    heads = [("- ", "  "), ("- [ ] ", "  "), ("- [x] ", "  "), ("1. ", "   "), ("10. [ ] ", "    "), ("> ", "> "), ("> - [ ] ", ">   ")]
    for i in range(40 if tier == "quick" else 400):
        words = ["w" * rnd.choice((1, 2, 3, 5, 8)) for _ in range(rnd.choice((4, 7, 11)))]
        head, cont = rnd.choice(heads)
        text = head + " ".join(words) + "\n"
        for width in (12, 16, 21, 30):
            out = reformat_text(text, width=width, semantic=False).rstrip("\n").split("\n")
            stats["evals"] += 1
            bodies = []
            for k, ln in enumerate(out):
                pre = head if k == 0 else cont
                if not ln.startswith(pre.rstrip()) :
                    viol.append({"clause": "indents", "function": "reformat_text(container)", "input": {"text": text, "width": width}, "got": out})
                    break
                body = ln[len(pre):]
                bodies.append(body)
                if len(ln) > width and " " in body:
                    viol.append({"clause": "bounded", "function": "reformat_text(container)", "input": {"text": text, "width": width}, "got": out})
                    break
            else:
                if " ".join(bodies).split() != words:
                    viol.append({"clause": "lossless", "function": "reformat_text(container)", "input": {"text": text, "width": width}, "got": out})
                for k in range(len(out) - 1):
                    nxt = bodies[k + 1].split(" ")[0]
                    if len(out[k]) + 1 + len(nxt) <= width:
                        viol.append({"clause": "maximal", "function": "reformat_text(container)", "input": {"text": text, "width": width}, "got": out})
                        break


def sweep_constructs(tier, viol, stats):
    """the default (HTML / Markdown aware) splitter with atomic constructs among the words, next to characters that a placeholder
    scheme might use itself (private-use code points, NUL excepted: recorded finding C04-plaintext-nul): nothing invented, nothing lost"""
    import itertools
    from flowmark.linewrapping.text_wrapping import wrap_paragraph, wrap_paragraph_lines
    pool = ["`c d`", "[l k](u)", "{% t %}", "<b>", "w\ue000", "\ue001", "\ue002x\ue003", "\uf8ff", "plain", "\U000f0000y"]
    for n in (2, 3):
        for tup in itertools.permutations(pool, n):
            text = " ".join(tup)
            for width in (6, 12, 40):
                lines = wrap_paragraph_lines(text, width, 0, 0, is_markdown=True)
                stats["evals"] += 1
                if " ".join(lines).split() != text.split():
                    viol.append({"clause": "lossless", "function": "wrap_paragraph_lines", "input": {"text": text, "width": width, "is_markdown": True}, "got": lines})
            out = wrap_paragraph(text, 12)
            stats["evals"] += 1
            if out.split() != text.split():
                viol.append({"clause": "lossless", "function": "wrap_paragraph", "input": {"text": text, "width": 12}, "got": out})
    # many constructs in one paragraph (placeholder numbers of one and two digits, in every order of restoration)
    many = ["`c%d`" % k for k in range(13)] + ["[l%d](u%d)" % (k, k) for k in range(11)] + ["{%% t%d %%}" % k for k in range(3)]
    for rot in range(0, len(many), 5):
        toks = many[rot:] + many[:rot]
        text = " w ".join(toks)
        for width in (10, 30, 200):
            lines = wrap_paragraph_lines(text, width, 0, 0, is_markdown=True)
            stats["evals"] += 1
            if " ".join(lines).split() != text.split():
                viol.append({"clause": "lossless", "function": "wrap_paragraph_lines", "input": {"text": text, "width": width, "is_markdown": True}, "got": lines})


def bounded(tier, seed):
    rnd = random.Random(seed)
    viol, stats = [], {"evals": 0, "distinct": set()}
    sweep_constructs(tier, viol, stats)
    sweep_containers(tier, viol, stats, rnd)
    sweep_w(tier, viol, stats)
    sweep_wrappers(tier, viol, stats, rnd)
    sweep_fill_text(tier, viol, stats)
    sweep_markers(tier, viol, stats)
    sweep_plaintext(tier, viol, stats)
    return {"evaluations": stats["evals"], "distinct_nontrivial": len(stats["distinct"]), "violations": viol,
            "samples": [{"words": ["a", "bb", "cccc"], "width": 5, "cols": [0, 2], "function": "wrap_paragraph_lines"},
                        {"words": ["a.", "bbb", "cccccc."], "width": 10, "indents": ["- ", "  "], "function": "line_wrap_by_sentence"}],
            "rule": "(also: every ordered pair / triple of 10 tokens -- atomic constructs and words holding private-use code points -- through the default splitter: lossless) exhaustive word-length vectors (lengths {1,2,4,7}, <=4 words quick / <=5 thorough) x widths x (initial_column, "
                    "subsequent_offset) pairs x markdown flag for wrap_paragraph_lines / wrap_paragraph; (lengths {1,3,6}, 3-4 words, "
                    "every placement of sentence ends) x widths x container indents for both line wrappers; fill_text Wrap.WRAP on "
                    "two-paragraph texts; seeded paragraphs behind list / task / ordered / quote markers through reformat_text at 4 widths; clauses lossless / indents / bounded / maximal / no_wrap of spec/wraps.py; distinct = "
                    "distinct (input shape, number of lines)",
            "exhaustive": tier == "thorough", "bound": "see rule"}


def replay(rec):
    """Replay a refuted C05 obligation: search the small-scope domain of the real function named by the
    obligation for an input violating the clause it carries."""
    viol, stats = [], {"evals": 0, "distinct": set()}
    if "wrap_paragraph" in rec["oid"] or "line_wrap" in rec["oid"]:
        sweep_w("quick", viol, stats)
        sweep_markers("quick", viol, stats)
        sweep_wrappers("quick", viol, stats, random.Random(0))
    from vfcore.check import load_findings, match_bounded_finding
    known = [f for f in load_findings() if (f.get("property") == "C05" or "C05" in f.get("properties", [])) and f.get("status") == "known"]
    for v in viol:
        if match_bounded_finding(v, known) is None:
            return {"reproduced": True, **v}
    return {"reproduced": False, "searched": stats["evals"]}
