"""C01 bounded layer: parse(format(x)) ~ parse(x) on the document space (flowmark's own parser as reader)."""
from __future__ import annotations

from . import docspace as D
from . import pipeline as P
from .common import *  # noqa: F401,F403

ASSUMPTIONS = [
    "bounded stand-in for the statement itself: no contract within reach characterises how a text re-parses (Marko's parser "
    "is a dependency); the mechanisms are proved per function, their composition is only explored here",
    "document space: blocks {paragraph, ATX/setext heading, bullet/ordered/task list, quote, alert, fenced/indented code, "
    "table, rule, link definition, footnote} to nesting depth 2 with the restrictions stated in props/docspace.py (headings, "
    "rules, link definitions and tables inside list items, footnote definitions before other blocks, mixed ')' and '.' "
    "ordered lists are outside the bound); paragraphs of 1-14 tokens from the hazard / inline lexicons; fill mode with hazard "
    "words, semantic mode without (known finding C01-semantic-sentence-start-unescaped)",
    "reader = flowmark's own Marko configuration on input and output; list tightness is not compared (C10)",
]


def escape_word_sweep(viol):
    """markdown_escape_word on every word of <= 4 symbols: the result is the word with at most one backslash inserted; a
    word that alone would start a block at a line start (bullet, quote, ATX heading run, ordered marker) is escaped so that
    'x\\n<escaped> y' stays one paragraph; every other word is returned unchanged"""
    import itertools
    import re
    from flowmark.linewrapping.text_wrapping import markdown_escape_word
    block_start = re.compile(r"^([-*+>]|#{1,6}|[0-9]{1,9}[.)])$")
    n = 0
    for ln in range(1, 5):
        for tup in itertools.product(["-", "*", "+", ">", "#", "1", "9", ".", ")", "a", "\\"], repeat=ln):
            w = "".join(tup)
            e = markdown_escape_word(w)
            n += 1
            ok = e == w or (len(e) == len(w) + 1 and any(e[:k] + e[k + 1:] == w and e[k] == "\\" for k in range(len(e))))
            if not ok:
                viol.append({"clause": "escape_word_inserts_one_backslash", "input": {"word": w}, "got": e})
            elif block_start.match(w) and e == w:
                viol.append({"clause": "escape_word_protects_block_starts", "input": {"word": w}, "got": e})
            elif not block_start.match(w) and e != w and not re.match(r"^(#{7,}|[0-9]{10,}[.)])$", w):
                viol.append({"clause": "escape_word_leaves_other_words", "input": {"word": w}, "got": e})
            elif block_start.match(w):
                doc = "x\n%s y\n" % e
                if [b[0] for b in D.canonical(doc)[1]] != ["p"]:
                    viol.append({"clause": "escape_word_protects_block_starts", "input": {"word": w}, "got": e})
    return n


def punctuation_sweep(viol):
    """_is_unicode_punctuation against the GFM definition it quotes (Unicode P* categories plus the four ASCII symbol
    ranges) on every code point below U+3000: the delimiter flanking rules of the custom strikethrough rest on it"""
    import unicodedata
    from flowmark.formats import flowmark_markdown as FM
    n = 0
    for cp in range(0x3000):
        c = chr(cp)
        want = unicodedata.category(c).startswith("P") or 0x21 <= cp <= 0x2f or 0x3a <= cp <= 0x40 or 0x5b <= cp <= 0x60 or 0x7b <= cp <= 0x7e
        n += 1
        if bool(FM._is_unicode_punctuation(c)) != want:
            viol.append({"clause": "unicode_punctuation_as_specified", "input": {"char": c, "codepoint": cp}, "got": not want, "want": want})
            if len(viol) > 10:
                break
    return n


def bounded(tier, seed):
    n = 120 if tier == "quick" else 1200
    fill = [dict(width=w, semantic=False) for w in (88, 20, 8, 4, 1, 0)]
    sem = [dict(width=w, semantic=True) for w in (88, 20, 8, 0)]
    r1 = P.sweep(seed, n, [P.same_structure, P.generated_tokens_present, P.generated_code_verbatim], option_sets=fill, budget_s=25 if tier == "quick" else 600)
    r2 = P.sweep(seed + 7919, n, [P.same_structure, P.generated_tokens_present, P.generated_code_verbatim], option_sets=sem, hazards=False, budget_s=20 if tier == "quick" else 600)
    ev = []
    from . import funcspecs as FS
    ne = escape_word_sweep(ev) + punctuation_sweep(ev) + FS.bare_url_test(ev) + FS.link_destination_roundtrip(ev, 3 if tier == "quick" else 5) + FS.code_span_roundtrip(ev, 7 if tier == "quick" else 9) + FS.block_heuristics(ev)
    return {"evaluations": r1["evaluations"] + r2["evaluations"] + ne, "distinct_nontrivial": r1["distinct_nontrivial"] + r2["distinct_nontrivial"],
            "violations": r1["violations"] + r2["violations"] + ev, "samples": r1["samples"],
            "rule": "(also: render_code_span(t) reads back as a code span with text t for every t of <= 7 (thorough 9) symbols over backtick / letter / blank; line_is_list_item etc. against the CommonMark rule) (also: _link_destination(d) inside [t](...) / ![t](...) / [t](... \"T\") reads back as destination d for every d of <= 3 (thorough: 5) symbols over ( ) < > space / _ a) (also: _is_unicode_punctuation == the GFM definition on every code point below U+3000) (also: markdown_escape_word on every word of <= 4 symbols over an 11-symbol alphabet against the CommonMark block-start "
                    "rule) seeded documents from props/docspace.py x widths {88,20,8,4,1,0} fill mode (hazard words included) and "
                    "{88,20,8,0} semantic mode (no hazard words), cleanups/typography off, list_spacing=preserve: canonical tree of "
                    "input == canonical tree of output, every inline construct of the generator's lexicon occurs as often as before and every generated top-level code block / info string is there verbatim (independent of the parser); distinct = distinct outputs",
            "exhaustive": False, "bound": "%d documents per mode, depth <= 2" % n}


def _differs(text, **o):
    from . import docspace as D
    out = P.fmt(text, **o)
    return D.canonical(text) != D.canonical(out)


def witnesses():
    return {
        "C01-escape-hazards": _differs("aaaa ---\n", width=4, semantic=False),
        "C01-semantic-sentence-start-unescaped": _differs("This is one longer sentence here. - not a list item here.\n", width=88, semantic=True),
        "C01-title-quotes": _differs("[a]: http://x 'T'\n\n[a]\n", width=88, semantic=False),
        "C01-multiline-setext": _differs("a\\\nb\n===\n", width=88, semantic=False),
        "C01-ordered-delimiter-merge": _differs("1. a\n\n1) b\n", width=88, semantic=False),
        "C01-closing-tag-unindented": _differs("- {% f %}\n  - i1\n  {% /f %}\n", width=88, semantic=False),
        "C01-hard-break-after-delimiter-run": _differs("a *  \nb 2*3*4\n", width=88, semantic=False),
        "C01-shortcut-reference-before-bracket": _differs("[foo][foo](bar)\n\n[foo]: /u\n", width=88, semantic=False),
        "C01-adjacent-emphasis-delimiters": _differs("**a**__b__ *c*_d_\n", width=88, semantic=False),
        "C01-ordered-number-overflow": P.fmt(P.fmt("999999999. a\n999999999. b\n", width=88), width=88) != P.fmt("999999999. a\n999999999. b\n", width=88),
        "C01-link-destination-backslash": P.fmt(P.fmt("[x](a\\\\*b)\n", width=88), width=88) != P.fmt("[x](a\\\\*b)\n", width=88),
        "C01-marko-lax-table-delimiter": _differs("a it.  | -x +\nEnds.\n", width=8, semantic=False),
        "C01-link-definition-inside-list-item": _differs("- [a]: /u\n\n- b\n", width=88, semantic=False)
        and P.fmt(P.fmt("- [a]: /u\n\n- b\n", width=88, semantic=False), width=88, semantic=False) != P.fmt("- [a]: /u\n\n- b\n", width=88, semantic=False),
    }


def static_obligations(tier):
    """ST frame obligations that the contracts on render_paragraph / render_heading assume of the inline render methods:
    rendering inline children assigns no renderer field other than the escape context `_current_inline_text`
    (so the container prefixes and the block-level flags in force are those the block method set)."""
    import ast
    from vfcore import static
    tree = static.package_modules(include=("flowmark.formats.flowmark_markdown",))["flowmark.formats.flowmark_markdown"]
    cls = next(n for n in ast.walk(tree) if isinstance(n, ast.ClassDef) and n.name == "MarkdownNormalizer")
    recs = []
    for m in cls.body:
        if not isinstance(m, ast.FunctionDef) or not m.name.startswith("render_") or len(m.args.args) < 2:
            continue
        ann = ast.unparse(m.args.args[1].annotation) if m.args.args[1].annotation is not None else ""
        if not (ann.startswith("inline.") or ann in ("footnote.FootnoteRef", "gfm_elements.Strikethrough", "gfm_elements.Url")):
            continue
        stores = sorted({x.attr for x in ast.walk(m) if isinstance(x, ast.Attribute) and isinstance(x.ctx, (ast.Store, ast.Del))
                         and isinstance(x.value, ast.Name) and x.value.id == "self"})
        calls_block = sorted({ast.unparse(c.func) for c in ast.walk(m) if isinstance(c, ast.Call) and isinstance(c.func, ast.Attribute)
                              and isinstance(c.func.value, ast.Name) and c.func.value.id == "self"
                              and c.func.attr not in ("render_children", "render")})
        recs.append({"oid": "frame/formats.flowmark_markdown:MarkdownNormalizer.%s/inline_renderers_frame" % m.name,
                     "status": "discharged" if set(stores) <= {"_current_inline_text"} else "refuted",
                     "src": "an inline render method assigns no renderer field other than _current_inline_text",
                     "detail": "assigns %s; calls %s" % (stores, calls_block)})
    # the hard-break splitter: exactly the two CommonMark hard-break spellings (backslash-newline, two spaces + newline)
    import re._parser as sp
    from vfcore import relang
    from flowmark.linewrapping import line_wrappers as LW
    lang = relang.finite_language(sp.parse(LW._line_break_re.pattern, LW._line_break_re.flags))
    recs.append({"oid": "shape/linewrapping.line_wrappers:_line_break_re/language_is_the_two_hard_break_spellings",
                 "status": "discharged" if lang == {"\\\n", "  \n"} else ("refuted" if lang is not None else "unknown"),
                 "src": "the language of _line_break_re is {backslash-newline, two spaces + newline}", "detail": repr(sorted(lang) if lang else lang)})
    return recs
