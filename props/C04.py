"""C04 bounded layer: literal (non-prose) spans compared as sequences before and after formatting."""
from __future__ import annotations

from . import pipeline as P
from .common import *  # noqa: F401,F403

ASSUMPTIONS = [
    "bounded stand-in for the document-level statement; one extractor (flowmark's own parser) reads input and output",
    "all typography options on; code containing fence-like lines, prefixes and blank lines at nesting depth <= 2",
]


def spec_min_fence(code, ch):
    """from the property ('a fence is always long enough to contain its content') and CommonMark 4.5: longer than every run
    of the fence character that starts a line after at most three spaces, and at least 3"""
    import re
    best = 0
    for line in code.split("\n"):
        m = re.match(r"^ {0,3}(%s+)" % re.escape(ch), line)
        if m and len(m.group(1)) >= 3:
            best = max(best, len(m.group(1)))
    return max(3, best + 1)


def fence_function_sweep(tier, viol):
    import itertools
    from flowmark.formats.flowmark_markdown import _min_fence_length
    n = 0
    for ch in "`~":
        alphabet = [ch, ch * 3, " ", "\n", "a", "    "]
        for ln in range(0, 6 if tier == "quick" else 7):
            for tup in itertools.product(alphabet, repeat=ln):
                code = "".join(tup)
                n += 1
                got, want = _min_fence_length(code, ch), spec_min_fence(code, ch)
                if got != want:
                    viol.append({"clause": "fence_longer_than_content_runs", "input": {"code": code, "fence_char": ch}, "got": got, "want": want})
                    if len(viol) > 10:
                        return n
    # through the pipeline: indented code blocks (no fence of their own) containing fence-like lines, at nesting
    from . import docspace as D
    for pre in ("", "> ", "- ", "1. > "):
        for inner in ("```", " ```", "   `````", "~~~", "  ~~~~"):
            doc = D.indent("    first\n    " + inner + "\n    last", pre, " " * len(pre) if not pre.endswith("> ") else pre) + "\n"
            out = P.fmt(doc, width=88)
            n += 1
            if D.literal_spans(doc) != D.literal_spans(out):
                viol.append({"clause": "fence_contains_content", "input": {"text": doc}, "got": out})
    return n


def bounded(tier, seed):
    n = 120 if tier == "quick" else 1200
    o = dict(cleanups=True, smartquotes=True, ellipses=True)
    fill = [dict(o, width=w, semantic=False) for w in (88, 12, 0)]
    sem = [dict(o, width=w, semantic=True) for w in (88, 12)]
    r1 = P.sweep(seed, n, [P.literal_spans_verbatim, P.generated_code_verbatim], option_sets=fill, budget_s=25 if tier == "quick" else 600)
    r2 = P.sweep(seed + 31, n, [P.literal_spans_verbatim, P.generated_code_verbatim], option_sets=sem, hazards=False, budget_s=15 if tier == "quick" else 600)
    fv = []
    fn = fence_function_sweep(tier, fv)
    from . import funcspecs as FS
    fn += FS.link_destination_roundtrip(fv, 3 if tier == "quick" else 5) + FS.fence_opener_sweep(fv) + FS.code_span_roundtrip(fv, 7 if tier == "quick" else 9)
    return {"evaluations": r1["evaluations"] + r2["evaluations"] + fn, "distinct_nontrivial": r1["distinct_nontrivial"] + r2["distinct_nontrivial"],
            "violations": r1["violations"] + r2["violations"] + fv, "samples": r1["samples"],
            "rule": "(also: _link_destination round trip through the parser for every destination of <= 3 (thorough 5) symbols; the fence test of preprocess_tag_block_spacing == CommonMark's on every line of <= 7 symbols) (also: _min_fence_length == an independent spec on every code string of <= 5/6 tokens over {fence char, run of 3, "
                    "space, newline, letter, 4 spaces}; indented code blocks holding fence-like lines in 4 containers) "
                    "seeded documents x {88,12,0} fill / {88,12} semantic with cleanups, smart quotes and ellipses on: the sequence of "
                    "code blocks (info string, lines), code spans, inline HTML, link/image destinations and titles, autolinks and link "
                    "definitions is identical before and after, and every top-level code block the generator wrote appears with exactly its lines (independent of the parser); distinct = distinct outputs",
            "exhaustive": False, "bound": "%d documents per mode" % n}


def witnesses():
    out = P.fmt("x \x00AC0\x00 `c` y\n", plaintext=True, width=88)
    return {"C04-plaintext-nul": out.count("`c`") != 1,
            "C04-link-title-space-runs": '"T  w"' not in P.fmt('a [w](http://x.y/t "T  w") b\n', width=88),
            "C04-www-autolink-gains-scheme": "http://www.example.com" in P.fmt("see www.example.com now\n", width=88),
            "C04-footnote-label-lowercased": "[^note]" in P.fmt("Text[^Note].\n\n[^Note]: The note.\n", width=88),
            "C04-info-string-space-runs": '```python title="x"' in P.fmt('```python   title="x"\ncode\n```\n', width=88),
            "C04-image-reference-expanded": "![alt](/u)" in P.fmt("![alt][r]\n\n[r]: /u\n", width=88),
            "C04-whitespace-only-code-line-emptied": P.fmt("```\n \n  x\n```\n", width=88) == "```\n\n  x\n```\n",
            "C04-hard-break-inside-inline-html": "<span\\\n" in P.fmt('A <span  \nclass="x">b</span> c\n', width=88)}
