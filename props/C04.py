"""C04 bounded layer: literal (non-prose) spans compared as sequences before and after formatting."""
from __future__ import annotations

from . import pipeline as P
from .common import *  # noqa: F401,F403

ASSUMPTIONS = [
    "bounded stand-in for the document-level statement; one extractor (flowmark's own parser) reads input and output",
    "all typography options on; code containing fence-like lines, prefixes and blank lines at nesting depth <= 2",
]


def bounded(tier, seed):
    n = 120 if tier == "quick" else 1200
    o = dict(cleanups=True, smartquotes=True, ellipses=True)
    fill = [dict(o, width=w, semantic=False) for w in (88, 12, 0)]
    sem = [dict(o, width=w, semantic=True) for w in (88, 12)]
    r1 = P.sweep(seed, n, [P.literal_spans_verbatim], option_sets=fill, budget_s=25 if tier == "quick" else 600)
    r2 = P.sweep(seed + 31, n, [P.literal_spans_verbatim], option_sets=sem, hazards=False, budget_s=15 if tier == "quick" else 600)
    return {"evaluations": r1["evaluations"] + r2["evaluations"], "distinct_nontrivial": r1["distinct_nontrivial"] + r2["distinct_nontrivial"],
            "violations": r1["violations"] + r2["violations"], "samples": r1["samples"],
            "rule": "seeded documents x {88,12,0} fill / {88,12} semantic with cleanups, smart quotes and ellipses on: the sequence of "
                    "code blocks (info string, lines), code spans, inline HTML, link/image destinations and titles, autolinks and link "
                    "definitions is identical before and after; distinct = distinct outputs",
            "exhaustive": False, "bound": "%d documents per mode" % n}


def witnesses():
    out = P.fmt("x \x00AC0\x00 `c` y\n", plaintext=True, width=88)
    return {"C04-plaintext-nul": out.count("`c`") != 1}
