"""C11 bounded layer: break placement and edit locality of the real semantic wrapper."""
from __future__ import annotations

import itertools
import random

from .common import *  # noqa: F401,F403

ASSUMPTIONS = [
    "heuristic_end_of_sentence (SENTENCE_END_RE, uses \\p{L}) is an oracle: the property is stated relative to the detected ends",
    "lemma L-locality (a left fold whose step never rewrites lines[:-1] and depends on its past only through a short last "
    "line keeps edits local) is an unchecked meta-lemma; its premises prefix_stable / break_after_sentence / structure are "
    "the discharged per-iteration obligations of line_wrap_by_sentence, and the conclusion is explored here on the real code",
    "hard breaks and tag-adjacent newlines are excluded from the bounded sentences (covered by C01/C06 contracts)",
]

MIN_LEN = 20


def sentences_pool(rnd):
    words = ["alpha", "beta", "gamma", "delta", "epsilon", "zeta", "eta", "theta", "iota", "kappa", "lambda", "mu", "no",
             "incomprehensibilities"]
    out = []
    for n in (1, 2, 3, 5, 8, 12):
        ws = [rnd.choice(words) for _ in range(n)]
        out.append(" ".join(ws).capitalize() + rnd.choice(".?!") + rnd.choice(["", "", "", "'", '"', ")", "\u201d", "\u2019"]))
    # fixed shapes: sentences that end in a short word, start with a number, a bracket, a quote or a lower-case word
    out += ["It all ended in late May.", "2023 was so much better than that.", "We really have to go.", "3 of them stayed behind again today.",
            "(Really so, they said it twice.)", "\"Quoted start\" goes on for a while here.", "iPhones are sold there as well, they say.",
            # a short sentence that is only long through an inline tag / code span / link
            # (constructs without inner blanks: the oracle counts whitespace-separated words)
            "This works {%badge-new-thing%} now.", "See `the_configuration_value` there.", "Read [guide](http://x.y/the/longer/guide) first."]
    return out


def wrap(text, width, i0, i1):
    from flowmark.linewrapping.line_wrappers import line_wrap_by_sentence
    return line_wrap_by_sentence(width=width, is_markdown=True, min_line_len=MIN_LEN)(text, i0, i1).split("\n")


def check_breaks(sents, lines, width, i0, i1, viol):
    """every line break is after a sentence end or forced by the width; every sentence end is followed by a
    break unless the line so far is shorter than MIN_LEN"""
    from flowmark.linewrapping.sentence_split_regex import heuristic_end_of_sentence
    words = " ".join(sents).split()
    pos = 0
    for j, ln in enumerate(lines):
        pre = i0 if j == 0 else i1
        body = ln[len(pre):]
        ws = body.split(" ")
        pos += len(ws)
        if j + 1 < len(lines):
            last, nxt = words[pos - 1], words[pos]
            forced = len(pre) + len(body) + 1 + len(nxt) > width
            if not heuristic_end_of_sentence(last) and not forced:
                prev = lines[j - 1][len(i0 if j == 1 else i1):] if j > 0 else None
                viol.append({"clause": "breaks_only_at", "input": {"sentences": sents, "width": width, "indents": [i0, i1], "line": j,
                                                                   "prev_len": len(prev) if prev is not None else None,
                                                                   "prev_ends_sentence": bool(prev) and heuristic_end_of_sentence(prev.split(" ")[-1])},
                             "got": lines})
        # sentence ends strictly inside a line: the line so far must be short
        acc = 0
        for k, w in enumerate(ws[:-1]):
            acc += len(w) + (1 if k else 0)
            if heuristic_end_of_sentence(w) and acc >= MIN_LEN:
                viol.append({"clause": "break_after_sentence", "input": {"sentences": sents, "width": width, "indents": [i0, i1]}, "got": lines})


def check_locality(sents, p, new_sentence, width, i0, i1, viol):
    """edit sentence p: lines before the previous sentence's last line are identical; and from the first
    sentence q >= p after which both runs end on a line of >= MIN_LEN, the rest is identical"""
    a = wrap(" ".join(sents), width, i0, i1)
    edited = sents[:p] + [new_sentence] + sents[p + 1:]
    b = wrap(" ".join(edited), width, i0, i1)
    # prefix: lines produced by sentences < p, minus the last one
    pre_a = wrap(" ".join(sents[:p]), width, i0, i1) if p else []
    stable = max(0, len(pre_a) - 1)
    if a[:stable] != b[:stable]:
        viol.append({"clause": "locality.prefix", "input": {"sentences": sents, "p": p, "new": new_sentence, "width": width,
                                                             "indents": [i0, i1]}, "got": [a, b]})
    # suffix: find q
    for q in range(p, len(sents)):
        ha = wrap(" ".join(sents[:q + 1]), width, i0, i1)
        hb = wrap(" ".join(edited[:q + 1]), width, i0, i1)
        la, lb = ha[-1][len(i1 if len(ha) > 1 else i0):], hb[-1][len(i1 if len(hb) > 1 else i0):]
        if len(la) >= MIN_LEN and len(lb) >= MIN_LEN:
            ta, tb = a[len(ha):], b[len(hb):]
            if ta != tb:
                viol.append({"clause": "locality.suffix", "input": {"sentences": sents, "p": p, "new": new_sentence, "q": q,
                                                                     "width": width, "indents": [i0, i1]}, "got": [a, b]})
            break


def documented_sentence_end(word):
    """Independent implementation of the documented rule (docstring of split_sentences_regex): the word ends
    (ignoring trailing spaces) in a run of two or more letters whose last one is lowercase, at a word boundary,
    followed by one of . ? ! optionally followed by a closing quote/parenthesis, or by a closing
    quote/parenthesis followed by one of . ? !"""
    import unicodedata
    w = word.rstrip(" ")
    closers = "'\"\u2019\u201d)"
    enders = ".?!"
    if len(w) >= 2 and w[-1] in closers and w[-2] in enders:
        core = w[:-2]
    elif len(w) >= 2 and w[-1] in enders and w[-2] in closers:
        core = w[:-2]
    elif w and w[-1] in enders:
        core = w[:-1]
    else:
        return False
    # trailing letters of core
    i = len(core)
    while i > 0 and unicodedata.category(core[i - 1]).startswith("L"):
        i -= 1
    letters = core[i:]
    if len(letters) < 2 or unicodedata.category(letters[-1]) != "Ll":
        return False
    # word boundary before the letter run: start of string or a non-word character
    if i > 0 and (core[i - 1].isalnum() or core[i - 1] == "_"):
        return False
    return True


def check_heuristic(tier, viol):
    from flowmark.linewrapping.sentence_split_regex import heuristic_end_of_sentence
    alphabet = ["a", "B", "c", "é", "1", ".", "!", "?", ")", '"', "\u201d", "-", "_", "'", "\u2019"]
    n = 0
    maxlen = 4 if tier == "quick" else 5
    for ln in range(1, maxlen + 1):
        for tup in itertools.product(alphabet, repeat=ln):
            w = "".join(tup)
            n += 1
            if heuristic_end_of_sentence(w) != documented_sentence_end(w):
                viol.append({"clause": "sentence_end_heuristic_as_documented", "input": {"word": w},
                             "got": heuristic_end_of_sentence(w), "want": documented_sentence_end(w)})
                if len(viol) > 20:
                    return n
    for w in ("no.", "No.", "etc.", "vs.", "fig.", "ed.", "est.", "so.", "go.", "is.", "am.", "pm.", "al.", "cf.", "JavaScript.", "GitHub!", "iPhone?", "(PyTorch.)", "NASA.", "e.g.", "end.\"", "end\".", "Ok.", "x.", "3.", "naïve.", "word. "):
        n += 1
        if heuristic_end_of_sentence(w) != documented_sentence_end(w):
            viol.append({"clause": "sentence_end_heuristic_as_documented", "input": {"word": w},
                         "got": heuristic_end_of_sentence(w), "want": documented_sentence_end(w)})
    return n


def bounded(tier, seed):
    rnd = random.Random(seed)
    viol, evals, distinct = [], 0, set()
    pool = sentences_pool(rnd)
    n_par = 60 if tier == "quick" else 400
    widths = (30, 60, 88)
    indents = (("", ""), ("- ", "  "))
    samples = []
    for _ in range(n_par):
        k = rnd.choice((2, 3, 4))
        sents = [rnd.choice(pool) for _ in range(k)]
        for width in widths:
            for i0, i1 in indents:
                lines = wrap(" ".join(sents), width, i0, i1)
                evals += 1
                distinct.add((tuple(sents), width, i0, len(lines)))
                check_breaks(sents, lines, width, i0, i1, viol)
                for p in range(k):
                    for new in (pool[0], pool[2], pool[5]):
                        if new == sents[p]:
                            continue
                        check_locality(sents, p, new, width, i0, i1, viol)
                        evals += 1
                if len(samples) < 2:
                    samples.append({"sentences": sents, "width": width, "indents": [i0, i1], "lines": lines})
    evals += check_heuristic(tier, viol)
    return {"evaluations": evals, "distinct_nontrivial": len(distinct), "violations": viol, "samples": samples,
            "rule": "(also: heuristic_end_of_sentence == an independent implementation of the documented rule on every word of "
                    "length <= 4/5 over a 13-symbol alphabet) seeded paragraphs of 2-4 sentences drawn from 6 sentence lengths (1..12 words) and 7 fixed shapes (short last word, leading number / bracket / quote / lower case) x widths {30,60,88} x "
                    "{no indent, list indent}: break placement on the real line_wrap_by_sentence, and every single-sentence "
                    "replacement by three other sentences: line-level locality (prefix before the previous sentence's last line, "
                    "suffix after the first sentence ending on a line >= min length in both runs); distinct = distinct "
                    "(paragraph, width, indent, #lines)",
            "exhaustive": False, "bound": "%d paragraphs" % n_par}
