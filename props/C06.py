"""C06 bounded layer: atomic constructs in paragraphs at narrow widths; tag lines and tag-delimited blocks."""
from __future__ import annotations

import itertools
import random
import re

from . import docspace as D
from . import pipeline as P
from .common import *  # noqa: F401,F403

ASSUMPTIONS = [
    "ATOMIC_CONSTRUCT_PATTERN and the paired-tag patterns (look-ahead, back-references) are uninterpreted oracles in the "
    "contracts: what they match is explored only here",
    "top-level paragraphs and tag blocks only (tags inside list items / quotes: known finding C01-closing-tag-unindented)",
]

CONSTRUCTS = ["{% tag a=\"1 2\" %}", "{{ var | f }}", "{# a comment #}", "<!-- html comment -->", "`code span here`",
              "[link text](http://x.y/z)", "<span class=\"a b\">", "{% t %}{% /t %}", "<!-- a --><!-- /a -->",
              "![alt text](img.png \"T\")", "`` `a b` ``", "`` x = `date +%s` ``", "{% p fmt=\"%Y-%m-%d %H:%M\" %}",
              "{{ loop.index % 2 }}", "{# 50 # of 100 #}", "<!-- a - b -> c d -->", "<svg:rect width=\"1 2\">",
              "<o:p class=\"a b\">", "<Menu.Item key=\"a b\">", "<x-tag data-a=\"1 2\"/>"]
WORDS = ["aa", "bbb", "cccc", "d", "eeeeee"]


def bounded(tier, seed):
    rnd = random.Random(seed)
    viol, evals, distinct = [], 0, set()
    widths = (1, 3, 5, 8, 12, 20, 88) if tier == "quick" else tuple(range(1, 21)) + (40, 88)
    n = 60 if tier == "quick" else 600
    for i in range(n):
        toks = [rnd.choice(WORDS + CONSTRUCTS) for _ in range(rnd.choice((2, 3, 5, 7)))]
        if toks[0].startswith(("{", "<!--")):
            toks.insert(0, rnd.choice(WORDS))          # a paragraph that starts with a tag is a tag line
        text = " ".join(toks) + "\n"
        for w in widths:
            for sem in (False, True):
                out = P.fmt(text, width=w, semantic=sem)
                evals += 1
                distinct.add(out)
                flat = re.sub(r"\s+", " ", out).strip()
                for c in toks:
                    if c in CONSTRUCTS and c not in flat and not any(l.count(c) for l in out.split("\n")):
                        viol.append({"clause": "atomic_unbroken", "input": {"text": text, "options": {"width": w, "semantic": sem}},
                                     "got": out, "construct": c})
                        break
                    if c in CONSTRUCTS and not any(c in l for l in out.split("\n")):
                        viol.append({"clause": "atomic_unbroken", "input": {"text": text, "options": {"width": w, "semantic": sem}},
                                     "got": out, "construct": c})
                        break
                if flat != re.sub(r"\s+", " ", text).strip() and "\\" not in out:
                    viol.append({"clause": "spacing_kept", "input": {"text": text, "options": {"width": w, "semantic": sem}}, "got": out})
    # paragraphs inside containers with INLINE tags (also Markdoc-style closing tags and comments), at every width where one of
    # them may land at the start of a continuation line: the block structure stays, the words stay in order, every
    # continuation line keeps the container's indent (a post-processing step that un-indents "closing tag lines" must not
    # fire on a wrapped paragraph line)
    inline_docs = [
        "- Render the badge {% if beta %}only for beta users{% /if %} and keep going with more words so that the line wraps again here.\n- second item\n",
        "1. Step one <!-- note --> has a comment <!-- /note --> in the middle of a long sentence that needs to be wrapped somewhere.\n2. Step two\n",
        "> Quoted text with {% tip %}an inline tip{% /tip %} that is long enough to be wrapped at many different widths, really.\n",
        "- outer\n  - inner item with {{ value }} and {% /endfor %} stray closers inside a longer nested paragraph of words here.\n",
    ]
    for d in inline_docs:
        want_struct = D.canonical(d)
        for w in (range(24, 101, 4) if tier == "quick" else range(20, 121)):
            for sem in (False, True):
                out = P.fmt(d, width=w, semantic=sem)
                evals += 1
                bad = None
                if D.canonical(out) != want_struct:
                    bad = "block structure changed"
                elif re.sub(r"[\s>]+", " ", out).split() != re.sub(r"[\s>]+", " ", d).split():
                    bad = "words changed"
                elif any(l and not l.startswith((" ", ">", "-", "1.", "2.")) for l in out.split("\n")):
                    bad = "a continuation line lost the container's indent"
                if bad:
                    viol.append({"clause": "inline_tags_stay_in_their_paragraph", "input": {"text": d, "options": {"width": w, "semantic": sem}}, "got": out, "want": bad})
                    break
    # the single-tag patterns: a tag runs from its opener to the FIRST closer, whatever characters lie between
    from flowmark.linewrapping import atomic_patterns as AP
    for pat in (AP.SINGLE_JINJA_TAG, AP.SINGLE_JINJA_COMMENT, AP.SINGLE_JINJA_VAR, AP.SINGLE_HTML_COMMENT):
        rx = re.compile(pat.pattern, re.DOTALL)
        alphabet = ["a", " ", "%", "#", "{", "}", "-", ">", "<", "!", "\n", "\"", pat.close_delim]
        for n in range(0, 4):
            for mid in itertools.product(alphabet, repeat=n):
                s0 = pat.open_delim + "".join(mid) + pat.close_delim + " tail " + pat.close_delim
                evals += 1
                m = rx.match(s0)
                want_end = s0.find(pat.close_delim, len(pat.open_delim)) + len(pat.close_delim)
                if m is None or m.end() != want_end:
                    viol.append({"clause": "tag_pattern_first_close", "input": {"text": s0, "pattern": pat.name},
                                 "got": None if m is None else m.group(0), "want": s0[:want_end]})
    # function-level restatements (props/funcspecs.py): line predicates, block heuristics, atomic patterns
    from . import funcspecs as FS
    evals += FS.block_heuristics(viol) + FS.tag_line_predicates(viol) + FS.atomic_patterns(viol) + FS.fence_opener_sweep(viol)
    # tag lines stay alone on their own unindented line; enclosed lists/tables stay lists/tables with blank lines
    # (an earlier fenced code block, with an indented closing fence, must not disturb what follows it)
    PREFIXES = ("", "- item\n\n  ```\n  code\n  ```\n\n", " ~~~\ncode {% x %}\n ~~~\n\n", "```\n{% f %}\n- no list\n```\n\npara\n\n")
    for t_open, t_close in (("{% f %}", "{% /f %}"), ("<!-- f -->", "<!-- /f -->"), ("{# f #}", "{# /f #}"), ("{% if x %}", "{% endif %}"),
                            ("<!-- f -->", "<!-- end -->")):
        for inner, prefix, w, sem in itertools.product(
                ("some prose that is long enough to wrap at narrow widths", "- i1\n- i2", "| a | b |\n|---|---|\n| 1 | 2 |", "1. x\n2. y",
                 "| a | b\n|---|---\n| 1 | 2", "| a | b |\n|---|---|\n| 1 | 2"),
                PREFIXES, (88, 20, 5), (False, True)):
                    text = "%s%s\n%s\n%s\n" % (prefix, t_open, inner, t_close)
                    out = P.fmt(text, width=w, semantic=sem)
                    evals += 1
                    lines = out.split("\n")
                    if prefix:          # only the part after the prefix is judged
                        k = max(i for i, l in enumerate(lines) if l.strip() in ("```", "~~~", "para")) + 1
                        lines = lines[k:]
                    if t_open not in lines or t_close not in lines:
                        viol.append({"clause": "tag_line_alone", "input": {"text": text, "options": {"width": w, "semantic": sem}}, "got": out})
                    if inner[0] in "-|1":
                        i0, i1 = lines.index(t_open) if t_open in lines else 0, lines.index(t_close) if t_close in lines else len(lines)
                        body = lines[i0 + 1:i1]
                        if not body or body[0] != "" or body[-1] != "" or not any(l.startswith(inner[0]) for l in body):
                            viol.append({"clause": "block_in_tags_separated", "input": {"text": text, "options": {"width": w, "semantic": sem}}, "got": out})
    return {"evaluations": evals, "distinct_nontrivial": len(distinct), "violations": viol,
            "samples": [{"text": " ".join([WORDS[0], CONSTRUCTS[0], WORDS[2], CONSTRUCTS[4]])}],
            "rule": "(also: four container paragraphs with inline tags at widths 24..100: structure, word order and continuation indents kept) (also: line_is_list_item / table_row / block_content, the five tag-line predicates and the code-span / HTML-tag / link / "
                    "paired-tag patterns against independent restatements on enumerated short inputs) each of the 4 single-tag patterns on opener + every body of <= 3 symbols over a 13-symbol alphabet + closer: the match ends at "
                    "the first closer; seeded top-level paragraphs of 2-7 tokens mixing 5 words with 21 atomic constructs (tags whose body holds their own delimiter characters) (incl. multi-backtick code spans holding backticks) x widths (quick {1,3,5,8,12,20,88}, "
                    "thorough 1..20, 40, 88) x both modes: every construct lies within one output line and the whitespace-collapsed text is "
                    "unchanged; 5 tag pairs x {prose, list, table, ordered list, tables without trailing pipes} x 4 preceding contexts (none, fenced code in a list item / with an "
                    "indented closing fence, code holding tag lines) x widths {88,20,5} x both modes: the tag lines stay alone "
                    "and block content is separated by blank lines; distinct = distinct outputs",
            "exhaustive": False, "bound": "%d paragraphs" % n}


def witnesses():
    return {
        "C06-adjacent-tags-glued": "{% a %} {% b %}" not in P.fmt("x {% a %} {% b %} y\n", width=88, semantic=False),
        "C06-semantic-splits-constructs": any("[see this thing." in l and "](" not in l for l in P.fmt(
            "Intro words go here. A link [see this thing. Then that](http://x.y) follows here.\n", width=88, semantic=True).split("\n")),
        "C06-title-with-paren-not-atomic": not any('![img](i.png "(c) ACME (tm)")' in l for l in P.fmt('see ![img](i.png "(c) ACME (tm)") here\n', width=12, semantic=False).split("\n")),
        "C06-angle-bracket-pair-swallows-constructs": not any("`> `" in l for l in P.fmt("aaa x<y dddd eeee `> ` zzz\n", width=8, semantic=False).split("\n")),
        "C06-adjacent-tags-split-narrow": "{% a %}{% b %}" not in P.fmt("{% a %}{% b %} text\n", width=5, semantic=False).replace("\n", "\n"),
    }


def static_obligations(tier):
    """ST obligation assumed by the contract on _fix_multiline_opening_tag_with_closing: every top-level alternative of
    _multiline_closing_pattern contains its named group outside any optional / repeated-from-zero part, so whenever the
    pattern matches one of the four named groups took part (the splitting loop then always finds its group and no line is
    dropped)."""
    import re._constants as sc
    import re._parser as sp
    from flowmark.linewrapping import tag_handling as TH
    pat = TH._multiline_closing_pattern
    parsed = sp.parse(pat.pattern, pat.flags)
    names = {v: k for k, v in pat.groupindex.items()}

    def mandatory_groups(seq):
        """group numbers that every match of this sequence must set"""
        out = set()
        for op, av in seq:
            if op is sc.SUBPATTERN:
                gid, _a, _d, sub = av
                if gid is not None:
                    out.add(gid)
                out |= mandatory_groups(sub)
            elif op in (sc.MAX_REPEAT, sc.MIN_REPEAT, sc.POSSESSIVE_REPEAT):
                lo, _hi, sub = av
                if lo >= 1:
                    out |= mandatory_groups(sub)
            elif op is sc.BRANCH:
                alts = [mandatory_groups(a) for a in av[1]]
                out |= set.intersection(*alts) if alts else set()
            elif op is sc.ATOMIC_GROUP:
                out |= mandatory_groups(av)
        return out

    items = list(parsed)
    if len(items) == 1 and items[0][0] is sc.BRANCH:
        alts = items[0][1][1]
    else:
        alts = [parsed]
    per_alt = [sorted(names.get(g, str(g)) for g in mandatory_groups(a)) for a in alts]
    want = {"closing_tag", "closing_comment", "closing_var", "closing_html"}
    ok = all(set(a) & want for a in per_alt) and set(pat.groupindex) == want
    return [{"oid": "shape/linewrapping.tag_handling:_multiline_closing_pattern/every_alternative_has_its_named_group",
             "status": "discharged" if ok else "refuted",
             "src": "every alternative of _multiline_closing_pattern sets one of the four named groups the splitting loop looks for",
             "detail": "alternatives set %s; named groups %s" % (per_alt, sorted(pat.groupindex))}]
