"""C18 bounded layer: directory traversal vs `git ls-files -co --exclude-standard` on generated trees."""
from __future__ import annotations

import os
import random
import shutil

from . import fsgen
from .common import *  # noqa: F401,F403

ASSUMPTIONS = [
    "gitignore pattern semantics themselves are delegated to pathspec (PathSpec.check_file: last matching pattern of one file, "
    "None when no pattern matches) and compared with git 2.39 only in this bounded layer",
    "bounded layer: .gitignore lines drawn from an 18-line pool (basename, anchored, multi-segment, dir-only, *, **, ?, negation, "
    "comments) at any directory level of small generated trees",
]


def bounded(tier, seed):
    from flowmark.file_resolver import FileResolver, FileResolverConfig
    rnd = random.Random(seed)
    viol, evals, distinct, samples = [], 0, set(), []
    n = 60 if tier == "quick" else 600
    for i in range(n):
        base = scratch_dir("vf-c18-")
        root = os.path.join(base, "t")
        try:
            fsgen.make_tree(rnd, root, gitignores=True)
            gi = {os.path.relpath(os.path.join(dp, f), root): open(os.path.join(dp, f)).read()
                  for dp, dn, fn in os.walk(root) for f in fn if f == ".gitignore"}
            vis = [p for p in fsgen.git_visible(root) if p.endswith(".md")]
            got = sorted(os.path.relpath(str(p), os.path.realpath(root))
                         for p in FileResolver(FileResolverConfig(exclude=[])).resolve([root]))
            evals += 1
            distinct.add(tuple(vis))
            inp = {"tree_seed": [seed, i], "gitignores": gi,
                   "files": sorted(os.path.relpath(os.path.join(dp, f), root) for dp, dn, fn in os.walk(root) for f in fn if f != ".gitignore")}
            if got != vis:
                viol.append({"clause": "agrees_with_git", "input": inp, "got": sorted(set(got) - set(vis)), "want": sorted(set(vis) - set(got))})
            off = sorted(os.path.relpath(str(p), os.path.realpath(root))
                         for p in FileResolver(FileResolverConfig(exclude=[], respect_gitignore=False)).resolve([root]))
            allmd = sorted(f for f in inp["files"] if f.endswith(".md"))
            evals += 1
            if off != allmd:
                viol.append({"clause": "disabled_no_influence", "input": inp, "got": off, "want": allmd})
            if len(samples) < 2:
                samples.append(inp)
        finally:
            shutil.rmtree(base, ignore_errors=True)
    return {"evaluations": evals, "distinct_nontrivial": len(distinct), "violations": viol, "samples": samples,
            "rule": "seeded trees with .gitignore files (1-3 lines each from an 18-line pool) at any level: the .md files returned by a "
                    "traversal (no default excludes) equal the .md files of `git ls-files -co --exclude-standard`; with "
                    "respect_gitignore=False every .md file is returned; distinct = distinct git results",
            "exhaustive": False, "bound": "%d trees" % n}
