"""C18 bounded layer: directory traversal vs `git ls-files -co --exclude-standard` on generated trees."""
from __future__ import annotations

import os
import random
import shutil

from . import fsgen
from .common import *  # noqa: F401,F403

ASSUMPTIONS = [
    "gitignore pattern semantics themselves are delegated to pathspec (PathSpec.check_file: last matching pattern of one file, "
    "None when no pattern matches) and compared with git 2.39 only in this bounded layer",
    "bounded layer: .gitignore lines drawn from an 18-line pool (basename, anchored, multi-segment, dir-only, *, **, ?, negation, "
    "comments) at any directory level of small generated trees",
]


# hand-written scenarios: {relative path: content}; '.gitignore' files give the rules, other files are created as given
SCENARIOS = [
    {".gitignore": "docs/\n!docs/keep.md\n", "docs/keep.md": "k", "docs/x.md": "x", "a.md": "a"},
    {".gitignore": "docs/\n", "docs/.gitignore": "!*.md\n", "docs/in.md": "i", "b.md": "b"},
    {".gitignore": "/out\n!**/*.md\n", "out/o.md": "o", "c.md": "c"},
    {".gitignore": "tmp*/\n!tmp1/keep.md\n", "tmp1/keep.md": "k", "tmp1/sub/d.md": "d", "e.md": "e"},
    {".gitignore": "logs/*\n!logs/keep.md\n", "logs/keep.md": "k", "logs/drop.md": "d"},
    {".gitignore": "*.md\n!docs/\n!docs/*.md\n", "docs/r.md": "r", "top.md": "t"},
    {"a/.gitignore": "/draft.md\nsub/api.md\n", "a/draft.md": "d", "a/sub/api.md": "s", "a/sub/draft.md": "n", "draft.md": "top", ".gitignore": "# none\n*.tmp\n"},
    {".gitignore": "*.md\n", "a/.gitignore": "!/keep.md\n!b/*.md\n", "a/keep.md": "k", "a/b/x.md": "x", "a/b/c/y.md": "y", "a/z.md": "z"},
    {"a/.gitignore": "a/*.md\n", "a/x.md": "x", "a/a/y.md": "y", ".gitignore": "q.md\n"},
    {".gitignore": "bld/\n", "x/.gitignore": "!bld/\n", "x/bld/in.md": "i", "bld/out.md": "o"},
    # only a line that STARTS with '#' is a comment; ' #' inside a line belongs to the pattern; '\\#' escapes; trailing spaces
    {".gitignore": "# real comment\ndraft.md # wip\nnotes #2.md\n\\#x.md\n*.md\n!keep.md # not a negation of keep.md\n!x#1.md\n   \nz.md   \n",
     "draft.md": "d", "notes #2.md": "n", "#x.md": "h", "keep.md": "k", "x#1.md": "x", "z.md": "z", "sub/draft.md": "s"},
    {".gitignore": "a.md\n", "s/.gitignore": "# c\n!a.md\nb.md #\n", "s/a.md": "a", "s/b.md": "b", "s/b.md #": "odd", "a.md": "top"},
    # leading blanks belong to the pattern (git does not strip them); a nested file of negations only is a rule file
    {".gitignore": "    api-x.md\n\tt.md\n  !keep.md\nkeep.md\ngen/\n", "api-x.md": "a", "t.md": "t", "keep.md": "k", "    api-x.md": "odd",
     "gen/.gitignore": "!*.md\n", "gen/g.md": "g", "sub/.gitignore": "!keep.md\n", "sub/keep.md": "k2", "sub/api-x.md": "s"},
    # a rule repeated around a negation (every line counts, in file order); backslash escapes of #, !, [ and ?
    {".gitignore": "scratch*.md\n!scratch-keep.md\nscratch*.md\nout/\n!docs/out/\nout/\n", "scratch1.md": "1", "scratch-keep.md": "k", "docs/out/o.md": "o",
     "out/p.md": "p", "docs/d.md": "d"},
    {".gitignore": "\\#hash.md\n\\!bang.md\nnotes\\[1\\].md\nfile\\?.md\n", "#hash.md": "h", "!bang.md": "b", "notes[1].md": "n", "notes1.md": "n1",
     "file?.md": "q", "filex.md": "x", "sub/#hash.md": "sh"},
    # lines that are no valid pattern (a lone '!', a trailing backslash) are skipped, the other rules apply
    {".gitignore": "!\nb.md\na.md\\\n[z-a].md\n", "a.md": "a", "b.md": "b", "sub/.gitignore": "\\\n!\n[9-0]x.md\n", "sub/c.md": "c", "sub/b.md": "b2"},
    # plain last-match-wins between a wildcard negation and a directory rule; the keep-only-markdown idiom
    {".gitignore": "!*\ngen\nout/\n", "gen/a.md": "a", "out/o.md": "o", "b.md": "b", "sub/gen/c.md": "c"},
    {".gitignore": "*\n!*/\n!*.md\n", "pub/r.md": "r", "pub/x.txt": "x", "a.md": "a", "pub/deep/d.md": "d"},
    # a sub-directory that merely holds an entry named .git (an aborted clone: empty directory; a stale pointer file) is
    # still governed by the outer .gitignore files
    {".gitignore": "*.gen.md\nbuild-out/\n/third/skip.md\n", "third/.git/": None, "third/skip.md": "s", "third/x.gen.md": "g", "third/k.md": "k",
     "third/build-out/b.md": "b", "plain/x.gen.md": "g2", "plain/k.md": "k2"},
    # names are compared as written (no Unicode normalisation): decomposed name + decomposed rule is ignored, decomposed name +
    # composed rule is not
    {".gitignore": "cafe\u0301.md\n\u00e9t\u00e9.md\n", "cafe\u0301.md": "d", "e\u0301te\u0301.md": "x", "k.md": "k"},
]


def _scenario_tree(root, files):
    for rel, content in files.items():
        p = os.path.join(root, rel)
        if content is None:                 # a directory (path ends with '/')
            os.makedirs(p, exist_ok=True)
            continue
        os.makedirs(os.path.dirname(p), exist_ok=True)
        with open(p, "w") as fh:
            fh.write(content)


def bounded(tier, seed):
    from flowmark.file_resolver import FileResolver, FileResolverConfig
    rnd = random.Random(seed)
    viol, evals, distinct, samples = [], 0, set(), []
    n = 60 if tier == "quick" else 600
    for i in range(-len(SCENARIOS), n):
        base = scratch_dir("vf-c18-")
        root = os.path.join(base, "t")
        try:
            if i < 0:
                os.makedirs(root)
                _scenario_tree(root, SCENARIOS[i])
            else:
                fsgen.make_tree(rnd, root, gitignores=True)
            gi = {os.path.relpath(os.path.join(dp, f), root): open(os.path.join(dp, f)).read()
                  for dp, dn, fn in os.walk(root) for f in fn if f == ".gitignore"}
            vis = [p for p in fsgen.git_visible(root) if p.endswith(".md")]
            got = sorted(os.path.relpath(str(p), os.path.realpath(root))
                         for p in FileResolver(FileResolverConfig(exclude=[])).resolve([root]))
            evals += 1
            distinct.add(tuple(vis))
            inp = {"tree_seed": [seed, i], "gitignores": gi,
                   "files": sorted(os.path.relpath(os.path.join(dp, f), root) for dp, dn, fn in os.walk(root) for f in fn if f != ".gitignore")}
            if got != vis:
                viol.append({"clause": "agrees_with_git", "input": inp, "got": sorted(set(got) - set(vis)), "want": sorted(set(vis) - set(got))})
            # two overlapping traversal roots in one call: each is judged with the .gitignore files from ITS root down
            subs = sorted(x for x in os.listdir(root) if os.path.isdir(os.path.join(root, x)) and not x.startswith(".git"))
            if subs:
                sub = subs[0]
                vis_sub = [sub + "/" + p for p in fsgen.git_visible(os.path.join(root, sub)) if p.endswith(".md")]
                want2 = sorted(set(vis) | set(vis_sub))
                for order in ((root, os.path.join(root, sub)), (os.path.join(root, sub), root)):
                    got2 = sorted(os.path.relpath(str(p), os.path.realpath(root))
                                  for p in FileResolver(FileResolverConfig(exclude=[])).resolve(list(order)))
                    evals += 1
                    if got2 != want2:
                        viol.append({"clause": "agrees_with_git", "input": dict(inp, roots=[".", sub] if order[0] == root else [sub, "."]),
                                     "got": sorted(set(got2) - set(want2)), "want": sorted(set(want2) - set(got2))})
            off = sorted(os.path.relpath(str(p), os.path.realpath(root))
                         for p in FileResolver(FileResolverConfig(exclude=[], respect_gitignore=False)).resolve([root]))
            allmd = sorted(f for f in inp["files"] if f.endswith(".md"))
            evals += 1
            if off != allmd:
                viol.append({"clause": "disabled_no_influence", "input": inp, "got": off, "want": allmd})
            if i < 0 or i % 10 == 0:
                # the same listing through the command line, started from inside the tree, from a directory outside any
                # repository and from the file-system root: where the command is started has no influence
                from flowmark import cli as CLI
                for cwd in (root, base, "/"):
                    with in_dir(cwd), captured() as (o, e):
                        try:
                            CLI.main(["--list-files", "--exclude", "zzz-none/", root])
                        except SystemExit:
                            pass
                    listed = sorted(os.path.relpath(l, os.path.realpath(root)) for l in o.getvalue().splitlines() if l.strip())
                    evals += 1
                    if listed != vis:
                        viol.append({"clause": "cli_listing_agrees_with_git", "input": dict(inp, cwd={root: "<tree>", base: "<parent>", "/": "/"}[cwd]),
                                     "got": sorted(set(listed) - set(vis)), "want": sorted(set(vis) - set(listed))})
                # a later resolver in the same process sees the .gitignore files as they are THEN (no state survives a resolver)
                changed = False
                for rel in sorted(gi):
                    os.remove(os.path.join(root, rel))
                    changed = True
                with open(os.path.join(root, ".gitignore"), "w") as fh:
                    fh.write("b.md\n")
                vis2 = [p for p in fsgen.git_visible(root) if p.endswith(".md")]
                got3 = sorted(os.path.relpath(str(p), os.path.realpath(root))
                              for p in FileResolver(FileResolverConfig(exclude=[])).resolve([root]))
                evals += 1
                if got3 != vis2:
                    viol.append({"clause": "agrees_with_git_after_edit", "input": dict(inp, then={".gitignore": "b.md\n", "removed": sorted(gi)}),
                                 "got": sorted(set(got3) - set(vis2)), "want": sorted(set(vis2) - set(got3))})
            if len(samples) < 2:
                samples.append(inp)
        finally:
            shutil.rmtree(base, ignore_errors=True)
    return {"evaluations": evals, "distinct_nontrivial": len(distinct), "violations": viol, "samples": samples,
            "rule": "(also, on the scenarios and every 10th tree: `--list-files` through cli.main started inside the tree, in its parent (no repository) and in / gives the same listing; after the .gitignore files are replaced a NEW resolver in the same process agrees with git again) 20 hand-written scenarios (incl. comment / '#' / escape / leading-blank handling of ignore lines, negation-only nested files, rules repeated around a negation, backslash escapes) (ignored directories with later / nested negations, anchored and multi-segment patterns in "
                    "nested files, re-included directories) + seeded trees with .gitignore files (1-3 lines each from an 18-line pool) at any level: the .md files returned by a "
                    "traversal (no default excludes) equal the .md files of `git ls-files -co --exclude-standard`; the same for two overlapping traversal roots (tree and one sub-directory, both orders: each judged from its own root); with "
                    "respect_gitignore=False every .md file is returned; distinct = distinct git results",
            "exhaustive": False, "bound": "%d trees" % (n + len(SCENARIOS))}


def static_obligations(tier):
    """ST obligations on the resolver's state: the caches of compiled ignore files live in the instance (created in
    __init__), FileResolver has no class-level mutable attribute and the file_resolver modules no module-level mutable
    container, so no ignore-file content read for one resolver can reach a later one (gitignore cache anchor of C18)."""
    import ast
    from vfcore import static
    mods = static.package_modules(include=("flowmark.file_resolver.resolver", "flowmark.file_resolver.gitignore"))
    recs = []
    tree = mods["flowmark.file_resolver.resolver"]
    cls = next(n for n in ast.walk(tree) if isinstance(n, ast.ClassDef) and n.name == "FileResolver")
    mutable = (ast.Dict, ast.List, ast.Set, ast.ListComp, ast.DictComp, ast.SetComp, ast.Call)
    class_level = [ast.unparse(t) for st in cls.body if isinstance(st, (ast.Assign, ast.AnnAssign)) and getattr(st, "value", None) is not None
                   and isinstance(st.value, mutable) for t in (st.targets if isinstance(st, ast.Assign) else [st.target])]
    recs.append({"oid": "state/file_resolver.resolver:FileResolver/no_class_level_mutable_state",
                 "status": "discharged" if not class_level else "refuted",
                 "src": "FileResolver has no class-level mutable attribute (state shared by all resolvers)", "detail": repr(class_level)})
    init = next(m for m in cls.body if isinstance(m, ast.FunctionDef) and m.name == "__init__")
    created = {t.attr for st in ast.walk(init) if isinstance(st, (ast.Assign, ast.AnnAssign))
               for t in (st.targets if isinstance(st, ast.Assign) else [st.target])
               if isinstance(t, ast.Attribute) and isinstance(t.value, ast.Name) and t.value.id == "self"
               and isinstance(st.value, ast.Dict) and not st.value.keys}
    used = {x.attr for x in ast.walk(cls) if isinstance(x, ast.Attribute) and isinstance(x.value, ast.Name) and x.value.id == "self"
            and x.attr.endswith("_cache")}
    recs.append({"oid": "state/file_resolver.resolver:FileResolver.__init__/caches_start_empty_per_instance",
                 "status": "discharged" if used and used <= created else "refuted",
                 "src": "every self.*_cache is created as an empty dict in __init__", "detail": "used %s; created %s" % (sorted(used), sorted(created))})
    for name, tree in sorted(mods.items()):
        glob = [ast.unparse(t) for st in tree.body if isinstance(st, (ast.Assign, ast.AnnAssign)) and getattr(st, "value", None) is not None
                and isinstance(st.value, (ast.Dict, ast.List, ast.Set, ast.ListComp, ast.DictComp, ast.SetComp))
                for t in (st.targets if isinstance(st, ast.Assign) else [st.target])]
        glob = [g for g in glob if g != "__all__"]
        recs.append({"oid": "state/%s/no_module_level_mutable_container" % name.replace("flowmark.", ""),
                     "status": "discharged" if not glob else "refuted",
                     "src": "no module-level dict / list / set (a process-wide cache) in %s" % name, "detail": repr(glob)})
    return recs


def witnesses():
    """recorded finding C18-negation-reaches-below-a-matched-directory, replayed against git"""
    from flowmark.file_resolver import FileResolver, FileResolverConfig
    base = scratch_dir("vf-c18w-")
    root = os.path.join(base, "t")
    try:
        os.makedirs(root)
        _scenario_tree(root, {".gitignore": "a*\n!docs*\n", "docs/a.md": "x", "b.md": "b"})
        vis = [p for p in fsgen.git_visible(root) if p.endswith(".md")]
        got = sorted(os.path.relpath(str(p), os.path.realpath(root)) for p in FileResolver(FileResolverConfig(exclude=[])).resolve([root]))
        return {"C18-negation-reaches-below-a-matched-directory": got != vis and "docs/a.md" in got and "docs/a.md" not in vis}
    finally:
        shutil.rmtree(base, ignore_errors=True)
