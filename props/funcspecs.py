"""Function-level comparisons of flowmark's small predicates / patterns with independent restatements of what their
docstrings and the CommonMark / GFM rules say, on enumerated short inputs.  Bounded stand-ins (never counted as proved) for
the regex- and character-level functions no contract reaches."""
from __future__ import annotations

import itertools
import re


def _strings(alphabet, maxlen):
    for n in range(0, maxlen + 1):
        for tup in itertools.product(alphabet, repeat=n):
            yield "".join(tup)


def block_heuristics(viol):
    """line_is_list_item == the CommonMark list-item start (marker, then space / tab) after any leading blanks;
    line_is_table_row == first non-blank character is '|'; line_is_block_content == either"""
    _v0 = len(viol)
    from flowmark.linewrapping import block_heuristics as B
    li = re.compile(r"^\s*(?:[-*+]|[0-9]{1,9}[.)])[ \t]")
    n = 0
    for s in _strings(["-", "*", "+", "1", "9", ".", ")", " ", "\t", "a", "|"], 5):
        n += 1
        want_li, want_tr = bool(li.match(s)), s.lstrip().startswith("|")
        if bool(B.line_is_list_item(s)) != want_li:
            viol.append({"clause": "line_is_list_item_as_commonmark", "input": {"line": s}, "got": B.line_is_list_item(s), "want": want_li})
        if bool(B.line_is_table_row(s)) != want_tr:
            viol.append({"clause": "line_is_table_row_as_documented", "input": {"line": s}, "got": B.line_is_table_row(s), "want": want_tr})
        if bool(B.line_is_block_content(s)) != (want_li or want_tr):
            viol.append({"clause": "line_is_block_content_is_either", "input": {"line": s}, "got": B.line_is_block_content(s)})
        if len(viol) - _v0 > 20:
            break
    for s in ("1234567890. x", "123456789. x", "- x", "-x", "--- ", "1.0.0", "1.Item", "  * y", "\t- z", "| a | b", "|---|---", "a | b", "  | a"):
        n += 1
        if bool(B.line_is_list_item(s)) != bool(li.match(s)) or bool(B.line_is_table_row(s)) != s.lstrip().startswith("|"):
            viol.append({"clause": "line_is_list_item_as_commonmark", "input": {"line": s}, "got": [B.line_is_list_item(s), B.line_is_table_row(s)]})
    return n


OPEN = ("{%", "{#", "{{", "<!--")
CLOSE = ("%}", "#}", "}}", "-->")


def tag_line_predicates(viol):
    """line_ends_with_tag / line_starts_with_tag / _is_unindented_tag_line / _is_tag_only_line / _is_closing_tag as their
    docstrings define them (delimiters at the stripped ends; indented lines are never tag-only / unindented)"""
    _v0 = len(viol)
    from flowmark.linewrapping import tag_handling as T
    n = 0
    toks = ["{%", "%}", "{#", "#}", "{{", "}}", "<!--", "-->", " ", "a", "/", "{", "}", "\t", ".", ","]
    for s in _strings(toks, 4):
        n += 1
        want = {
            "line_ends_with_tag": bool(s.rstrip()) and s.rstrip().endswith(CLOSE),
            "line_starts_with_tag": bool(s.lstrip()) and s.lstrip().startswith(OPEN),
            "_is_unindented_tag_line": bool(s) and not s[0].isspace() and s.lstrip().startswith(OPEN),
            "_is_tag_only_line": bool(s.strip()) and not s[0].isspace() and s.strip().startswith(OPEN) and s.strip().endswith(CLOSE),
            "_is_closing_tag": s.lstrip().startswith(("{% /", "{# /", "{{ /", "<!-- /")),
        }
        for fn, w in want.items():
            g = bool(getattr(T, fn)(s))
            if g != w:
                viol.append({"clause": "tag_predicate_as_documented", "input": {"function": fn, "line": s}, "got": g, "want": w})
        if len(viol) - _v0 > 20:
            break
    return n


def atomic_patterns(viol):
    """what the atomic patterns must keep together: a code span runs from a backtick run to the next run of the same length;
    an HTML tag from '<letter' to the next '>', whatever the tag name; a closing tag likewise; a Markdown link is its
    bracket part plus an optional (...) or [...] part"""
    _v0 = len(viol)
    from flowmark.linewrapping import atomic_patterns as AP
    n = 0
    cs = re.compile(AP.INLINE_CODE_SPAN.pattern, re.DOTALL)
    for s in _strings(["`", "a", " "], 7):
        if not s.startswith("`"):
            continue
        n += 1
        m = cs.match(s)
        run = len(s) - len(s.lstrip("`"))
        want = None
        k = run
        while k < len(s):            # the next maximal backtick run of exactly `run` characters closes the span
            if s[k] == "`":
                j = k
                while j < len(s) and s[j] == "`":
                    j += 1
                if j - k == run and k > run:
                    want = j
                    break
                if j - k > run:      # a longer inner run: outside what flowmark's pattern promises
                    break
                k = j
            else:
                k += 1
        # (the pattern is allowed to be more permissive about run maximality: it only has to contain the CommonMark span)
        if want is not None and (m is None or m.end() < want):
            viol.append({"clause": "code_span_pattern_covers_commonmark_span", "input": {"text": s}, "got": m.group(0) if m else None, "want": s[:want]})
    for pat, samples in ((AP.HTML_OPEN_TAG, ["<b>", "<span class=\"a b\">", "<svg:rect x=\"1 2\">", "<o:p>", "<Menu.Item k=\"a b\">", "<x-y z=\"1\"/>", "<a href='u v'>", "<br/>", "<img src=\"a b.png\" alt=\"c d\">"]),
                         (getattr(AP, "HTML_CLOSE_TAG", None), ["</b>", "</span>", "</svg:rect>", "</Menu.Item>", "</x-y >"])):
        if pat is None:
            continue
        rx = re.compile(pat.pattern, re.DOTALL)
        for s in samples:
            n += 1
            m = rx.match(s + " tail")
            if m is None or m.group(0) != s:
                viol.append({"clause": "html_tag_pattern_covers_tag", "input": {"text": s, "pattern": pat.name}, "got": m.group(0) if m else None, "want": s})
    rx = re.compile(AP.MARKDOWN_LINK.pattern, re.DOTALL)
    for s in ["[a b](http://x.y)", "[a b](http://x.y \"t u\")", "[a b][ref x]", "[a b]", "[a b](<u v>)", "[a](u 'single q')", "[a b]()"]:
        n += 1
        m = rx.match(s + " tail")
        if m is None or m.group(0) != s:
            viol.append({"clause": "link_pattern_covers_link", "input": {"text": s}, "got": m.group(0) if m else None, "want": s})
    for pat, pairs in ((AP.PAIRED_JINJA_TAG, ["{% t %}{% /t %}", "{% t a=\"1 2\" %} {% /t %}", "{% t %}\n{% /t %}"]),
                       (AP.PAIRED_JINJA_COMMENT, ["{# t #}{# /t #}"]), (AP.PAIRED_JINJA_VAR, ["{{ t }}{{ /t }}"]),
                       (AP.PAIRED_HTML_COMMENT, ["<!-- t --><!-- /t -->", "<!-- t a-b --> <!-- /t -->"])):
        rx = re.compile(pat.pattern, re.DOTALL)
        for s in pairs:
            n += 1
            m = rx.match(s + " tail")
            if m is None or m.group(0) != s:
                viol.append({"clause": "paired_pattern_covers_pair", "input": {"text": s, "pattern": pat.name}, "got": m.group(0) if m else None, "want": s})
        for s in ["{% /t %}{% t %}", "<!-- /t --><!-- t -->"]:           # closing first: not a pair
            if s.startswith(pat.open_delim):
                n += 1
                if rx.match(s):
                    viol.append({"clause": "paired_pattern_needs_opening_first", "input": {"text": s, "pattern": pat.name}, "got": rx.match(s).group(0)})
    return n


def bare_url_test(viol):
    """_ends_with_bare_url(text) == the last whitespace-delimited token of text starts with http://, https:// or www."""
    _v0 = len(viol)
    from flowmark.linewrapping import line_wrappers as LW
    n = 0
    toks = ["a", " ", "\n", "http://x", "https://y", "www.z", "xhttp://q", "www", "ftp://f", "\t"]
    for tup in itertools.product(toks, repeat=3):
        for s in ("".join(tup), "".join(tup[:2]), tup[0]):
            n += 1
            s1 = s[:-1] if s.endswith("\n") else s          # ('$' also matches before one final newline)
            parts = s1.split()
            want = bool(parts) and not s1[-1:].isspace() and parts[-1].startswith(("http://", "https://", "www."))
            if bool(LW._ends_with_bare_url(s)) != want:
                viol.append({"clause": "ends_with_bare_url_as_documented", "input": {"text": s}, "got": LW._ends_with_bare_url(s), "want": want})
                if len(viol) - _v0 > 10:
                    return n
    return n


def link_destination_roundtrip(viol, maxlen=4):
    """_link_destination(d), put into '[t](...)' and '![t](...)', reads back (flowmark's own Marko configuration) as a link /
    image whose destination is d again -- for every d over an alphabet of the characters that matter for destinations; and
    a destination that the plain form can hold is returned unchanged (no gratuitous pointy brackets)"""
    _v0 = len(viol)
    from flowmark.formats import flowmark_markdown as FM
    md = FM.flowmark_markdown()
    n = 0

    def first(e, names):
        if type(e).__name__ in names:
            return e
        ch = getattr(e, "children", None)
        if isinstance(ch, list):
            for c in ch:
                r = first(c, names)
                if r is not None:
                    return r
        return None
    for d in _strings(["a", "(", ")", "<", ">", " ", "\\", "/", "_", "\t", "\u00a0", "\u3000"], maxlen):
        if d != d.strip() or "\\" in d and not d.replace("\\", "a").isalnum() and False:
            continue        # (Marko strips blanks at the ends of a destination: such a destination never comes out of a parse)
        if "\\" in d:
            continue        # (a backslash in a parsed destination is ambiguous between literal and escape in either form)
        r = FM._link_destination(d)
        for tmpl, kind in (("[t](%s)\n", "Link"), ("![t](%s)\n", "Image"), ("[t](%s \"T\")\n", "Link")):
            n += 1
            if "\"T\"" in tmpl:
                r = FM._link_destination(d, True)
            e = first(md.parse(tmpl % r), (kind,))
            if e is None or e.dest != d:
                viol.append({"clause": "link_destination_reads_back", "input": {"dest": d, "form": tmpl % r}, "got": None if e is None else e.dest, "want": d})
                if len(viol) - _v0 > 10:
                    return n
        plain_ok = first(md.parse("[t](%s)\n" % d), ("Link",))
        if d and plain_ok is not None and plain_ok.dest == d and type(plain_ok.children[0]).__name__ == "RawText" and r != d \
                and not any(c.isspace() or c in "<>" for c in d):      # (any Unicode blank may become a plain one when the paragraph is re-filled)
            viol.append({"clause": "link_destination_plain_when_possible", "input": {"dest": d}, "got": r, "want": d})
    return n


def coalesce_spec_sweep(viol, maxlen=5):
    """coalesce_raw_text_nodes on every paragraph whose children are a sequence of <= maxlen nodes from {RawText, soft break,
    hard break, code span, emphasis(RawText)}: the result is the reference 'each maximal run RawText (soft-break RawText)*
    becomes its first node holding the texts joined by newline; every other node is kept, in order, untouched (same
    objects)', and nothing but the text of those first nodes is written"""
    _v0 = len(viol)
    import marko.block as B
    import marko.inline as I
    from flowmark.transforms.doc_transforms import coalesce_raw_text_nodes

    def mk(kind, k):
        if kind == "t":
            e = I.RawText.__new__(I.RawText)
            e.children = "w%d" % k
            e.escape = True
        elif kind in ("s", "h"):
            e = I.LineBreak.__new__(I.LineBreak)
            e.soft = kind == "s"
        elif kind == "c":
            e = I.CodeSpan.__new__(I.CodeSpan)
            e.children = "c%d" % k
        else:
            e = I.Emphasis.__new__(I.Emphasis)
            inner = I.RawText.__new__(I.RawText)
            inner.children = "e%d" % k
            inner.escape = True
            e.children = [inner]
        return e
    n = 0
    for ln in range(0, maxlen + 1):
        for kinds in itertools.product("tshce", repeat=ln):
            nodes = [mk(kd, k) for k, kd in enumerate(kinds)]
            before = [(x, getattr(x, "children", None) if not isinstance(getattr(x, "children", None), list) else None) for x in nodes]
            para = B.Paragraph.__new__(B.Paragraph)
            para.children = list(nodes)
            doc = B.Document.__new__(B.Document)
            doc.children = [para]
            doc.link_ref_defs = {}
            # reference
            want, i = [], 0
            while i < len(nodes):
                if kinds[i] == "t":
                    text, j = before[i][1], i + 1
                    while j + 1 < len(nodes) and kinds[j] == "s" and kinds[j + 1] == "t":
                        text += "\n" + before[j + 1][1]
                        j += 2
                    want.append((nodes[i], text))
                    i = j
                else:
                    want.append((nodes[i], before[i][1]))
                    i += 1
            coalesce_raw_text_nodes(doc)
            n += 1
            got = [(x, getattr(x, "children", None) if not isinstance(getattr(x, "children", None), list) else None) for x in para.children]
            ok = len(got) == len(want) and all(a[0] is b[0] and a[1] == b[1] for a, b in zip(got, want))
            inner_ok = all(x.children[0].children == "e%d" % k for k, x in enumerate(nodes) if kinds[k] == "e")
            if not ok or not inner_ok:
                viol.append({"clause": "coalesce_as_specified", "input": {"children": "".join(kinds)},
                             "got": [(type(a[0]).__name__, a[1]) for a in got], "want": [(type(a[0]).__name__, a[1]) for a in want]})
                if len(viol) - _v0 > 10:
                    return n
    return n


def parse_config_sweep(viol):
    """_parse_config_data against its specification: every documented key, in kebab-case or snake_case, at the top level or
    inside a [formatting] / [file-discovery] section, sets exactly its own FlowmarkConfig field to exactly the given value;
    keys that are not set stay None; an unknown key sets nothing and is reported on stderr; all pairs of settings together"""
    _v0 = len(viol)
    import contextlib
    import io
    from dataclasses import fields

    from flowmark import config as C
    values = {"width": 55, "semantic": True, "cleanups": False, "smartquotes": True, "ellipses": True, "list_spacing": "tight",
              "include": ["*.txt"], "extend_include": ["*.mdx"], "exclude": ["x/"], "extend_exclude": ["y/"], "files_max_size": 7,
              "respect_gitignore": False, "force_exclude": True}
    names = [f.name for f in fields(C.FlowmarkConfig)]
    n = 0

    def run(data):
        err = io.StringIO()
        with contextlib.redirect_stderr(err):
            cfg = C._parse_config_data(data)
        return cfg, err.getvalue()

    def expect(data_desc, cfg, want, err, unknown=()):
        nonlocal n
        n += 1
        got = {k: getattr(cfg, k) for k in names}
        full = {k: want.get(k) for k in names}
        if got != full or any(u not in err for u in unknown) or (not unknown and err.strip()):
            viol.append({"clause": "config_data_as_documented", "input": {"data": data_desc}, "got": {k: v for k, v in got.items() if v is not None},
                         "want": {k: v for k, v in full.items() if v is not None}, "stderr": err[:200]})
    if sorted(values) != sorted(names):
        viol.append({"clause": "config_data_as_documented", "input": {"data": "field list"}, "got": names, "want": sorted(values)})
        return 1
    spell = lambda k, kebab: k.replace("_", "-") if kebab else k
    for k, v in values.items():
        for kebab in (False, True):
            for section in (None, "formatting", "file-discovery", "other-section"):
                data = {spell(k, kebab): v} if section is None else {section: {spell(k, kebab): v}}
                cfg, err = run(data)
                expect(data, cfg, {k: v}, err)
    ks = list(values)
    for a in ks:
        for b in ks:
            if a < b:
                data = {"formatting": {spell(a, True): values[a]}, spell(b, False): values[b]}
                cfg, err = run(data)
                expect(data, cfg, {a: values[a], b: values[b]}, err)
    for bad in ("widht", "list_spacing_", "Width", "tool"):
        data = {bad: 1, "width": 60}
        cfg, err = run(data)
        expect(data, cfg, {"width": 60}, err, unknown=(bad,))
    cfg, err = run({})
    expect({}, cfg, {}, err)
    return n


def fence_opener_sweep(viol):
    """the fence test of preprocess_tag_block_spacing (the regex literal handed to re.match in its body, read from the live
    source) against CommonMark's rule 'at most three spaces of indentation, then a run of >= 3 backticks (and no further backtick on the line) or tildes' on every
    line of <= 7 symbols over {space, tab, backtick, tilde, a}: same verdict and same fence run"""
    _v0 = len(viol)
    import ast
    import inspect
    import re
    from flowmark.linewrapping import tag_handling as TH
    tree = ast.parse(inspect.getsource(TH.preprocess_tag_block_spacing))
    pats = [c.args[0].value for c in ast.walk(tree) if isinstance(c, ast.Call) and ast.unparse(c.func) in ("re.match", "re.compile")
            and c.args and isinstance(c.args[0], ast.Constant) and isinstance(c.args[0].value, str)]
    if len(pats) != 1:
        viol.append({"clause": "fence_opener_as_commonmark", "input": {"patterns": pats}, "got": "expected exactly one regex literal in preprocess_tag_block_spacing"})
        return 1
    rx = re.compile(pats[0])
    n = 0
    for s in _strings([" ", "\t", "`", "~", "a"], 7):
        m = rx.match(s)
        k = len(s) - len(s.lstrip(" "))
        rest = s[k:]
        run = re.match(r"`{3,}|~{3,}", rest)
        if run and run.group(0)[0] == "`" and "`" in rest[run.end():]:
            run = None          # (a backtick fence line holds no further backtick: otherwise it is a code span)
        want = run.group(0) if (k <= 3 and run) else None
        got = m.group(1) if m else None
        n += 1
        if got != want:
            viol.append({"clause": "fence_opener_as_commonmark", "input": {"line": s, "pattern": pats[0]}, "got": got, "want": want})
            if len(viol) - _v0 > 10:
                break
    return n


def code_span_roundtrip(viol, maxlen=5):
    """render_code_span(text), read back by flowmark's own parser inside a paragraph, is one code span whose text is `text`
    again -- for every text of <= maxlen symbols over {backtick, letter, blank} that can be the text of a parsed span (not
    blank-only, not both starting and ending with a blank: the parser strips that pair)"""
    _v0 = len(viol)
    import types
    from flowmark.formats import flowmark_markdown as FM
    md = FM.flowmark_markdown()
    n = 0

    def spans(e, out):
        if type(e).__name__ == "CodeSpan":
            out.append(e.children)
        ch = getattr(e, "children", None)
        if isinstance(ch, list):
            for c in ch:
                spans(c, out)
        return out
    for t in _strings(["`", "a", " "], maxlen):
        if not t.strip(" ") or (t[0] == " " and t[-1] == " ") or "  " in t:
            continue
        r = FM.MarkdownNormalizer.render_code_span(None, types.SimpleNamespace(children=t))
        n += 1
        got = spans(md.parse("x " + r + " y\n"), [])
        if got != [t]:
            viol.append({"clause": "code_span_reads_back", "input": {"text": t, "rendered": r}, "got": got, "want": [t]})
            if len(viol) - _v0 > 10:
                break
    return n


def escape_only_where_needed(viol, maxlen=3):
    """markdown_escape_word escapes a word only if the word would start a block construct at the start of a line: for every
    word over an alphabet of Markdown-significant characters, an escaped word is one that `<word> b` (flowmark's own Marko
    configuration) does NOT read as a plain one-line paragraph of that text.  An escape that is not needed is not harmless:
    the renderer keeps every escape, so a word that happened to start a wrapped line at one width stays escaped at every
    other (C03: the result depends on the earlier layout; C02 across widths).  The opposite direction (a word that needs an
    escape and gets none) is the recorded finding C01-wrap-escapes and is not counted here."""
    _v0 = len(viol)
    from flowmark.formats import flowmark_markdown as FM
    from flowmark.linewrapping.text_wrapping import markdown_escape_word
    md = FM.flowmark_markdown()
    n = 0
    for w in _strings(["-", "*", "+", ">", "#", "|", "~", "=", "_", ":", "1", "0", ".", ")", "a", "!", "[", "]", "&", "<"], maxlen):
        n += 1
        if markdown_escape_word(w) == w:
            continue
        doc = md.parse(w + " b\n")
        ch = doc.children
        plain = (len(ch) == 1 and type(ch[0]).__name__ == "Paragraph" and len(ch[0].children) == 1
                 and type(ch[0].children[0]).__name__ == "RawText" and ch[0].children[0].children == w + " b")
        if plain:
            viol.append({"clause": "escape_only_where_needed", "input": {"word": w}, "got": markdown_escape_word(w), "want": w})
            if len(viol) - _v0 > 10:
                return n
    return n
