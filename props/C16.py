"""C16 bounded layer: the finite product setting x {flag given} x {config sets} x {--auto} x config kinds,
observed at the keyword arguments that reach reformat_files / FileResolverConfig on the real code."""
from __future__ import annotations

import os
import shutil

from .common import captured, in_dir, scratch_dir

ASSUMPTIONS = [
    "tomllib parses TOML; argparse's sentinel re-parse behaves as documented",
    "_parse_config_data (section flattening, kebab->snake, unknown-key warning) is not under a deductive contract (the engine has no dict model); it is checked against its specification on the finite key space by props/funcspecs.parse_config_sweep: "
    "its loops run over a symbolic dict; it is covered only by this bounded layer",
]

# setting -> (flag argv, value the flag yields, config value, default, flag-with-default argv or None)
S = {
    "width": (["-w", "77"], 77, 55, 88, ["-w", "88"]),
    "semantic": (["-s"], True, True, False, None),
    "cleanups": (["-c"], True, True, False, None),
    "smartquotes": (["--smartquotes"], True, True, False, None),
    "ellipses": (["--ellipses"], True, True, False, None),
    "list_spacing": (["--list-spacing", "loose"], "loose", "tight", "preserve", ["--list-spacing", "preserve"]),
    "extend_include": (["--extend-include", "*.a"], ["*.a"], ["*.b"], [], None),
    "exclude": (["--exclude", "x/"], ["x/"], ["y/"], None, None),
    "extend_exclude": (["--extend-exclude", "x/"], ["x/"], ["y/"], [], None),
    "respect_gitignore": (["--no-respect-gitignore"], False, False, True, None),
    "force_exclude": (["--force-exclude"], True, True, False, None),
    "files_max_size": (["--files-max-size", "5000"], 5000, 7000, 1048576, ["--files-max-size", "1048576"]),
    "include": (None, None, ["*.md", "*.txt"], ["*.md"], None),
}
FORMAT = ("width", "semantic", "cleanups", "smartquotes", "ellipses", "list_spacing")
AUTO_LOCKED = ("semantic", "cleanups", "smartquotes", "ellipses")
SECTION = {k: ("formatting" if k in FORMAT else "file-discovery") for k in S}


def toml_value(v):
    if isinstance(v, bool):
        return "true" if v else "false"
    if isinstance(v, int):
        return str(v)
    if isinstance(v, str):
        return '"%s"' % v
    return "[" + ", ".join('"%s"' % x for x in v) + "]"


def write_config(d, kind, settings):
    """kind: flat-snake (.flowmark.toml), sectioned-kebab (flowmark.toml), pyproject-kebab, parent-flat"""
    kebab = "kebab" in kind
    lines = []
    if kind.startswith("sectioned"):
        for sec in ("formatting", "file-discovery"):
            ks = [k for k in settings if SECTION[k] == sec]
            if ks:
                lines.append("[%s]" % sec)
                lines += ["%s = %s" % (k.replace("_", "-") if kebab else k, toml_value(settings[k])) for k in ks]
    elif kind == "pyproject-subtables-kebab":
        # the flowmark table exists only through its sub-tables
        lines.append("[tool.other]\nx = 1")
        for sec in ("formatting", "file-discovery"):
            ks = [k for k in settings if SECTION[k] == sec]
            if ks:
                lines.append("[tool.flowmark.%s]" % sec)
                lines += ["%s = %s" % (k.replace("_", "-"), toml_value(settings[k])) for k in ks]
    elif kind == "pyproject-inline-kebab":
        # ... or as an inline table / dotted keys under [tool]
        lines.append("[tool]")
        lines.append("flowmark = { %s }" % ", ".join("%s = %s" % (k.replace("_", "-"), toml_value(v)) for k, v in settings.items()))
    else:
        if kind.startswith("pyproject"):
            lines.append("[tool.flowmark]")
        lines += ["%s = %s" % (k.replace("_", "-") if kebab else k, toml_value(v)) for k, v in settings.items()]
    name = {"flat-snake": ".flowmark.toml", "sectioned-kebab": "flowmark.toml", "pyproject-kebab": "pyproject.toml",
            "pyproject-subtables-kebab": "pyproject.toml", "pyproject-inline-kebab": "pyproject.toml",
            "parent-flat": ".flowmark.toml"}[kind]
    open(os.path.join(d, name), "w").write("\n".join(lines) + "\n")


def observe(argv, cwd):
    """Run the real main() with reformat_files / FileResolverConfig wrapped; return what reached them."""
    import flowmark.cli as cli
    import flowmark.file_resolver as fr
    seen = {}
    orig_rf, orig_cfg = cli.reformat_files, fr.FileResolverConfig

    def rf(**kw):
        seen["reformat_files"] = kw

    def cfg(**kw):
        seen["resolver"] = kw
        c = orig_cfg(**kw)
        seen["resolver_obj"] = c
        return c
    cli.reformat_files, fr.FileResolverConfig = rf, cfg
    try:
        with in_dir(cwd), captured() as (out, err):
            rc = cli.main(argv)
    finally:
        cli.reformat_files, fr.FileResolverConfig = orig_rf, orig_cfg
    eff = {}
    if "reformat_files" in seen:
        kw = seen["reformat_files"]
        for k in FORMAT:
            v = kw.get(k)
            eff[k] = v.value if hasattr(v, "value") else v
    if "resolver_obj" in seen:
        c = seen["resolver_obj"]
        for k in ("extend_include", "exclude", "extend_exclude", "respect_gitignore", "force_exclude", "files_max_size", "include"):
            eff[k] = getattr(c, k)
    return rc, eff, err.getvalue()


SENSITIVE_DOC = ("# **Bold heading**\n\nHe said \"hello\" and waited... then left. A second sentence follows here that is long enough to be "
                 "wrapped somewhere around the fifty-fifth column of the page.\n\n- one\n\n- two\n\n1. a\n2. b\n")
EQUIV = [("width", ["-w", "55"], 55), ("semantic", ["-s"], True), ("cleanups", ["-c"], True), ("smartquotes", ["--smartquotes"], True),
         ("ellipses", ["--ellipses"], True), ("list_spacing", ["--list-spacing", "tight"], "tight"),
         ("list_spacing", ["--list-spacing", "loose"], "loose"), ("list_spacing", ["--list-spacing", "preserve"], "preserve")]


def run_cli(argv, cwd, stdin_text=None):
    import flowmark.cli as cli
    with in_dir(cwd), captured(stdin_text) as (out, err):
        rc = cli.main(argv)
    return rc, out.getvalue(), err.getvalue()


def effect_same_as_flag(violations, kinds):
    """every formatting key accepted in a config file has the effect of the equivalent command-line flag on the output
    bytes (end to end, nothing wrapped) -- and an effect at all"""
    n = 0
    for k, (setting, argv, val) in enumerate(EQUIV):
        kind = kinds[k % len(kinds)]
        d = scratch_dir("vf-c16-")
        try:
            outs = {}
            for how in ("flag", "config", "neither"):
                w = os.path.join(d, how)
                os.makedirs(w)
                open(os.path.join(w, "doc.md"), "w").write(SENSITIVE_DOC)
                if how == "config":
                    write_config(w, kind if kind != "parent-flat" else "flat-snake", {setting: val})
                rc, out, err = run_cli((argv if how == "flag" else []) + ["doc.md"], w)
                outs[how] = (rc, out)
                n += 1
                # the same document through standard input (the config of the working directory applies to it as well)
                rc2, out2, err2 = run_cli((argv if how == "flag" else []) + ["-"], w, stdin_text=SENSITIVE_DOC)
                n += 1
                if (rc2, out2) != (rc, out):
                    violations.append({"clause": "config_has_effect_of_flag", "input": {"setting": setting, "value": val, "kind": kind, "how": how,
                                                                                      "route": "stdin ('-') vs file argument"},
                                       "got": out2[:300], "want": out[:300]})
            if outs["flag"] != outs["config"] or outs["flag"][0] != 0:
                violations.append({"clause": "config_has_effect_of_flag", "input": {"setting": setting, "value": val, "kind": kind, "flag": argv},
                                   "got": outs["config"][1][:300], "want": outs["flag"][1][:300]})
            elif outs["flag"] == outs["neither"] and val not in ("preserve",):
                violations.append({"clause": "sensitive_document", "input": {"setting": setting, "value": val},
                                   "got": "the probe document does not react to this setting (layer defect, not a finding)"})
        finally:
            shutil.rmtree(d, ignore_errors=True)
    return n


def expected(setting, flag, conf, auto, flag_default=False):
    argv, fval, cval, default, _ = S[setting]
    if auto and setting in AUTO_LOCKED:
        return True
    if flag:
        return default if flag_default else fval
    if conf:
        return cval
    return default


def cases(tier):
    kinds = ["flat-snake", "sectioned-kebab", "pyproject-kebab", "parent-flat", "pyproject-subtables-kebab", "pyproject-inline-kebab"]
    out = []
    i = 0
    for setting, (argv, fval, cval, default, argv_def) in S.items():
        for flag in ((False, True) if argv else (False,)):
            for conf in (False, True):
                for auto in (False, True):
                    ks = kinds if tier == "thorough" else [kinds[i % len(kinds)]]
                    i += 1
                    for kind in ks:
                        out.append((setting, flag, conf, auto, kind, False))
        if argv_def:
            for auto in (False, True):
                out.append((setting, True, True, auto, kinds[i % len(kinds)], True))
                i += 1
    return out


def bounded(tier, seed):
    evals, violations, samples, distinct = 0, [], [], set()
    for setting, flag, conf, auto, kind, flag_default in cases(tier):
        d = scratch_dir("vf-c16-")
        try:
            work = os.path.join(d, "proj", "sub") if kind == "parent-flat" else os.path.join(d, "proj")
            os.makedirs(work)
            cfgdir = os.path.join(d, "proj")
            open(os.path.join(work, "doc.md"), "w").write("x\n")
            argv_flag, fval, cval, default, argv_def = S[setting]
            # for boolean store_true flags, make the config say the opposite when the flag is given, so that
            # precedence is observable
            conf_val = cval
            if flag and isinstance(fval, bool):
                conf_val = not fval
            if conf:
                write_config(cfgdir, kind, {setting: conf_val})
                if kind == "parent-flat":
                    # a pyproject.toml without [tool.flowmark] nearer to the cwd must be skipped
                    open(os.path.join(work, "pyproject.toml"), "w").write("[tool.other]\nx = 1\n")
            argv = []
            if flag:
                argv += (argv_def if flag_default else argv_flag)
            if auto:
                argv += ["--auto"]
            argv += ["."]
            rc, eff, err = observe(argv, work)
            evals += 1
            want = expected(setting, flag, conf, auto, flag_default)
            if conf and not flag and not (auto and setting in AUTO_LOCKED):
                want = conf_val
            got = eff.get(setting, "<not passed>")
            distinct.add((setting, flag, conf, auto, str(got)))
            if got != want or rc != 0 or "unrecognized config key" in err:
                violations.append({"clause": "precedence", "input": {"setting": setting, "flag": flag, "config": conf,
                                   "auto": auto, "kind": kind, "flag_default": flag_default, "argv": argv},
                                   "got": got, "want": want, "rc": rc, "stderr": err[:200]})
            if len(samples) < 3:
                samples.append({"setting": setting, "flag": flag, "config": conf, "auto": auto, "kind": kind, "argv": argv,
                                "effective": str(got)})
        finally:
            shutil.rmtree(d, ignore_errors=True)
    # the nearest config file wins whatever its kind: every (outer kind, inner kind) pair, inner adjacent or two levels down
    names = {".flowmark.toml": "width = %d\n", "flowmark.toml": "width = %d\n", "pyproject.toml": "[tool.flowmark]\nwidth = %d\n"}
    for outer in names:
        for inner in names:
            for gap in (0, 1):
                d = scratch_dir("vf-c16-")
                try:
                    top = os.path.join(d, "top")
                    mid = os.path.join(top, "mid") if gap else top
                    work = os.path.join(mid, "work")
                    os.makedirs(work)
                    open(os.path.join(top, outer), "w").write(names[outer] % 41)
                    open(os.path.join(work, inner), "w").write(names[inner] % 47)
                    if gap:
                        os.makedirs(os.path.join(mid, ".git"))          # a repository root between the two is no barrier
                    open(os.path.join(work, "doc.md"), "w").write("x\n")
                    rc, eff, err = observe(["."], work)
                    evals += 1
                    if eff.get("width") != 47:
                        violations.append({"clause": "nearest_config_wins", "input": {"outer": outer, "inner": inner, "levels_between": gap},
                                           "got": eff.get("width"), "want": 47})
                finally:
                    shutil.rmtree(d, ignore_errors=True)
    # ... also a nearest config file that sets nothing (an empty table, an empty file): it is the project's config, the values
    # of a config further up do not leak in; and the search starts at the working directory, not at a path argument
    for inner, content in (("pyproject.toml", "[tool.flowmark]\n"), ("pyproject.toml", "[tool.other]\nx = 1\n\n[tool.flowmark]\n# nothing yet\n"),
                           (".flowmark.toml", ""), ("flowmark.toml", "# empty\n")):
        d = scratch_dir("vf-c16-")
        try:
            top = os.path.join(d, "top")
            work = os.path.join(top, "work")
            os.makedirs(work)
            open(os.path.join(top, ".flowmark.toml"), "w").write("width = 41\nsemantic = true\n")
            open(os.path.join(work, inner), "w").write(content)
            open(os.path.join(work, "doc.md"), "w").write("x\n")
            rc, eff, err = observe(["doc.md"], work)
            evals += 1
            if eff.get("width") != 88 or eff.get("semantic") is not False:
                violations.append({"clause": "nearest_config_wins", "input": {"outer": ".flowmark.toml (width 41, semantic)", "inner": inner, "inner_content": content},
                                   "got": {"width": eff.get("width"), "semantic": eff.get("semantic")}, "want": {"width": 88, "semantic": False}})
        finally:
            shutil.rmtree(d, ignore_errors=True)
    d = scratch_dir("vf-c16-")
    try:
        top = os.path.join(d, "top")
        os.makedirs(os.path.join(top, "docs"))
        os.makedirs(os.path.join(d, "other"))
        open(os.path.join(top, ".flowmark.toml"), "w").write("width = 41\n")
        open(os.path.join(top, "docs", ".flowmark.toml"), "w").write("width = 47\n")
        open(os.path.join(d, "other", ".flowmark.toml"), "w").write("width = 53\n")
        for rel in ("docs/a.md", "a.md"):
            open(os.path.join(top, rel), "w").write("x\n")
        open(os.path.join(d, "other", "o.md"), "w").write("x\n")
        for argv in (["docs/a.md"], ["docs"], ["../other/o.md"], [os.path.join(d, "other", "o.md")], ["a.md"], ["docs/a.md", "a.md"]):
            rc, eff, err = observe(argv, top)
            evals += 1
            if eff.get("width") != 41:
                violations.append({"clause": "nearest_config_wins", "input": {"cwd": "top (width 41)", "argv": argv, "note": "docs/ has width 47, ../other has width 53"},
                                   "got": eff.get("width"), "want": 41})
    finally:
        shutil.rmtree(d, ignore_errors=True)
    # a config above a repository root (.git directory or file) still applies when nothing nearer exists
    for marker in ("dir", "file"):
        d = scratch_dir("vf-c16-")
        try:
            repo = os.path.join(d, "home", "repo")
            work = os.path.join(repo, "docs")
            os.makedirs(work)
            if marker == "dir":
                os.makedirs(os.path.join(repo, ".git"))
            else:
                open(os.path.join(repo, ".git"), "w").write("gitdir: ../x\n")
            open(os.path.join(d, "home", ".flowmark.toml"), "w").write("width = 53\n")
            open(os.path.join(work, "doc.md"), "w").write("x\n")
            rc, eff, err = observe(["."], work)
            evals += 1
            if eff.get("width") != 53:
                violations.append({"clause": "nearest_config_wins", "input": {"config": "above a repository root", "marker": marker},
                                   "got": eff.get("width"), "want": 53})
        finally:
            shutil.rmtree(d, ignore_errors=True)
    # --list-files lists what a formatting run would take: the file-discovery keys of the config file apply to it as well
    for setting in ("exclude", "extend_exclude", "extend_include", "respect_gitignore", "force_exclude", "files_max_size", "include"):
        d = scratch_dir("vf-c16-")
        try:
            work = os.path.join(d, "proj")
            os.makedirs(work)
            open(os.path.join(work, "doc.md"), "w").write("x\n")
            write_config(work, "flat-snake", {setting: S[setting][2]})
            rc, eff, err = observe(["--list-files", "."], work)
            evals += 1
            if eff.get(setting, "<not passed>") != S[setting][2] or rc != 0:
                violations.append({"clause": "list_files_uses_config", "input": {"setting": setting, "argv": ["--list-files", "."]},
                                   "got": eff.get(setting, "<not passed>"), "want": S[setting][2], "rc": rc})
        finally:
            shutil.rmtree(d, ignore_errors=True)
    # search order inside one directory and unknown-key warning
    d = scratch_dir("vf-c16-")
    try:
        os.makedirs(os.path.join(d, "p"))
        open(os.path.join(d, "p", "doc.md"), "w").write("x\n")
        open(os.path.join(d, "p", ".flowmark.toml"), "w").write("width = 41\n")
        open(os.path.join(d, "p", "flowmark.toml"), "w").write("width = 42\n")
        open(os.path.join(d, "p", "pyproject.toml"), "w").write("[tool.flowmark]\nwidth = 43\n")
        for want, remove in ((41, None), (42, ".flowmark.toml"), (43, "flowmark.toml")):
            if remove:
                os.remove(os.path.join(d, "p", remove))
            rc, eff, err = observe(["."], os.path.join(d, "p"))
            evals += 1
            if eff.get("width") != want:
                violations.append({"clause": "search_order", "input": {"present_first": want}, "got": eff.get("width"), "want": want})
        # every spelling argparse accepts for a flag counts as "the flag was passed": clusters of short options (also behind
        # an untracked first letter), attached values, --opt=value, unambiguous prefixes
        open(os.path.join(d, "p", "pyproject.toml"), "w").write("[tool.flowmark]\nwidth = 30\nsemantic = false\ncleanups = false\n")
        for argv, want in ((["-is"], {"semantic": True, "width": 30}), (["-iw50"], {"width": 50, "semantic": False}),
                           (["-psw", "50"], {"width": 50, "semantic": True}), (["-ic"], {"cleanups": True}), (["-sw50"], {"width": 50, "semantic": True}),
                           (["-cs"], {"cleanups": True, "semantic": True}), (["--width=51"], {"width": 51}), (["-w51"], {"width": 51}),
                           (["--wid", "52"], {"width": 52}), (["-o", "out.md", "-s"], {"semantic": True}), (["-ooutfile.md", "-s"], {"semantic": True})):
            rc, eff, err = observe(argv + ["doc.md"], os.path.join(d, "p"))
            evals += 1
            bad = {k: eff.get(k) for k, v in want.items() if eff.get(k) != v}
            if bad:
                violations.append({"clause": "precedence", "input": {"argv": argv, "config": {"width": 30, "semantic": False, "cleanups": False}}, "got": bad, "want": want})
        open(os.path.join(d, "p", "pyproject.toml"), "w").write("[tool.flowmark]\nwidht = 43\n")
        rc, eff, err = observe(["."], os.path.join(d, "p"))
        evals += 1
        if "unrecognized config key" not in err or eff.get("width") != 88:
            violations.append({"clause": "unknown_key_warns", "input": {}, "got": err[:200]})
    finally:
        shutil.rmtree(d, ignore_errors=True)
    evals += effect_same_as_flag(violations, ["flat-snake", "sectioned-kebab", "pyproject-kebab", "pyproject-subtables-kebab", "pyproject-inline-kebab"])
    from . import funcspecs as FS
    evals += FS.parse_config_sweep(violations)
    return {"evaluations": evals, "distinct_nontrivial": len(distinct), "violations": violations, "samples": samples,
            "rule": "(also: a nearest config file that sets nothing still ends the search; the search starts at the working directory whatever paths are named) (also: flags given in clusters of short options, with attached values, as --opt=value or as unambiguous prefixes win over the config file) (also: _parse_config_data sets exactly the named field to exactly the given value for all 13 keys x {kebab, snake} x {top level, [formatting], [file-discovery], other section}, all pairs together, unknown keys warned about and ignored) (also: nearest config file wins for all 9 kind pairs, adjacent or one level apart; --list-files honours the discovery keys of the config) (also, end to end on the output bytes of an option-sensitive document: each formatting key set in a config file "
                    "gives the same output as the equivalent flag, and a different one from no setting) 13 settings x {flag given, not} x {config sets, not} x {--auto, not} (+ flag passed with its default value) "
                    "x config kind {.flowmark.toml flat snake, flowmark.toml sectioned kebab, pyproject [tool.flowmark], parent "
                    "directory with a section-less pyproject nearer}; quick rotates the kind, thorough takes all; observed at the "
                    "kwargs reaching reformat_files / the FileResolverConfig built; distinct = distinct (case, effective value)",
            "exhaustive": tier == "thorough", "bound": "one setting varied at a time"}
