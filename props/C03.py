"""C03 bounded layer: re-layout invariance and two-pass relations."""
from __future__ import annotations

import random

from . import docspace as D
from . import pipeline as P
from .common import *  # noqa: F401,F403

ASSUMPTIONS = [
    "bounded stand-in: the relation format(relayout(x)) == format(x) runs through Marko's parser; contracts prove that the "
    "wrappers depend on the text only through its whitespace-collapsed token sequence",
    "re-layouts: spaces between words multiplied, soft line breaks moved by first formatting at another width/mode; newlines "
    "next to template tags and hard breaks are not moved",
]


def bounded(tier, seed):
    rnd = random.Random(seed)
    n = 80 if tier == "quick" else 800
    docs = D.documents(seed, n, hazards=False)
    viol, evals, distinct = [], 0, set()
    pairs = [((88, False), (20, False)), ((20, False), (88, False)), ((8, False), (88, True)), ((88, True), (30, False)),
             ((0, False), (20, True)), ((30, True), (30, False))]
    for d in docs:
        for w, s in ((88, False), (20, False), (30, True)):
            base = P.fmt(d, width=w, semantic=s)
            evals += 1
            distinct.add(base)
            other = P.fmt(P.relayout(d, rnd), width=w, semantic=s)
            if other != base:
                viol.append({"clause": "relayout_invariant", "input": {"text": d, "options": {"width": w, "semantic": s}, **P.doc_features(d)},
                             "got": other[:300], "want": base[:300]})
        for (w1, s1), (w2, s2) in pairs[: 3 if tier == "quick" else 6]:
            direct = P.fmt(d, width=w2, semantic=s2)
            via = P.fmt(P.fmt(d, width=w1, semantic=s1), width=w2, semantic=s2)
            evals += 1
            if via != direct:
                viol.append({"clause": "two_pass_canonical", "input": {"text": d, "options": {"first": [w1, s1], "then": [w2, s2]},
                                                                       **P.doc_features(d)}, "got": via[:300], "want": direct[:300]})
    return {"evaluations": evals, "distinct_nontrivial": len(distinct), "violations": viol, "samples": [{"text": docs[0]}],
            "rule": "seeded documents (no hazard words): multiplying inter-word spaces leaves the output unchanged at (88,fill), "
                    "(20,fill), (30,semantic); formatting first with (w1,mode1) and then with (w2,mode2) equals formatting with "
                    "(w2,mode2) directly; distinct = distinct baseline outputs",
            "exhaustive": False, "bound": "%d documents" % n}


def witnesses():
    a = P.fmt("aaaa - bbbb\n", width=88, semantic=False)
    b = P.fmt(P.fmt("aaaa - bbbb\n", width=4, semantic=False), width=88, semantic=False)
    return {"C03-sticky-escapes": a != b}
