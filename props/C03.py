"""C03 bounded layer: re-layout invariance and two-pass relations."""
from __future__ import annotations

import random

from . import docspace as D
from . import pipeline as P
from .common import *  # noqa: F401,F403

ASSUMPTIONS = [
    "bounded stand-in: the relation format(relayout(x)) == format(x) runs through Marko's parser; contracts prove that the "
    "wrappers depend on the text only through its whitespace-collapsed token sequence",
    "re-layouts: spaces between words multiplied, soft line breaks moved by first formatting at another width/mode; newlines "
    "next to template tags and hard breaks are not moved",
]


MID_TAGS = ["<!-- legacy -->", "{% ref \"init\" %}", "{{ total }}", "{# note #}"]
LISTY = ["2019.", "2)", "|", "10.", "3)", "| b |"]        # words that look like block starts but cannot interrupt a paragraph
PLAINW = ["the", "importer", "was", "rewritten", "in", "rows", "then", "follow", "steps", "It", "now.", "Done!",
          "{name}", "{0}", "{.cls}", "<b>"]       # brace words that are not tags


def tag_paragraph_layouts(rnd):
    """one paragraph with template tags / comments in mid-line position, in two line layouts that differ only in where the
    soft breaks fall; no break is adjacent to a tag (the documented exception does not apply)"""
    n = rnd.choice((6, 9, 14))
    words = [rnd.choice(PLAINW)]
    for k in range(1, n):
        r = rnd.random()
        words.append(rnd.choice(MID_TAGS) if r < 0.15 and k < n - 1 and words[-1] not in MID_TAGS
                     else rnd.choice(LISTY) if r < 0.35 else rnd.choice(PLAINW))
    if words[-1] in MID_TAGS:
        words.append("end.")

    def lay():
        out = [words[0]]
        for a, b in zip(words, words[1:]):
            brk = rnd.random() < 0.3 and a not in MID_TAGS and b not in MID_TAGS
            out.append(("\n" if brk else " ") + b)
        return "".join(out) + "\n"
    return lay(), lay()


MULTIWORD = ["*em one two*", "**strong a b**", "~x y z~", "~~gone for good~~", "[link text here](http://x.y)", "`code a b`",
             "_under score_", "***both of them***", "[ref text][ref]", "![alt text](i.png)"]


def tag_block_layouts(rnd):
    """a paragraph with a tag pair that opens a line (after a tag-adjacent newline, which stays) and whose body spans several
    words: the soft breaks INSIDE that stretch are ordinary ones"""
    o, c = rnd.choice((("{% note %}", "{% /note %}"), ("<!-- a -->", "<!-- /a -->"), ("{{ x }}", "{{ y }}")))
    inner = [rnd.choice(PLAINW[:12]) for _ in range(rnd.choice((4, 7, 10)))]

    def lay():
        body = "".join(w if k == 0 else (("\n" if rnd.random() < 0.3 else " ") + w) for k, w in enumerate(inner))
        return "intro words %s\n%s %s %s\n" % (o, o, body, c)
    return lay(), lay()


def inline_paragraph_layouts(rnd):
    """one paragraph whose inline constructs span several words, in two layouts that differ only in which inter-word
    spaces are soft line breaks (also inside the constructs)"""
    words = []
    for _ in range(rnd.choice((3, 5, 8))):
        words += (rnd.choice(MULTIWORD) if rnd.random() < 0.4 else rnd.choice(PLAINW)).split(" ")
    if words[0][0] in "*_~[`!":
        words.insert(0, "Then")

    def lay():
        return "".join(w if k == 0 else (("\n" if rnd.random() < 0.3 else " ") + w) for k, w in enumerate(words)) + "\n"
    return lay(), lay()


def bounded(tier, seed):
    rnd = random.Random(seed)
    n = 80 if tier == "quick" else 800
    docs = D.documents(seed, n, hazards=False)
    viol, evals, distinct = [], 0, set()
    pairs = [((88, False), (20, False)), ((20, False), (88, False)), ((8, False), (88, True)), ((88, True), (30, False)),
             ((0, False), (20, True)), ((30, True), (30, False))]
    for d in docs:
        for w, s in ((88, False), (20, False), (30, True)):
            base = P.fmt(d, width=w, semantic=s)
            evals += 1
            distinct.add(base)
            other = P.fmt(P.relayout(d, rnd), width=w, semantic=s)
            if other != base:
                viol.append({"clause": "relayout_invariant", "input": {"text": d, "options": {"width": w, "semantic": s}, **P.doc_features(d)},
                             "got": other[:6000], "want": base[:6000]})
        for (w1, s1), (w2, s2) in pairs[: 3 if tier == "quick" else 6]:
            direct = P.fmt(d, width=w2, semantic=s2)
            via = P.fmt(P.fmt(d, width=w1, semantic=s1), width=w2, semantic=s2)
            evals += 1
            if via != direct:
                viol.append({"clause": "two_pass_canonical", "input": {"text": d, "options": {"first": [w1, s1], "then": [w2, s2]},
                                                                       **P.doc_features(d)}, "got": via[:6000], "want": direct[:6000]})
    # paragraphs with tags in mid-line position: soft breaks elsewhere are not significant
    for i in range(60 if tier == "quick" else 600):
        a, b = tag_paragraph_layouts(rnd)
        for pre in ("", "- "):
            da, db = pre + a.replace("\n", "\n" + " " * len(pre))[:-len(pre) or None], pre + b.replace("\n", "\n" + " " * len(pre))[:-len(pre) or None]
            for w, sm in ((88, False), (30, True), (20, False)):
                oa, ob = P.fmt(da, width=w, semantic=sm), P.fmt(db, width=w, semantic=sm)
                evals += 1
                distinct.add(oa)
                if oa != ob:
                    viol.append({"clause": "relayout_invariant", "input": {"text": da, "other_layout": db, "options": {"width": w, "semantic": sm},
                                                                           **P.doc_features(da)}, "got": ob[:6000], "want": oa[:6000]})
    for i in range(30 if tier == "quick" else 300):
        a, b = tag_block_layouts(rnd)
        for w, sm in ((88, False), (30, True), (24, False)):
            oa, ob = P.fmt(a, width=w, semantic=sm), P.fmt(b, width=w, semantic=sm)
            evals += 1
            if oa != ob:
                viol.append({"clause": "relayout_invariant", "input": {"text": a, "other_layout": b, "options": {"width": w, "semantic": sm},
                                                                       **P.doc_features(a)}, "got": ob[:6000], "want": oa[:6000]})
    # inline constructs spanning several words: a soft break anywhere between two words is not significant
    for i in range(60 if tier == "quick" else 600):
        a, b = inline_paragraph_layouts(rnd)
        for w, sm in ((88, False), (30, True)):
            oa, ob = P.fmt(a, width=w, semantic=sm), P.fmt(b, width=w, semantic=sm)
            evals += 1
            distinct.add(oa)
            if oa != ob:
                viol.append({"clause": "relayout_invariant", "input": {"text": a, "other_layout": b, "options": {"width": w, "semantic": sm},
                                                                       **P.doc_features(a)}, "got": ob[:6000], "want": oa[:6000]})
    # which source newlines are significant is decided by the tag-line predicates and the block heuristics: both against their
    # specifications on every short line (a predicate that is too generous keeps a layout-dependent break)
    from . import funcspecs as FS
    evals += FS.tag_line_predicates(viol) + FS.block_heuristics(viol)
    # an escape sticks once written (recorded finding C03-sticky-escapes): the set of words that get one must not grow beyond
    # the words that need one
    evals += FS.escape_only_where_needed(viol)
    return {"evaluations": evals, "distinct_nontrivial": len(distinct), "violations": viol, "samples": [{"text": docs[0]}],
            "rule": "(also: the tag-line predicates and block heuristics against their specifications on every line of <= 4 / 5 symbols; markdown_escape_word escapes only words that start a block construct, on every word of <= 3 symbols over 20 Markdown-significant characters) seeded documents (no hazard words): multiplying inter-word spaces leaves the output unchanged at (88,fill), "
                    "(20,fill), (30,semantic); formatting first with (w1,mode1) and then with (w2,mode2) equals formatting with "
                    "(w2,mode2) directly; seeded paragraphs (plain and in a list item) with template tags / comments in mid-line position and list-like words, in two soft-break layouts: same output; seeded paragraphs whose inline constructs (emphasis, strong, one- and two-tilde strikethrough, link text, code span, image alt) span several words, in two soft-break layouts: same output; distinct = distinct baseline outputs",
            "exhaustive": False, "bound": "%d documents" % n}


def witnesses():
    a = P.fmt("aaaa - bbbb\n", width=88, semantic=False)
    b = P.fmt(P.fmt("aaaa - bbbb\n", width=4, semantic=False), width=88, semantic=False)
    return {"C03-sticky-escapes": a != b}
