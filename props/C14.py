"""C14 bounded layer: fault and crash injection at every file-system call of an in-place / -o run."""
from __future__ import annotations

import os
import shutil
import sys

from .common import OPTION_DOC, captured, in_dir, scratch_dir

ASSUMPTIONS = [
    "os.replace is atomic on one file system; strif.atomic_output_file follows its documented protocol "
    "(temp sibling, optional backup move, rename) — assumed contract, its source is not verified here",
    "behaviour *between* two system calls at a crash is the operating system's; the contracts prove the ordering "
    "(read, format, then write only through the atomic context), the bounded layer injects faults/crashes at call granularity",
    "durability (fsync) is not part of the property",
]

PATCH_POINTS = [("pathlib", "Path", "read_text"), ("pathlib", "Path", "write_text"), ("pathlib", "Path", "replace"),
                ("pathlib", "Path", "mkdir"), ("os", None, "replace"), ("os", None, "rename"), ("os", None, "makedirs"),
                ("shutil", None, "move")]


class FaultyFile:
    """proxy of a file opened for writing: its write()/truncate() are fault points (a faulting write
    leaves half of the data behind, as a full disk or a crash would)"""

    def __init__(self, f, inj):
        self._f, self._inj = f, inj

    def write(self, data):
        self._inj.n += 1
        if self._inj.n == self._inj.k:
            self._f.write(data[:len(data) // 2])
            self._f.flush()
            if self._inj.mode == "crash":
                os._exit(137)
            raise OSError(28, "injected ENOSPC at call %d" % self._inj.k)
        return self._f.write(data)

    def truncate(self, *a):
        self._inj.n += 1
        if self._inj.n == self._inj.k:
            if self._inj.mode == "crash":
                os._exit(137)
            raise OSError("injected fault at call %d" % self._inj.k)
        return self._f.truncate(*a)

    def __getattr__(self, name):
        return getattr(self._f, name)

    def __enter__(self):
        self._f.__enter__()
        return self

    def __exit__(self, *a):
        return self._f.__exit__(*a)

    def __iter__(self):
        return iter(self._f)


class Injector:
    """Raise OSError (mode 'fault') or die without cleanup (mode 'crash') at the k-th patched call."""

    def __init__(self, k, mode):
        self.k, self.mode, self.n, self.saved = k, mode, 0, []

    def __enter__(self):
        import importlib
        for mod, cls, name in PATCH_POINTS:
            m = importlib.import_module(mod)
            owner = getattr(m, cls) if cls else m
            orig = getattr(owner, name)
            self.saved.append((owner, name, orig))

            def wrapper(*a, __orig=orig, **kw):
                self.n += 1
                if self.n == self.k:
                    if self.mode == "crash":
                        os._exit(137)
                    raise OSError("injected fault at call %d" % self.k)
                return __orig(*a, **kw)
            setattr(owner, name, wrapper)
        import builtins, io
        real_open = builtins.open
        self.saved.append((builtins, "open", real_open))
        self.saved.append((io, "open", io.open))

        def fopen(file, mode="r", *a, **kw):
            f = real_open(file, mode, *a, **kw)
            if any(c in mode for c in "wax+") and isinstance(file, (str, os.PathLike)) and str(file) != os.devnull:
                return FaultyFile(f, self)
            return f
        builtins.open = fopen
        io.open = fopen
        return self

    def __exit__(self, *exc):
        for owner, name, orig in self.saved:
            setattr(owner, name, orig)
        return False


def scenario(d, kind):
    from flowmark.cli import main
    old = OPTION_DOC
    a, b = os.path.join(d, "a.md"), os.path.join(d, "b.md")
    for f in (a, b):
        open(f, "w").write(old)
    if kind == "inplace":
        return lambda: main(["-i", "-w", "40", a]), [a], True
    if kind == "inplace-nobackup":
        return lambda: main(["-i", "--nobackup", "-w", "40", a]), [a], False
    if kind == "two-files":
        return lambda: main(["-i", "--nobackup", "-w", "40", a, b]), [a, b], False
    if kind == "auto":
        return lambda: main(["--auto", "-w", "40", a]), [a], False
    if kind in ("symlink-nobackup", "symlink-backup"):
        # the path to format is a symbolic link (relative, to a file in a sub-directory): what can be read through that
        # path is old or new at every instant, exactly as for a regular file
        os.makedirs(os.path.join(d, "real"))
        os.rename(a, os.path.join(d, "real", "target.md"))
        link = os.path.join(d, "a.md")
        os.symlink(os.path.join("real", "target.md"), link)
        if kind == "symlink-nobackup":
            return lambda: main(["-i", "--nobackup", "-w", "40", link]), [link], False
        return lambda: main(["-i", "-w", "40", link]), [link], True
    raise ValueError(kind)


def count_calls(kind):
    d = scratch_dir("vf-c14-")
    try:
        run, targets, backup = scenario(d, kind)
        with in_dir(d), captured():
            with Injector(10 ** 9, "fault") as inj:
                run()
        return inj.n
    finally:
        shutil.rmtree(d, ignore_errors=True)


def check_state(d, targets, backup, new_by_target, old):
    """every target holds the complete old or the complete new content (or, with backups, is absent
    while the old content sits in .orig); nothing else in the directory is a damaged target"""
    problems = []
    for t in targets:
        if os.path.exists(t):
            c = open(t).read()
            if c != old and c != new_by_target[t]:
                problems.append({"target": os.path.basename(t), "content": c[:200]})
        else:
            if not (backup and os.path.exists(t + ".orig") and open(t + ".orig").read() == old):
                problems.append({"target": os.path.basename(t), "content": None})
    return problems


def snapshot(d):
    out = {}
    for name in sorted(os.listdir(d)):
        p = os.path.join(d, name)
        if os.path.isfile(p):
            out[name] = open(p, "rb").read()
    return out


def fail_before_write(viol):
    """reading / decoding / formatting fails => nothing is modified; in a multi-file run the files before
    the failing one are fully formatted, the failing one and the later ones untouched"""
    import flowmark.reformat_api as api
    from flowmark.cli import main
    n = 0
    for flags in (["-i"], ["-i", "--nobackup"], ["--auto"]):
        for failure in ("undecodable", "formatter-raises"):
            d = scratch_dir("vf-c14-")
            try:
                names = ["a.md", "b.md", "c.md"]
                for nm in names:
                    open(os.path.join(d, nm), "w").write(OPTION_DOC)
                orig = api.reformat_text
                if failure == "undecodable":
                    open(os.path.join(d, "b.md"), "wb").write(b"caf\xe9 \xff\xfe bad utf8\n")
                else:
                    calls = {"n": 0}

                    def boom(*a, **kw):
                        calls["n"] += 1
                        if calls["n"] == 2:
                            raise RuntimeError("injected formatter failure")
                        return orig(*a, **kw)
                    api.reformat_text = boom
                before = snapshot(d)
                try:
                    with in_dir(d), captured():
                        try:
                            rc = main(flags + ["-w", "40"] + names)
                        except BaseException as e:
                            rc = "exc:" + type(e).__name__
                finally:
                    api.reformat_text = orig
                after = snapshot(d)
                n += 1
                problems = []
                if rc == 0:
                    problems.append("exit 0 although a file failed")
                for nm in ("b.md", "c.md"):
                    if after.get(nm) != before[nm]:
                        problems.append("%s was modified although it (or an earlier file) failed: %r" % (nm, after.get(nm, b"<missing>")[:60]))
                extra = sorted(set(after) - set(before) - {"a.md.orig"})
                if extra:
                    problems.append("stray files: %s" % extra)
                if "a.md" not in after or after["a.md"] in (b"",):
                    problems.append("a.md damaged")
                if problems:
                    viol.append({"clause": "failure_modifies_nothing", "input": {"flags": flags, "failure": failure},
                                 "got": problems, "rc": str(rc)})
            finally:
                shutil.rmtree(d, ignore_errors=True)
    return n


def fail_with_output_path(viol):
    """-o / output path: a run that fails (missing or undecodable input, raising formatter) creates no file, no directory and
    touches no existing output; a second in-place run keeps a usable backup of what it replaces"""
    import flowmark.reformat_api as api
    n = 0
    for failure in ("missing", "undecodable", "formatter-raises"):
        for existing in (False, True):
            d = scratch_dir("vf-c14-")
            try:
                src = os.path.join(d, "in.md")
                if failure == "undecodable":
                    open(src, "wb").write(b"caf\xe9 \xff\xfe bad utf8\n")
                elif failure == "formatter-raises":
                    open(src, "w").write(OPTION_DOC)
                out = os.path.join(d, "new", "deep", "out.md") if not existing else os.path.join(d, "out.md")
                if existing:
                    open(out, "w").write("old output\n")
                    os.utime(out, (1, 1))
                orig = api.reformat_text
                if failure == "formatter-raises":
                    def boom(*a, **kw):
                        raise RuntimeError("injected formatter failure")
                    api.reformat_text = boom
                before = {os.path.relpath(os.path.join(dp, f), d): (open(os.path.join(dp, f), "rb").read(), os.path.getmtime(os.path.join(dp, f)))
                          for dp, dn, fn in os.walk(d) for f in fn}
                dirs_before = sorted(os.path.relpath(os.path.join(dp, x), d) for dp, dn, fn in os.walk(d) for x in dn)
                try:
                    with captured():
                        try:
                            api.reformat_file(src, out, width=40, make_parents=True)
                            rc = 0
                        except BaseException as e:
                            rc = "exc:" + type(e).__name__
                finally:
                    api.reformat_text = orig
                after = {os.path.relpath(os.path.join(dp, f), d): (open(os.path.join(dp, f), "rb").read(), os.path.getmtime(os.path.join(dp, f)))
                         for dp, dn, fn in os.walk(d) for f in fn}
                dirs_after = sorted(os.path.relpath(os.path.join(dp, x), d) for dp, dn, fn in os.walk(d) for x in dn)
                n += 1
                if rc == 0 or after != before or dirs_after != dirs_before:
                    viol.append({"clause": "failure_modifies_nothing", "input": {"failure": failure, "output_exists": existing, "output": os.path.relpath(out, d)},
                                 "got": {"rc": str(rc), "files": sorted(set(after) ^ set(before)) or [k for k in after if after[k] != before.get(k)],
                                         "dirs": [x for x in dirs_after if x not in dirs_before]}})
            finally:
                shutil.rmtree(d, ignore_errors=True)
    # the same through the command line: whatever makes the run fail (usage error, missing input, raising formatter), an
    # output file that already exists keeps its bytes and nothing new appears
    from flowmark.cli import main as _cli_main
    for failure in ("two-inputs", "missing", "formatter-raises", "stdin-and-file"):
        d = scratch_dir("vf-c14-")
        try:
            for nm in ("a.md", "b.md"):
                open(os.path.join(d, nm), "w").write(OPTION_DOC)
            out = os.path.join(d, "OUT.md")
            open(out, "w").write("complete old output\n")
            argv, stdin = {"two-inputs": (["-o", out, "a.md", "b.md"], None), "missing": (["-o", out, "nope.md"], None),
                           "formatter-raises": (["-o", out, "-"], OPTION_DOC), "stdin-and-file": (["-o", out, "-", "a.md"], OPTION_DOC)}[failure]
            orig = api.reformat_text
            if failure == "formatter-raises":
                def boom2(*a, **kw):
                    raise RuntimeError("injected formatter failure")
                api.reformat_text = boom2
            before = snapshot(d)
            try:
                with in_dir(d), captured(stdin_text=stdin):
                    try:
                        rc = _cli_main(argv)
                    except BaseException as e:
                        rc = "exc:" + type(e).__name__
            finally:
                api.reformat_text = orig
            after = snapshot(d)
            n += 1
            if rc == 0 or after != before:
                viol.append({"clause": "failure_modifies_nothing", "input": {"argv": [a if a != out else "OUT.md" for a in argv], "failure": failure, "output_exists": True},
                             "got": {"rc": str(rc), "files": sorted(set(after) ^ set(before)) or [k for k in after if after[k] != before.get(k)]}})
        finally:
            shutil.rmtree(d, ignore_errors=True)
    # without -i / --auto the input file is never touched, whatever other switches are given
    import itertools
    from flowmark.cli import main as _main
    switches = ["--nobackup", "-s", "-c", "--smartquotes", "--ellipses", "-p"]
    for r in (0, 1, 2):
        for combo in itertools.combinations(switches, r):
            d = scratch_dir("vf-c14-")
            try:
                f = os.path.join(d, "doc.md")
                open(f, "w").write(OPTION_DOC)
                before = snapshot(d)
                with in_dir(d), captured():
                    try:
                        rc = _main(list(combo) + ["doc.md"])
                    except BaseException as e:
                        rc = "exc:" + type(e).__name__
                n += 1
                if snapshot(d) != before:
                    viol.append({"clause": "input_untouched_without_inplace", "input": {"argv": list(combo) + ["doc.md"]},
                                 "got": sorted(set(snapshot(d)) ^ set(before)) or "doc.md rewritten", "rc": str(rc)})
            finally:
                shutil.rmtree(d, ignore_errors=True)
    # format, edit, format again in place: after the second run the text it replaced is still recoverable
    d = scratch_dir("vf-c14-")
    try:
        f = os.path.join(d, "doc.md")
        open(f, "w").write(OPTION_DOC)
        with captured():
            api.reformat_file(f, None, inplace=True, width=40)
        edited = open(f).read() + "\nA hand-written paragraph   added   after the first run.\n"
        open(f, "w").write(edited)
        with captured():
            api.reformat_file(f, None, inplace=True, width=40)
        n += 1
        if not os.path.exists(f + ".orig") or open(f + ".orig").read() != edited:
            viol.append({"clause": "backup_holds_replaced_text", "input": {"scenario": "format, edit, format again (backups on)"},
                         "got": open(f + ".orig").read()[:120] if os.path.exists(f + ".orig") else None, "want": edited[:120]})
    finally:
        shutil.rmtree(d, ignore_errors=True)
    return n


def bounded(tier, seed):
    from flowmark.reformat_api import reformat_text
    kinds = ["inplace", "inplace-nobackup", "two-files", "auto", "symlink-nobackup", "symlink-backup"]
    evals, violations, samples, distinct = 0, [], [], set()
    for kind in kinds:
        n = count_calls(kind)
        for mode in ("fault", "crash"):
            for k in range(1, n + 1):
                d = scratch_dir("vf-c14-")
                try:
                    run, targets, backup = scenario(d, kind)
                    opts = dict(width=40)
                    if kind == "auto":
                        opts.update(semantic=True, cleanups=True, smartquotes=True, ellipses=True)
                    else:
                        opts.update(semantic=False, cleanups=False)
                    new = {t: reformat_text(OPTION_DOC, **opts) for t in targets}
                    if mode == "fault":
                        with in_dir(d), captured():
                            with Injector(k, "fault"):
                                try:
                                    rc = run()
                                except BaseException as e:      # an escaping exception is also a failure exit
                                    rc = "exc:" + type(e).__name__
                    else:
                        pid = os.fork()
                        if pid == 0:
                            try:
                                os.chdir(d)
                                devnull = open(os.devnull, "w")
                                sys.stdout = sys.stderr = devnull
                                with Injector(k, "crash"):
                                    run()
                            finally:
                                os._exit(0)
                        _, status = os.waitpid(pid, 0)
                        rc = "status:%d" % status
                    evals += 1
                    probs = check_state(d, targets, backup, new, OPTION_DOC)
                    state = tuple(sorted((os.path.basename(t), open(t).read() == OPTION_DOC if os.path.exists(t) else None)
                                         for t in targets))
                    distinct.add((kind, mode, state))
                    if mode == "fault" and rc == 0:
                        # a reported success must mean every target is new
                        for t in targets:
                            if not os.path.exists(t) or open(t).read() != new[t]:
                                probs.append({"target": os.path.basename(t), "content": "exit 0 but not formatted"})
                    if probs:
                        violations.append({"clause": "old_or_new", "input": {"scenario": kind, "mode": mode, "k": k},
                                           "got": probs, "rc": str(rc)})
                    if len(samples) < 3:
                        samples.append({"scenario": kind, "mode": mode, "k": k, "rc": str(rc), "state": [list(x) for x in state]})
                finally:
                    shutil.rmtree(d, ignore_errors=True)
    evals += fail_before_write(violations)
    evals += fail_with_output_path(violations)
    return {"evaluations": evals, "distinct_nontrivial": len(distinct), "violations": violations, "samples": samples,
            "rule": "(also: the same fault / crash sweep with the path given as a symbolic link, with and without backup) (also: undecodable input / raising formatter in a 3-file run leave the failing and later files untouched; a failing run "
                    "with an explicit output path creates no file or directory and touches no existing output; the backup of a second "
                    "in-place run holds the text it replaced; a run without -i / --auto never modifies its input, for every 0-2 subset of the other switches) "
                    "for each scenario {inplace+backup, inplace, two files, --auto} and each k in 1..#fs-calls: raise OSError "
                    "at the k-th file-system call (fault) or os._exit the forked process there (crash); then every target must "
                    "hold the complete old or new text (or be recoverable from .orig). distinct = distinct (scenario, mode, "
                    "per-target old/new/absent) outcomes",
            "exhaustive": True, "bound": "4 scenarios x every call index x {fault, crash}; patched calls: " +
                                         ", ".join("%s.%s" % (c or m, n) for m, c, n in PATCH_POINTS)}


def witnesses():
    """recorded finding C14-same-file-named-twice: `-i a.md a.md` backs up the already formatted text over a.md.orig"""
    from flowmark.cli import main
    d = scratch_dir("vf-c14w-")
    try:
        a = os.path.join(d, "a.md")
        open(a, "w").write(OPTION_DOC)
        with in_dir(d), captured():
            try:
                main(["-i", "-w", "40", "a.md", "a.md"])
            except BaseException:
                pass
        orig = a + ".orig"
        return {"C14-same-file-named-twice": os.path.exists(orig) and open(orig).read() != OPTION_DOC and open(a).read() != OPTION_DOC}
    finally:
        shutil.rmtree(d, ignore_errors=True)
