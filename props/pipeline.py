"""Pipeline-level relations of C01/C02/C03/C04/C06/C12 evaluated on the real reformat_text over the
document space of props/docspace.py.  Bounded stand-ins, never counted as proved."""
from __future__ import annotations

import random
import re
import time

from . import docspace as D
from .common import *  # noqa: F401,F403

NESTED_LIST = re.compile(r"^(?:[ >]*)(?:[-*+]|\d+[.)]) +(?:[-*+]|\d+[.)]) |^(?: {2,}|> +)(?:[-*+]|\d+[.)]) ", re.M)


def fmt(text, **o):
    from flowmark.reformat_api import reformat_text
    o = dict(o)
    o.setdefault("cleanups", False)
    return reformat_text(text, **o)


def doc_features(d):
    return {"nested_list": bool(NESTED_LIST.search(d)), "has_tags": any(t in d for t in ("{%", "{{", "{#", "<!--")),
            "hard_break": "\\\n" in d}


def sweep(seed, n, checks, with_tags=False, option_sets=None, budget_s=50, hazards=True):
    """checks: list of callables (doc, opts, out) -> list of violation dicts"""
    docs = D.documents(seed, n, with_tags=with_tags, hazards=hazards)
    viol, evals, distinct = [], 0, set()
    t0 = time.time()
    samples = []
    for d in docs:
        if time.time() - t0 > budget_s:
            break
        for o in (option_sets or D.OPTION_SETS):
            try:
                out = fmt(d, **o)
            except Exception as e:       # C12: never raises
                viol.append({"clause": "no_raise", "input": {"text": d, "options": o, **doc_features(d)}, "got": repr(e)[:200]})
                continue
            evals += 1
            distinct.add(out)
            for c in checks:
                for v in c(d, o, out):
                    v.setdefault("input", {}).update({"text": d, "options": o, **doc_features(d)})
                    viol.append(v)
        if len(samples) < 2:
            samples.append({"text": d})
    return {"evaluations": evals, "distinct_nontrivial": len(distinct), "violations": viol, "samples": samples}


# ---- clauses
def same_structure(d, o, out):
    try:
        cin, cout = D.canonical(d), D.canonical(out)
    except Exception as e:
        return [{"clause": "reparse_crash", "got": repr(e)[:200]}]
    if cin != cout:
        return [{"clause": "same_document", "got": out[:400]}]
    return []


def idempotent(d, o, out):
    o2 = fmt(out, **o)
    return [] if o2 == out else [{"clause": "idempotent", "got": o2[:400], "want": out[:400]}]


def well_formed(d, o, out):
    bad = []
    if not out.endswith("\n"):
        bad.append({"clause": "newline_terminated", "got": out[-40:]})
    if "\x00" in out and "\x00" not in d:
        bad.append({"clause": "no_placeholder_bytes", "got": out[:200]})
    return bad


def literal_spans_verbatim(d, o, out):
    try:
        a, b = D.literal_spans(d), D.literal_spans(out)
    except Exception as e:
        return [{"clause": "reparse_crash", "got": repr(e)[:200]}]
    return [] if a == b else [{"clause": "literal_spans_verbatim", "got": [x for x in b if x not in a][:3], "want": [x for x in a if x not in b][:3]}]


def generated_code_verbatim(d, o, out):
    """every top-level fenced code block the generator wrote appears in the output with exactly its lines, consecutively
    (judged from the generator's own knowledge of what is code, not from a parser)"""
    meta = D.META.get(d)
    if not meta:
        return []
    lines = out.split("\n")
    for code in meta["top_code"]:
        want = [l for l in code.split("\n")]
        while want and want[-1] == "":
            want.pop()          # (trailing blank code lines are dropped by Marko's block model: documented normalisation)
        k = len(want)
        if k and not any(lines[i:i + k] == want for i in range(len(lines) - k + 1)):
            return [{"clause": "generated_code_verbatim", "got": out[:600], "want": want[:6]}]
    if meta.get("no_code"):
        # the generator wrote no code block: no output line is a fence (a run of >= 3 backticks followed by no further backtick,
        # or of >= 3 tildes, behind at most container markers)
        for l in lines:
            if re.match(r"^[ >*+-]*(`{3,}[^`]*|~{3,}.*)$", l) and not re.match(r"^[ >*+-]*`{3,}[^`]*`", l):
                return [{"clause": "generated_code_verbatim", "got": out[:600], "want": "no code block (found fence line %r)" % l}]
    for info in meta.get("top_info", []):
        if info and not any(re.match(r"^(`{3,}|~{3,})" + re.escape(info) + r"$", l) for l in lines):
            return [{"clause": "generated_code_verbatim", "got": out[:600], "want": "info string " + info}]
    return []


# rewritten by design (escape dropped, link -> reference link when a matching definition exists, words of a non-atomic token
# separated by a container prefix) or by a recorded finding
UNSTABLE_TOKENS = {"2023\\.", "www.example.com/p", "[w](http://x.y/t \"T  w\")", "[t](http://r.ef/x)", "![i2](http://r.ef/x)", "\\# no", "[ref]", "~(old)~", "~was it?~", "**__y__**"}


def generated_tokens_present(d, o, out):
    """every inline construct the generator put into the document occurs in the output as often as in the input, letter for
    letter up to whitespace runs (judged from the generator's lexicon, not from a parser; typography options off; tokens
    inside table cells -- where pipes are escaped -- and the few tokens that are rewritten by design are not counted)"""
    if o.get("smartquotes") or o.get("ellipses") or o.get("cleanups"):
        return []
    flat_in, flat_out = re.sub(r"\s+", " ", d), re.sub(r"\s+", " ", out)
    if "| h1 | h2 |" in flat_in:
        return []
    for t in D.INLINE + D.TAGS:
        if t in UNSTABLE_TOKENS or len(t) < 4:
            continue
        ft = re.sub(r"\s+", " ", t)
        if flat_in.count(ft) != flat_out.count(ft) and not any(ft in u and u != t for u in D.INLINE + D.TAGS if u in d):
            return [{"clause": "generated_tokens_present", "got": out[:600], "construct": t,
                     "want": "%d occurrence(s)" % flat_in.count(ft)}]
    for code in (D.META.get(d) or {}).get("top_info", []):
        if code and not any(re.match(r"^(`{3,}|~{3,})" + re.escape(code) + r"$", l) for l in out.split("\n")):
            return [{"clause": "generated_tokens_present", "got": out[:600], "construct": "info string " + code}]
    return []


def atomic_constructs_unbroken(d, o, out):
    """no output line ends inside a construct that the input holds on one line (tags, comments, code spans, links)"""
    bad = []
    for m in re.finditer(r"\{%.*?%\}|\{\{.*?\}\}|\{#.*?#\}|<!--.*?-->|`[^`\n]+`|\[[^\]\n]*\]\([^)\n]*\)", d):
        tok = m.group(0)
        norm = re.sub(r"\s+", " ", tok)
        if norm not in re.sub(r"[ \t]+", " ", out) and norm.replace(" ", "") in re.sub(r"\s+", "", out):
            bad.append({"clause": "atomic_unbroken", "got": out[:300], "construct": tok})
            break
    return bad


def relayout(d, rnd):
    """a meaning-preserving re-layout: multiply spaces inside paragraph lines (not at line starts, not in code)"""
    out = []
    fence = None
    # lines that flowmark's own parser holds as code-block content are never touched (fence tracking below is only a
    # line-level approximation: an indented code block may itself contain fence-like lines)
    try:
        code = {c.strip() for sp in D.literal_spans(d) if sp[0] == "codeblock" for c in sp[3].split("\n") if c.strip()}
    except Exception:
        code = set()
    for line in d.split("\n"):
        if any(line.rstrip().endswith(c) for c in code):
            out.append(line)
            continue
        m = re.match(r"^(?:[ >]|(?:[-*+]|\d+[.)]) )*(`{3,}|~{3,})", line)
        was = fence
        if m:
            if fence is None:
                fence = m.group(1)
            elif m.group(1)[0] == fence[0] and len(m.group(1)) >= len(fence):
                fence = None
        in_fence = fence is not None or was is not None
        if in_fence or line.startswith("    ") or "|" in line or "`" in line or re.match(r"^[ >]*\[[^\]]*\]:", line):
            out.append(line)
            continue
        m = re.match(r"^((?:[ >]|(?:[-*+]|\d+[.)]) +(?:\[[ x]\] )?)*)(.*)$", line)
        head, body = m.group(1), m.group(2)
        # (no tab right after a footnote / link-definition label: Marko's footnote parser never returns on '[^x]:<TAB>',
        # recorded finding C12-marko-footnote-tab-hang)
        seps = (" ", " ", "  ", "   ") if re.match(r"^\[\^?[^\]]*\]:", body) else (" ", " ", "  ", "   ", "\t", " \t ")
        body = re.sub(r"(?<=\S) (?=\S)", lambda _m: rnd.choice(seps), body)
        out.append(head + body)
    return "\n".join(out)
