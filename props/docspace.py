"""Small-scope document space and oracles of the bounded layer (DESIGN §2.9).  Always labelled
*bounded*: nothing here is counted as proved."""
from __future__ import annotations

import itertools
import random
import re

from .common import *  # noqa: F401,F403

# ---- lexicon -------------------------------------------------------------------------------
PLAIN = ["a", "bb", "ccc", "dddd", "eeeee", "word", "Then", "it."]
SENT = ["Ends.", "Really?", "Yes!", "(so.)", 'said."']
# words that look like block syntax (only those the line-start escaping is meant to protect: see known findings
# for the ones it does not)
HAZ = ["-", "+", "*", "#", "##", ">", "1.", "2)", "10.", "-x", "#tag", "1.5", "|", "a|b", "####", "######"]
INLINE = ["*em*", "**strong**", "`code`", "`a b`", "[link](http://x.y)", "[l k](http://x.y/a_b \"T\")", "[w](http://x.y/t \"T  w\")", "![img](i.png)", "[t](http://r.ef/x)", "[t2](http://r.ef/x \"Other\")", "![i2](http://r.ef/x)",
          "<http://auto.link>", "http://bare.url/x", "www.example.com/p", "<https://e.com/o'neil>", "https://e.com/what's-new...x", "<b>", "</b>", "<span class=\"x y\">", "~~gone~~", "[^fn]", "[ref]",
          "`超时timeout`", "`a `", "` b`", "`> `", "[文档](http://x.y/部署v2/ \"标题T\")", "<span title=\"中文abc\">", "<http://x.y/部署v2>", "![img](i/图a.png)",
          "\\*lit\\*", "2023\\.", "7\\)", "\\# no", "\"quoted\"", "it's", "wait...", "a_b_c", "2*3*4", "&amp;", "x<y",
          # delimiter runs whose flanking depends on the neighbouring character (also a line break), intraword and nested emphasis
          "****x****", "**__y__**", "``a`b``", "`a``b`", "`` `x ``", "`f(``t``, n)`", "ico\ue000n", "\ue001\ue002\ue003x", "[sp](<b c>)", "[pa](<x(y>)", "![im](<a b.png> \"t\")", "[bal](http://x.y/z_(w))",
          "~(old)~", "~was it?~", "foo***bar***baz", "a*b*c", "***both***"]
TAGS = ["{% t %}", "{% /t %}", "{{ v }}", "{# c #}", "<!-- h -->", "{% a x=\"1 2\" %}", "{% t %}{% /t %}", "<!-- a --><!-- /a -->",
        "{% p l=\"50% used\" %}", "{{ i % 2 }}", "{# 10 # 2 #}", "<!-- a - b -> c -->",
        # dots and quotes inside tags are template data, never typography
        "{% x \"foo...bar\" %}", "{{ a...b }}", "{# wait... #}", "<!-- c...d -->"]
HAZ_UNESCAPED = ["---", "===", "```", "~~~", "***", "___", ">q", "- - -", "----"]     # known finding C01-escape-hazards


def para_tokens(rnd, n, with_tags=False, hazards=True):
    pools = [PLAIN] * 4 + [SENT] * 2 + [INLINE] * 2 + ([HAZ] * 2 if hazards else []) + ([TAGS] if with_tags else [])
    return [rnd.choice(rnd.choice(pools)) for _ in range(n)]


def paragraph(rnd, n=None, with_tags=False, hazards=True, breaks=True):
    n = n or rnd.choice((1, 2, 3, 5, 8, 14))
    toks = para_tokens(rnd, n, with_tags, hazards)
    # the first token of a paragraph must not itself start a block
    while toks and (toks[0] in HAZ or toks[0].startswith(("[^", "|"))):
        toks[0] = rnd.choice(PLAIN)
    out = []
    for i, t in enumerate(toks):
        if i:
            r = rnd.random()
            if breaks and r < 0.12 and toks[i] not in HAZ and not toks[i].startswith(("[^", "|", "<", "{")) and toks[i - 1] not in TAGS:
                out.append("\n")
            elif breaks and r < 0.16 and toks[i] not in HAZ and not toks[i].startswith(("[^", "|", "<", "{")):
                # both hard-break spellings; directly after a bare URL only the two-space one (a backslash glued to a bare URL
                # is part of the URL for the parser: such an input has no hard break to preserve)
                bare = "://" in toks[i - 1] and not toks[i - 1].startswith(("<", "[", "!")) or toks[i - 1].startswith("www.")
                out.append("\\\n" if rnd.random() < 0.7 and not bare else "  \n")
            elif r < 0.22:
                out.append("  ")
            else:
                out.append(" ")
        out.append(t)
    return "".join(out)


def indent(text, first, rest):
    lines = text.split("\n")
    return "\n".join((first if i == 0 else rest) + l if l else (first.rstrip() if i == 0 else "") for i, l in enumerate(lines))


def block(rnd, depth=0, with_tags=False, in_list=False):
    hz = getattr(rnd, "hazards", True)
    kinds = ["para"] * 4 + ["atx", "setext", "bullet", "ordered", "task", "quote", "fence", "table", "rule",
                            "linkdef", "alert", "htmlblock"] + (["tagblock"] * 2 if with_tags and depth == 0 else [])
    if depth == 1:
        # inside containers: only constructs whose nesting flowmark (and Marko's parser) handle regularly;
        # headings / rules / link definitions / indented code inside list items or quotes are outside the bound
        kinds = ["para"] * 4 + ["bullet", "ordered", "quote", "fence", "alert"] + ([] if in_list else ["table"])
    if depth >= 2:
        kinds = ["para"] * 3 + ["fence"]
    k = rnd.choice(kinds)
    P = lambda **kw: paragraph(rnd, with_tags=with_tags, **{"hazards": hz, **kw})
    if k == "para":
        return P()
    if k == "atx":
        return "#" * rnd.choice((1, 2, 3, 6)) + " " + paragraph(rnd, n=rnd.choice((1, 3)), breaks=False, hazards=False)
    if k == "setext":
        return paragraph(rnd, n=2, breaks=False, hazards=False) + "\n" + rnd.choice(("===", "---"))
    if k in ("bullet", "ordered", "task"):
        items = []
        start = rnd.choice((1, 1, 3, 10, 9, 99))
        delim = getattr(rnd, "ordered_delim", ".")        # one delimiter type per document (')' and '.' lists next to
        # each other merge once ')' is normalised to '.': known finding C01-ordered-delimiter-merge)
        loose = rnd.random() < 0.4
        for i in range(rnd.choice((1, 2, 3))):
            marker = {"bullet": rnd.choice("-*+") + " ", "ordered": "%d%s " % (start + i, delim),
                      "task": "- [%s] " % rnd.choice(" x")}[k]
            if k == "bullet":
                marker = marker[0] + " "
            body = block(rnd, depth + 1, with_tags, in_list=True) if rnd.random() < 0.3 and depth < 2 and k != "task" else P()
            if rnd.random() < 0.25:
                body += "\n\n" + (block(rnd, depth + 1, with_tags, in_list=True) if depth < 1 else P())
            if k != "task" and i > 0 and rnd.random() < 0.06:
                body = ""           # an empty item (bare marker) between others
            items.append(indent(body, marker, " " * (2 if k == "task" else len(marker))))
        # one marker char per list
        if k == "bullet":
            c = rnd.choice("-*+")
            items = [c + it[1:] for it in items]
        return ("\n\n" if loose else "\n").join(items)
    if k == "quote":
        inner = "\n\n".join(block(rnd, depth + 1, with_tags) for _ in range(rnd.choice((1, 2))))
        # (every empty line gets the marker: a plain replace of double newlines left the second of two consecutive blank code
        # lines bare, which ends the quote -- and the code block -- there)
        return "\n".join(l if l else ">" for l in indent(inner, "> ", "> ").split("\n"))
    if k == "alert":
        return "> [!%s]\n> %s" % (rnd.choice(("NOTE", "TIP", "WARNING")), paragraph(rnd, n=3, breaks=False, hazards=hz))
    if k == "fence":
        f = rnd.choice(("```", "````", "~~~"))
        lang = rnd.choice(("", "py", "js {x=1}", "py title=\"a\\_b\"", "sh prompt=\\$ re=\\d+\\.\\d+"))
        code = "\n".join(rnd.choice(["x = 1", "  indented", "", "``` not a fence", "~~~", "> quoted", "- item", "a  b", "\ttab",
                                      "{% tag %}", "\"q\" ... 'z'", "```", " ```", "   ````", "  ~~~~", "it's \"q\"",
                                      "...spread", "compiling...", "...     print(i)", "fmt...)", "wait... what",
                                      "     ```", "    ~~~", "      ````", "trailing  ", "tab\t"])
                         for _ in range(rnd.choice((1, 2, 4))))
        if f[0] == "`" and re.search(r"^ {0,3}`{%d,}" % len(f), code, re.M):
            f = "`" * 7
        if f[0] == "~" and re.search(r"^ {0,3}~{3,}", code, re.M):
            f = "~" * 7
        if depth == 0 and hasattr(rnd, "top_code"):
            rnd.top_code.append(code)          # what the generator knows to be code, independently of any parser
            rnd.top_info.append(lang)
        return "%s%s\n%s\n%s" % (f, lang, code, f)
    if k == "indented":
        return "    code line\n    more  code"
    if k == "table":
        al = rnd.choice(("---", ":--", "--:", ":-:"))
        cell = lambda: rnd.choice(["a", "`c`", "x \\| y", "**b**", "\"q\"", "l...", "", "`p \\| q`", "*`e \\| f`*"])
        return "| h1 | h2 |\n| %s | --- |\n| %s | %s |\n| %s | %s |" % (al, cell(), cell(), cell(), cell())
    if k == "htmlblock":
        return rnd.choice(["<div class=\"x  y\">\nhtml *not md*  \"q\" ...\n</div>", "<!-- block\n  comment -->", "<details>\n<summary>S</summary>\n</details>"])
    if k == "rule":
        return rnd.choice(("***", "---", "* * *", "___"))
    if k == "linkdef":
        return "[ref]: http://r.ef/x" + rnd.choice(("", ' "Title"'))
    if k == "footnote":
        return "[^fn]: " + P(breaks=False)
    if k == "tagblock":
        inner = rnd.choice([P(), "- i1\n- i2", "| a | b |\n|---|---|\n| 1 | 2 |"])
        t = rnd.choice(("{% f %}", "<!-- f -->"))
        c = t.replace("f", "/f")
        return "%s\n%s\n%s" % (t, inner, c)
    return P()


META: dict = {}        # document text -> what the generator knows about it (independent of any parser)


def document(rnd, with_tags=False, nblocks=None, hazards=True):
    rnd.hazards = hazards
    rnd.top_code = []
    rnd.top_info = []
    n = nblocks or rnd.choice((1, 2, 3, 4))
    rnd.ordered_delim = rnd.choice(".)")
    blocks = [block(rnd, 0, with_tags) for _ in range(n)]
    if rnd.random() < 0.15:
        # an indented code block (no fence of its own) right after a heading, possibly holding fence-like lines
        blocks.insert(0, "    code line\n    " + rnd.choice(["more  code", " ```", "   ````", "```", "  ~~~", "it's"]))
        blocks.insert(0, "# Head")
    # a heading directly followed (no blank line) by a table / list / quote / fence
    for i in range(len(blocks) - 1):
        if blocks[i].startswith("#") and "\n" not in blocks[i] and blocks[i + 1][:1] in "|-*+>`~1" and rnd.random() < 0.4:
            blocks[i:i + 2] = [blocks[i] + "\n" + blocks[i + 1]]
            break
    if blocks[0].startswith("---"):
        blocks[0] = "***"          # a leading '---' line would be (unclosed) frontmatter
    # footnote definitions only at the end of the document (Marko's footnote extension absorbs what follows)
    if rnd.random() < 0.25:
        blocks.append("[^fn]: " + paragraph(rnd, with_tags=False, breaks=False, hazards=hazards)
                      + (("\n\n    " + paragraph(rnd, n=3, with_tags=False, breaks=False, hazards=False)) if rnd.random() < 0.4 else ""))
    doc = "\n\n".join(blocks) + "\n"
    META[doc] = {"top_code": list(rnd.top_code), "top_info": list(rnd.top_info)}
    return doc


# hand-written documents for interplays the random blocks rarely produce; appended to every sweep
TARGETED = [
    # tables with empty cells at the edges (header and body)
    "| name | |\n|---|---|\n| a | b |\n\ntext\n", "| | v |\n|---|---|\n| a | |\n", "> | h | |\n> |---|---|\n> | | z |\n",
    # a paragraph line that starts with a three-backtick code span, before a tag-delimited block
    "```code``` text here\n\n{% field %}\n- a\n- b\n{% /field %}\n",
    # definitions whose destination is spelled with pointy brackets / escapes (kept in the source spelling), heading text that is
    # nothing but '#' runs
    "[foo]: <my url>\n\n[foo] and [x][foo]\n", "[d]: a\\(b\n[e]: <>\n\n[d] and [x][d] [e]\n", "# # #\n\n## ## ##\n\ntext\n\n### # ###\n",
    # a thematic break as the first block of a list item, behind each kind of marker and inside other containers
    "* ---\n* b\n", "- ***\n- b\n\n+ ___\n+ c\n\n1. ---\n2. d\n", "> * ---\n> * b\n\n- * ---\n  * c\n",
    # heading text that ends in a run of '#' (setext source, or an ATX heading with a closing sequence behind it)
    "foo #\n---\n\ntext\n", "## foo # #\n\ntext\n", "# C#\n\n# a #b\n\n> ## quoted ##\n> # x # ##\n",
    # escaped block markers directly after a soft break, and runs of bare hard breaks
    "alpha\n1\\. beta\n", "alpha\n\\- beta and\n\\# gamma\n", "Before  \n\\\n\\\n\\\nAfter\n", "- a\\\n  \\\n  \\\n  \\\n  b\n",
    # a whole document indented uniformly (docstring style): dedented, not turned into code
    "    First paragraph of an indented text.\n\n    Second paragraph here.\n\n    - item one\n    - item two\n",
    "  Intro line\n  continues here.\n\n      real code\n\n  Back to text.\n",
    # a bare URL before a hard break, alone on its wrapped line or not, both spellings of the break
    "see the long explanation at http://bare.url/some/longer/path/that/wraps  \nnext line here\n",
    "- item with http://bare.url/x  \n  more text\n- second www.example.com/p  \n  tail\n",
    "> quoted https://e.com/a  \n> more\n",
    # a literal backslash directly before a hard break (three backslashes, then the newline), and a Windows path at a soft break
    "the path is C:\\\\\\\nnext line here\n",
    "- item ends in a literal backslash \\\\\\\n  and continues\n",
    # titles whose own text starts / ends with brackets
    "see [spec](/spec.html \"(draft)\") and ![img](i.png \"(c) ACME (tm)\") here\n\n[r]: /url \"(paren title)\"\n\n[r]\n",
    # headings directly followed by other blocks
    "# Heading\n| a | b |\n|---|---|\n| 1 | 2 |\n\nparagraph after the table\n",
    "## Heading\n- item\n- item two\n\nparagraph after the list\n",
    "> # Quoted heading\n> | a | b |\n> |---|---|\n> | 1 | 2 |\n>\n> paragraph\n",
    # empty items, items that are only a code block / quote
    "1. first\n2.\n3. third\n",
    "- ```\n  code\n  ```\n- > quote\n- last\n",
]

# hand-written documents with fenced code whose content the generator knows (parser-independent, like META of generated ones):
# a fence indented 1-3 spaces loses at most that many leading blanks per code line -- never other characters -- and blank code
# lines stay
TARGETED_CODE = [
    ("intro\n\n  ```\nab\n   cd\n\n  ef\n g\n  ```\n\nafter\n", {"top_code": ["ab\n cd\n\nef\ng"], "top_info": []}),
    ("intro\n\n   ~~~sh\n#!/bin/sh\n\n   echo hi\n  x\n   ~~~\n", {"top_code": ["#!/bin/sh\n\necho hi\nx"], "top_info": ["sh"]}),
    ("intro\n\n ```\n\n  a\n\n\n b\n ```\n", {"top_code": ["\n a\n\n\nb"], "top_info": []}),
    # an indented code block whose lines are all indented further: only the four structural columns go
    ("intro\n\n        deep line\n          deeper\n\nafter\n", {"top_code": ["    deep line\n      deeper"], "top_info": []}),
    ("# Head\n\n    \tmake:\n    \t\tcc -o x\n\ntext\n", {"top_code": ["\tmake:\n\t\tcc -o x"], "top_info": []}),
    # a paragraph that STARTS with a code span delimited by three backticks is no fence (a backtick fence's info string
    # cannot hold a backtick): the document has no code block at all
    ("``` use `x` ``` shows the idea and goes on for a while.\n\nnext paragraph here\n", {"top_code": [], "top_info": [], "no_code": True}),
    ("- ```a `b` c``` in an item\n- second\n\n> ``` q `r` ``` quoted\n", {"top_code": [], "top_info": [], "no_code": True}),
]
for _t, _m in TARGETED_CODE:
    META[_t] = _m
    TARGETED.append(_t)


def documents(seed, n, with_tags=False, hazards=True):
    rnd = random.Random(seed)
    return [document(rnd, with_tags, hazards=hazards) for _ in range(n)] + list(TARGETED)


# ---- oracles -------------------------------------------------------------------------------
def _collapse(s):
    return re.sub(r"\s+", " ", s)


def canonical(text, preprocess=True, exact_titles=False):
    """Canonical structure of a Markdown text as flowmark's own parser reads it (positions dropped, whitespace runs
    collapsed, soft breaks = spaces, escapes resolved, indented code = fenced code, blank lines dropped)."""
    from flowmark.formats.flowmark_markdown import flowmark_markdown
    from flowmark.formats.frontmatter import split_frontmatter
    from flowmark.linewrapping.tag_handling import preprocess_tag_block_spacing
    from marko import block as B, inline as I
    from textwrap import dedent
    fm, content = split_frontmatter(text)
    if fm:
        text = content
    text = dedent(text).strip() + "\n"
    if preprocess:
        text = preprocess_tag_block_spacing(text)
    doc = flowmark_markdown().parse(text)

    def inl(children):
        out, buf = [], []

        def flush():
            if buf:
                s = _collapse("".join(buf))
                if s:
                    out.append(("text", s))
                buf.clear()
        for c in children:
            t = type(c).__name__
            if t == "RawText":
                buf.append(c.children)
            elif t == "Literal":
                buf.append(c.children)
            elif t == "LineBreak":
                if c.soft:
                    buf.append(" ")
                else:
                    flush()
                    out.append(("hardbreak",))
            elif t == "CodeSpan":
                flush()
                out.append(("code", _collapse(c.children)))
            elif t == "InlineHTML":
                flush()
                out.append(("html", _collapse(c.children)))
            elif t in ("Emphasis", "StrongEmphasis", "Strikethrough", "CustomStrikethrough"):
                flush()
                out.append((t.replace("Custom", ""), inl(c.children)))
            elif t in ("Link", "Image"):
                flush()
                # (C01 reads a title up to whitespace runs; its exact text is C04's business: literal_spans)
                out.append((t, c.dest, c.title if exact_titles or not c.title else _collapse(c.title), inl(c.children)))
            elif t in ("AutoLink", "Url"):
                flush()
                out.append(("autolink", c.dest))
            elif t == "FootnoteRef":
                flush()
                out.append(("fnref", c.label))
            else:
                flush()
                out.append((t, getattr(c, "children", None) if isinstance(getattr(c, "children", None), str) else None))
        flush()
        # whitespace next to a hard break is not significant (the line ends there): trim it
        for k, a in enumerate(out):
            if a[0] == "text":
                t = a[1]
                if k + 1 < len(out) and out[k + 1] == ("hardbreak",):
                    t = t.rstrip()
                if k > 0 and out[k - 1] == ("hardbreak",):
                    t = t.lstrip()
                out[k] = ("text", t)
        out = [a for a in out if a != ("text", "")]
        # merge adjacent text atoms, trim
        merged = []
        for a in out:
            if a[0] == "text" and merged and merged[-1][0] == "text":
                merged[-1] = ("text", _collapse(merged[-1][1] + a[1]))
            else:
                merged.append(a)
        if merged and merged[0][0] == "text":
            merged[0] = ("text", merged[0][1].lstrip())
        if merged and merged[-1][0] == "text":
            merged[-1] = ("text", merged[-1][1].rstrip())
        return tuple(a for a in merged if a != ("text", ""))

    def blk(e):
        t = type(e).__name__
        if t == "BlankLine":
            return None
        if t in ("Paragraph",):
            return ("p", getattr(e, "checked", None), inl(e.children))
        if t in ("Heading", "SetextHeading"):
            return ("h", e.level, inl(e.children))
        if t == "List":
            # (tight/loose is not part of C01's notion of "same document"; C10 covers list spacing)
            return ("list", e.ordered, e.start if e.ordered else None, kids(e))
        if t == "ListItem":
            return ("li", kids(e))
        if t == "Quote":
            return ("quote", kids(e))
        if t == "Alert":
            return ("alert", e.alert_type, kids(e))
        if t in ("FencedCode", "CustomFencedCode", "CodeBlock"):
            return ("code", getattr(e, "lang", "") or "", getattr(e, "extra", "") or "", e.children[0].children.rstrip("\n"))
        if t == "Table":
            return ("table", tuple(_align(d) for d in e.delimiters), kids(e))
        if t == "TableRow":
            return ("tr", kids(e))
        if t == "TableCell":
            return ("td", inl(e.children))
        if t == "ThematicBreak":
            return ("hr",)
        if t == "LinkRefDef":
            return ("linkdef", e.label.lower() if isinstance(e.label, str) else str(e.label), e.dest, e.title)
        if t == "FootnoteDef":
            return ("fndef", e.label, kids(e))
        if t == "HTMLBlock":
            return ("htmlblock", _collapse(e.body))
        return (t,)

    def kids(e):
        return tuple(x for x in (blk(c) for c in e.children) if x is not None)

    def _align(d):
        d = d.strip()
        return (d.startswith(":"), d.endswith(":"))
    return (fm, kids(doc), tuple(sorted((k, v) for k, v in doc.link_ref_defs.items())))


def literal_spans(text):
    """Non-prose spans in document order as flowmark's parser sees them: code blocks (info, lines), code spans,
    inline HTML, link/image destinations and titles, autolinks, link definitions."""
    out = []

    def walk(node):
        if isinstance(node, tuple):
            if node and node[0] == "code" and len(node) == 4:
                out.append(("codeblock", node[1], node[2], node[3]))
            elif node and node[0] == "code" and len(node) == 2:
                out.append(("codespan", node[1]))
            elif node and node[0] == "html":
                out.append(node)
            elif node and node[0] in ("Link", "Image"):
                out.append((node[0], node[1], node[2]))
                walk(node[3])
            elif node and node[0] in ("autolink", "linkdef", "htmlblock"):
                out.append(node)
            else:
                for x in node:
                    walk(x)
    walk(canonical(text, preprocess=False, exact_titles=True)[1])
    return out


OPTION_SETS = [dict(width=w, semantic=s) for w in (88, 20, 8, 4, 1, 0, -1) for s in (False, True)]
