"""Generated directory trees for C17 / C18 (bounded layer); scratch trees live under a temp dir and are removed."""
from __future__ import annotations

import os
import random
import shutil
import subprocess

from .common import *  # noqa: F401,F403

DIRS = ["docs", "sub", "build", "node_modules", ".venv", "src", "a b", "deep", "dist", "vendor", "pkg.egg-info", ".hidden"]
FILES = ["a.md", "b.md", "x.md", "ign.md", "z.tmp.md", "notes.txt", "c.MD", "README.md", "a.mdx", ".hidden.md", "md", "x.md.bak", "UP.Md"]
GITIGNORE_LINES = ["*.tmp.md", "ign.md", "/a.md", "docs/x.md", "sub/", "build/", "!z.tmp.md", "!a.md", "# comment", "", "*.txt",
                   "**/deep/b.md", "x?.md", "/docs/", "b.md", "src/*.md", "!src/a.md", "deep/"]


def make_tree(rnd, root, gitignores=True, symlinks=False, toolignore=False, big=False):
    """returns dict relpath -> kind ('file'|'dir'|'link')"""
    os.makedirs(root)
    entries = {}
    dirs = [""]
    for d in rnd.sample(DIRS, rnd.choice((2, 3, 4))):
        parent = rnd.choice(dirs[:3])
        rel = os.path.join(parent, d) if parent else d
        os.makedirs(os.path.join(root, rel), exist_ok=True)
        dirs.append(rel)
        entries[rel] = "dir"
    for d in dirs:
        for f in rnd.sample(FILES, rnd.choice((1, 2, 4))):
            rel = os.path.join(d, f) if d else f
            size = 5
            if big and rnd.random() < 0.2:
                size = rnd.choice((99, 100, 101, 250))
            with open(os.path.join(root, rel), "w") as fh:
                fh.write("x" * size)
            entries[rel] = "file"
        if gitignores and rnd.random() < 0.6:
            lines = rnd.sample(GITIGNORE_LINES, rnd.choice((1, 2, 3)))
            with open(os.path.join(root, d, ".gitignore"), "w") as fh:
                fh.write("\n".join(lines) + "\n")
        if toolignore and d == "" and rnd.random() < 0.7:
            with open(os.path.join(root, ".flowmarkignore"), "w") as fh:
                if rnd.random() < 0.25:
                    fh.write(rnd.choice(["", "# no rules yet\n", "\n   \n# c\n"]))       # a rule-less file still is the nearest one
                else:
                    fh.write("\n".join(rnd.sample(["ign.md", "docs/", "*.tmp.md", "sub/b.md", "/a.md", "  b.md", "# x.md"], 2)) + "\n")
    if toolignore and rnd.random() < 0.5:
        # an ignore file above the tree: it applies only when the tree's root has none
        with open(os.path.join(os.path.dirname(root), ".flowmarkignore"), "w") as fh:
            fh.write("\n".join(rnd.sample(["x.md", "README.md", "c.MD", "b.md"], 2)) + "\n")
    if symlinks:
        outside = root + "-outside"
        os.makedirs(outside, exist_ok=True)
        with open(os.path.join(outside, "out.md"), "w") as fh:
            fh.write("outside")
        os.makedirs(os.path.join(outside, "odir"), exist_ok=True)
        with open(os.path.join(outside, "odir", "o.md"), "w") as fh:
            fh.write("o")
        try:
            os.symlink(os.path.join(outside, "out.md"), os.path.join(root, "linkfile.md"))
            entries["linkfile.md"] = "link"
            if big:
                with open(os.path.join(outside, "big.md"), "w") as fh:
                    fh.write("x" * 250)
                os.symlink(os.path.join(outside, "big.md"), os.path.join(root, "biglink.md"))
                entries["biglink.md"] = "link"
            os.symlink(os.path.join(outside, "odir"), os.path.join(root, "linkdir"))
            entries["linkdir"] = "link"
            if "a.md" in entries:
                os.symlink("a.md", os.path.join(root, "inner-link.md"))
                entries["inner-link.md"] = "link"
        except OSError:
            pass
    return entries


def git_visible(root):
    """files git would not ignore (tracked or untracked), relative posix paths"""
    env = dict(os.environ, GIT_CONFIG_GLOBAL="/dev/null", GIT_CONFIG_SYSTEM="/dev/null", HOME=root)
    subprocess.run(["git", "init", "-q", root], check=True, env=env, capture_output=True)
    out = subprocess.run(["git", "-C", root, "ls-files", "-co", "--exclude-standard", "-z"], check=True, env=env,
                         capture_output=True).stdout.decode()
    shutil.rmtree(os.path.join(root, ".git"), ignore_errors=True)
    return sorted(p for p in out.split("\0") if p)
