"""C10: ST read/write-set obligations for the list-spacing mode + bounded differential on real documents."""
from __future__ import annotations

import ast
import itertools
import random
import re

from vfcore import static

from .common import *  # noqa: F401,F403

ASSUMPTIONS = [
    "contract R of `render` for child elements (a child render preserves _second_prefix, _list_spacing and "
    "_current_list_tight and consumes the first-line prefix) is assumed for the children and proved for render_list",
    "Marko's element records: List.tight / ordered / start / bullet, children lists (heap model), class hierarchy read "
    "from the live package",
    "that list-spacing modes change nothing but blank lines between items is a 2-run relation over the whole render: "
    "explored in the bounded layer only",
]


def static_obligations(tier):
    """C10/mode.read_set: the list-spacing mode can influence the output only through render_list's tightness
    decision and render_list_item's separator / suppression reset"""
    mods = static.package_modules(include=("flowmark.formats.flowmark_markdown",))
    tree = mods["flowmark.formats.flowmark_markdown"]
    cls = next(n for n in ast.walk(tree) if isinstance(n, ast.ClassDef) and n.name == "MarkdownNormalizer")
    uses = {"_list_spacing": {"read": set(), "write": set()}, "_current_list_tight": {"read": set(), "write": set()}}
    for m in cls.body:
        if not isinstance(m, ast.FunctionDef):
            continue
        for x in ast.walk(m):
            if isinstance(x, ast.Attribute) and x.attr in uses and isinstance(x.value, ast.Name) and x.value.id == "self":
                uses[x.attr]["write" if isinstance(x.ctx, ast.Store) else "read"].add(m.name)
    recs = []

    def rec(name, ok, src, detail):
        recs.append({"oid": "frame/formats.flowmark_markdown:MarkdownNormalizer/%s" % name,
                     "status": "discharged" if ok else "refuted", "src": src, "detail": detail})
    rec("list_spacing.read_only_in_render_list", uses["_list_spacing"]["read"] <= {"render_list"},
        "_list_spacing is read only by render_list", str(sorted(uses["_list_spacing"]["read"])))
    rec("list_spacing.written_only_by_init", uses["_list_spacing"]["write"] <= {"__init__"},
        "_list_spacing is written only by __init__", str(sorted(uses["_list_spacing"]["write"])))
    rec("current_list_tight.read_set", uses["_current_list_tight"]["read"] <= {"render_list", "render_list_item"},
        "_current_list_tight is read only by render_list / render_list_item", str(sorted(uses["_current_list_tight"]["read"])))
    rec("current_list_tight.write_set", uses["_current_list_tight"]["write"] <= {"__init__", "render_list"},
        "_current_list_tight is written only by __init__ / render_list", str(sorted(uses["_current_list_tight"]["write"])))
    # cleanups: doc_cleanups calls only unbold_headings; unbold_headings only transform_tree(doc, _unbold_heading_transformer)
    dc = static.package_modules(include=("flowmark.transforms.doc_cleanups",))["flowmark.transforms.doc_cleanups"]
    fns = {n.name: n for n in dc.body if isinstance(n, ast.FunctionDef)}
    calls = lambda f: sorted({ast.unparse(c.func) for c in ast.walk(fns[f]) if isinstance(c, ast.Call)})
    rec("doc_cleanups.only_unbold", calls("doc_cleanups") == ["unbold_headings"], "doc_cleanups calls only unbold_headings", str(calls("doc_cleanups")))
    rec("unbold_headings.only_transform_tree",
        [ast.unparse(c) for c in ast.walk(fns["unbold_headings"]) if isinstance(c, ast.Call)] == ["transform_tree(doc, _unbold_heading_transformer)"],
        "unbold_headings is transform_tree(doc, _unbold_heading_transformer)", str(calls("unbold_headings")))
    return recs


HEADINGS = ["# **All bold**", "## ***bold italic***", "# **part** bold", "# plain", "**Setext bold**\n===", "# **a** **b**",
            "# *only italic*", "### **bold `code`**", "# __under bold__", "# ***Bold** and more*", "# *it **b** end*", "# ***x** y* z"]
LISTS = ["- a\n- b\n", "- a\n\n- b\n", "1. x\n2. y\n", "- a\n\n  second para\n- b\n", "- a\n  - n1\n  - n2\n- b\n",
         "- a\n\n  - n1\n\n  - n2\n- b\n", "> - q1\n> - q2\n", "[^f]: note\n\n    - fa\n    - fb\n", "- a\n  ```\n  code\n  ```\n- b\n",
         "* a\n* b\n\n+ c\n+ d\n", "> - q1\n>\n> - q2\n", "- a\n\n  > # h\n\n- b\n", "- a\n  > q\n- b\n", "- a\n\n  > [r]: http://x\n\n- b\n",
         "1. x\n\n   > quote\n   >\n\n2. y\n", "> 1. x\n>\n>    more\n> 2. y\n", "- a\n\n  > - in\n  >\n  > - ner\n\n- b\n",
         # items that end in a block which is neither paragraph nor blank line: rule, HTML block, code, table
         "- ***\n\n- b\n", "- ***\n- b\n", "1. x\n   ***\n\n2. y\n", "1. x\n   ***\n2. y\n", "- <div>\n  x\n  </div>\n\n- b\n", "- <div>\n  x\n  </div>\n- b\n",
         "- a\n\n  | t | u |\n  |---|---|\n  | 1 | 2 |\n\n- b\n", "- a\n\n      code\n\n- b\n"]


def list_shapes(text):
    """[(tight as parsed, every item holds a single block)] for every list of the document, in document order"""
    from flowmark.formats.flowmark_markdown import flowmark_markdown
    doc = flowmark_markdown().parse(text)
    out = []

    def walk(e):
        if type(e).__name__ == "List":
            items = [c for c in e.children if type(c).__name__ == "ListItem"]
            single = all(len([b for b in it.children if type(b).__name__ != "BlankLine"]) <= 1 for it in items)
            out.append((bool(e.tight), single))
        ch = getattr(e, "children", None)
        if isinstance(ch, list):
            for c in ch:
                walk(c)
    walk(doc)
    return out


def _count_items(text, k):
    from flowmark.formats.flowmark_markdown import flowmark_markdown
    doc = flowmark_markdown().parse(text)
    counts = []

    def walk(e):
        if type(e).__name__ == "List":
            counts.append(len([c for c in e.children if type(c).__name__ == "ListItem"]))
        ch = getattr(e, "children", None)
        if isinstance(ch, list):
            for c in ch:
                walk(c)
    walk(doc)
    return counts[k] if k < len(counts) else 0


def strip_item_blank_lines(text):
    """canonical view modulo blank lines: drop every blank (or prefix-only) line"""
    return [l for l in text.split("\n") if l.strip(" >") != ""]


def bounded(tier, seed):
    from flowmark.formats.flowmark_markdown import ListSpacing
    from flowmark.reformat_api import reformat_text
    rnd = random.Random(seed)
    viol, evals, distinct = [], 0, set()
    # cleanups: only wholly-bold headings change, and only by losing the bold
    for h in HEADINGS:
        for rest in ("", "\n\nSome **bold** text and a list:\n\n- **x**\n"):
            src = h + rest + "\n"
            off = reformat_text(src, cleanups=False, semantic=False)
            on = reformat_text(src, cleanups=True, semantic=False)
            evals += 1
            distinct.add(off)
            lo, ln = off.split("\n"), on.split("\n")
            if len(lo) != len(ln) or lo[1:] != ln[1:]:
                viol.append({"clause": "cleanups_touch_only_headings", "input": {"text": src}, "got": on, "want": off})
                continue
            m = re.match(r"^(#+) (\*\*\*|\*\*|__)(.*)\2$", lo[0])
            whole = bool(m) and m.group(2) not in m.group(3)
            want = lo[0]
            if whole:
                inner = m.group(3)
                want = "%s %s" % (m.group(1), ("*%s*" % inner) if m.group(2) == "***" else inner)
            if ln[0] != want:
                viol.append({"clause": "unbold_exactly_wholly_bold", "input": {"text": src}, "got": ln[0], "want": want})
    # list spacing: only blank lines between items differ between the modes
    docs = LISTS + [a + "\ntext\n\n" + b for a, b in rnd.sample(list(itertools.product(LISTS, LISTS)), 12 if tier == "quick" else 60)]
    for d in docs:
        outs = {m: reformat_text(d, list_spacing=m, semantic=False, cleanups=False) for m in ListSpacing}
        evals += 3
        distinct.add(outs[ListSpacing.preserve])
        base = strip_item_blank_lines(outs[ListSpacing.preserve])
        for m in (ListSpacing.loose, ListSpacing.tight):
            if strip_item_blank_lines(outs[m]) != base:
                viol.append({"clause": "modes_differ_only_in_blank_lines", "input": {"text": d, "mode": m.value},
                             "got": outs[m], "want": outs[ListSpacing.preserve]})
        if reformat_text(outs[ListSpacing.preserve], list_spacing=ListSpacing.preserve, semantic=False, cleanups=False) != outs[ListSpacing.preserve]:
            viol.append({"clause": "preserve_keeps_as_authored", "input": {"text": d}, "got": outs[ListSpacing.preserve]})
        # tight makes tight exactly the lists whose items each hold a single block; loose makes every list loose
        shapes_in = list_shapes(d)
        shapes_tight, shapes_loose = list_shapes(outs[ListSpacing.tight]), list_shapes(outs[ListSpacing.loose])
        counts = [_count_items(d, k) for k in range(len(shapes_in))]
        # (a list of one item has no separators: whether it re-parses as tight says nothing about the mode)
        if len(shapes_tight) == len(shapes_in) and any(n > 1 and t != single for (t, _), (_, single), n in zip(shapes_tight, shapes_in, counts)):
            viol.append({"clause": "tight_exactly_single_block_lists", "input": {"text": d}, "got": outs[ListSpacing.tight],
                         "want": [single for _, single in shapes_in]})
        if len(shapes_loose) == len(shapes_in) and any(t and n > 1 for (t, _), n in zip(shapes_loose, counts)):
            viol.append({"clause": "loose_makes_all_loose", "input": {"text": d}, "got": outs[ListSpacing.loose]})
        for m, o in outs.items():
            ls = o.split("\n")
            if ls[0].strip(" >") == "":
                viol.append({"clause": "no_stray_separator_lines", "input": {"text": d, "mode": m.value}, "got": o})
        # loose: a blank line between the items of every list; tight: none where every item is a single block
        lo = outs[ListSpacing.loose].split("\n")
        for i in range(1, len(lo)):
            if re.match(r"^[ >]*([-*+]|\d+\.) ", lo[i]) and lo[i - 1].strip(" >") != "" and not re.match(r"^[ >]*([-*+]|\d+\.) +([-*+]|\d+\.) ", lo[i]):
                viol.append({"clause": "loose_separates_items", "input": {"text": d}, "got": outs[ListSpacing.loose]})
                break
        for i in range(1, len(lo)):
            if re.match(r"^[ >]*([-*+]|\d+\.) ", lo[i]) and re.match(r"^[ >]*([-*+]|\d+\.) ", lo[i - 1]) \
                    and len(re.match(r"^[ >]*", lo[i]).group()) == len(re.match(r"^[ >]*", lo[i - 1]).group()):
                viol.append({"clause": "loose_separates_items", "input": {"text": d}, "got": outs[ListSpacing.loose]})
                break
    return {"evaluations": evals, "distinct_nontrivial": len(distinct), "violations": viol,
            "samples": [{"heading": HEADINGS[1]}, {"list": LISTS[4]}],
            "rule": "12 heading shapes x 2 contexts: cleanups on vs off differ only in the heading line and only for wholly-bold "
                    "headings; 17 list shapes (nested, quoted, lists opening a quote, items ending in quotes / headings / link definitions, footnote, multi-block, code) + seeded pairs: the three list-spacing "
                    "modes agree modulo blank lines, preserve is a fixed point, tight mode leaves tight exactly the lists whose items each hold one block (re-parsed), loose mode leaves no multi-item list tight, loose separates sibling items, every item marker line in loose mode follows a separator line, no output starts with a separator line; distinct = distinct "
                    "baseline outputs",
            "exhaustive": False, "bound": "%d documents" % (len(HEADINGS) * 2 + len(docs))}
