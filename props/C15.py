"""C15 bounded layer + replay: every entry point against the text API on the real code."""
from __future__ import annotations

import os
import random
import shutil

from .common import OPTION_DOC, captured, cli_flags, in_dir, option_points, scratch_dir

ASSUMPTIONS = [
    "bounded layer (not proof): CLI main()/reformat_files/reformat_file are run in-process on one option-sensitive "
    "document over the option product; subprocess start-up (the console-script shim) is exercised only in thorough",
    "argparse maps option strings to dests as documented; the file system returns what was written",
]


def entry_points(o, d, doc=OPTION_DOC):
    """Run all entry points for option point o; return {name: bytes-as-str}."""
    from flowmark.cli import main
    from flowmark.reformat_api import reformat_file, reformat_files, reformat_text
    res = {}
    res["text"] = reformat_text(doc, **o)
    src = os.path.join(d, "in.md")
    open(src, "w").write(doc)
    kw = {k: o[k] for k in ("width", "plaintext", "semantic", "cleanups", "smartquotes", "ellipses", "list_spacing")}
    with captured() as (out, _):
        reformat_file(src, None, **kw)
    res["file_api:stdout"] = out.getvalue()
    outp = os.path.join(d, "sub", "out.md")
    reformat_file(src, outp, **kw)
    res["file_api:-o"] = open(outp).read()
    with captured(stdin_text=doc) as (out, _):
        reformat_file("-", "-", **kw)
    res["file_api:stdin"] = out.getvalue()
    ip = os.path.join(d, "ip.md")
    open(ip, "w").write(doc)
    reformat_file(ip, None, inplace=True, **kw)
    res["file_api:inplace"] = open(ip).read()
    res["file_api:inplace.orig"] = open(ip + ".orig").read()
    two_a, two_b = os.path.join(d, "a.md"), os.path.join(d, "b.md")
    open(two_a, "w").write(doc)
    open(two_b, "w").write(doc)
    reformat_files([two_a, two_b], inplace=True, nobackup=True, **kw)
    res["files_api:two_inplace"] = open(two_a).read() + "\x00" + open(two_b).read()
    fl = cli_flags(o)
    with in_dir(d):
        with captured() as (out, _):
            rc = main(fl + [src])
        res["cli:stdout"] = out.getvalue() if rc == 0 else "rc=%d" % rc
        co = os.path.join(d, "cli_out.md")
        # (the property claims -o for stdin input; `-o FILE` with a named input file is rejected by
        # reformat_files as a "multiple files" usage error and is not part of the statement)
        with captured(stdin_text=doc) as (out, _):
            rc = main(fl + ["-o", co, "-"])
        res["cli:stdin-o"] = open(co).read() if rc == 0 else "rc=%d" % rc
        with captured(stdin_text=doc) as (out, _):
            rc = main(fl + ["-"])
        res["cli:stdin"] = out.getvalue() if rc == 0 else "rc=%d" % rc
        # several inputs with stdin among them: each input gets the result it would get alone, in order
        with captured(stdin_text=doc) as (out, _):
            rc = main(fl + ["-", src])
        res["cli:stdin+file"] = out.getvalue() if rc == 0 else "rc=%d" % rc
        ci = os.path.join(d, "cli_ip.md")
        open(ci, "w").write(doc)
        with captured() as (out, _):
            rc = main(fl + ["-i", "--nobackup", ci])
        res["cli:inplace"] = open(ci).read() if rc == 0 else "rc=%d" % rc
        # several plain file arguments: each gets the result it would get alone, in ARGUMENT order (not sorted, none
        # skipped) -- recorded as the text-API result when that holds, so that the generic comparison applies
        zf, af = os.path.join(d, "z_first.md"), os.path.join(d, "a_second.md")
        doc2 = doc + "\nSecond file only, with \"quotes\"... and more.\n"
        open(zf, "w").write(doc)
        open(af, "w").write(doc2)
        with captured() as (out, _):
            rc = main(fl + [zf, af, zf])
        want2 = res["text"] + reformat_text(doc2, **o) + res["text"]
        res["cli:several_files_in_argument_order"] = res["text"] if (rc == 0 and out.getvalue() == want2) else "rc=%s out=%s" % (rc, out.getvalue()[:400])
    return res


def crlf_points(o, d, doc=OPTION_DOC):
    """A file with CRLF line ends through every entry point that reads a file: the bytes written (read back in binary) are those
    of the text API on the same characters -- the line-end convention of the input reaches no output route differently."""
    from flowmark.cli import main
    from flowmark.reformat_api import reformat_file, reformat_files, reformat_text
    raw = doc.replace("\n", "\r\n").encode("utf-8")
    want = reformat_text(doc, **o).encode("utf-8")
    kw = {k: o[k] for k in ("width", "plaintext", "semantic", "cleanups", "smartquotes", "ellipses", "list_spacing")}
    res = {}

    def fresh(name):
        pth = os.path.join(d, name)
        open(pth, "wb").write(raw)
        return pth
    src = fresh("crlf_in.md")
    with captured() as (out, _):
        reformat_file(src, None, **kw)
    res["file_api:stdout"] = out.getvalue().encode("utf-8")
    outp = os.path.join(d, "crlf_out.md")
    reformat_file(src, outp, **kw)
    res["file_api:-o"] = open(outp, "rb").read()
    ip = fresh("crlf_ip.md")
    reformat_file(ip, None, inplace=True, nobackup=True, **kw)
    res["file_api:inplace"] = open(ip, "rb").read()
    ip2 = fresh("crlf_ip2.md")
    reformat_files([ip2], inplace=True, nobackup=True, **kw)
    res["files_api:inplace"] = open(ip2, "rb").read()
    fl = cli_flags(o)
    with in_dir(d):
        with captured() as (out, _):
            rc = main(fl + [src])
        res["cli:stdout"] = out.getvalue().encode("utf-8") if rc == 0 else b"rc=%d" % rc
        ci = fresh("crlf_cli_ip.md")
        with captured() as (out, _):
            rc = main(fl + ["-i", "--nobackup", ci])
        res["cli:inplace"] = open(ci, "rb").read() if rc == 0 else b"rc=%d" % rc
        ca = fresh("crlf_cli_auto.md")
    return want, res


def auto_points(d, doc=OPTION_DOC):
    """--auto == --inplace --nobackup --semantic --cleanups --smartquotes --ellipses"""
    from flowmark.cli import main
    out = []
    for w in (40, 88):
        a, b = os.path.join(d, "auto_a.md"), os.path.join(d, "auto_b.md")
        open(a, "w").write(doc)
        open(b, "w").write(doc)
        with in_dir(d), captured():
            r1 = main(["--auto", "-w", str(w), a])
            r2 = main(["--inplace", "--nobackup", "--semantic", "--cleanups", "--smartquotes", "--ellipses", "-w", str(w), b])
        out.append((w, r1, r2, open(a).read(), open(b).read(), os.path.exists(a + ".orig")))
    return out


def usage_errors(d, doc=OPTION_DOC):
    from flowmark.cli import main
    res = []
    f1, f2 = os.path.join(d, "u1.md"), os.path.join(d, "u2.md")
    for f in (f1, f2):
        open(f, "w").write(doc)
    before = sorted(os.listdir(d))
    with in_dir(d):
        for argv, stdin in ([], None), (["-o", os.path.join(d, "uo.md"), f1, f2], None), (["-i", "-"], doc), (["--auto"], None), \
                (["-o", os.path.join(d, "uo.md"), "-", f1], doc), (["-i", f1, "-"], doc), (["-i", "--nobackup", f1, "-", f2], doc), (["--auto", f1, "-"], doc):
            with captured(stdin_text=stdin) as (out, err):
                rc = main(list(argv))
            res.append({"argv": argv, "rc": rc, "stdout": out.getvalue(),
                        "files_unchanged": sorted(os.listdir(d)) == before and open(f1).read() == doc and open(f2).read() == doc})
    return res


def bounded(tier, seed):
    rnd = random.Random(seed)
    pts = option_points()
    if tier == "quick":
        core = [p for p in pts if p["width"] == 40 and p["list_spacing"].value == "preserve"]
        rest = [p for p in pts if p not in core]
        pts = core + rnd.sample(rest, 24)
    d = scratch_dir("vf-c15-")
    violations = []
    evals = 0
    distinct = set()
    samples = []
    try:
        for o in pts:
            r = entry_points(o, d)
            evals += len(r) - 1
            distinct.add(r["text"])
            for k, v in r.items():
                if k in ("text", "file_api:inplace.orig"):
                    continue
                want = r["text"] if k != "files_api:two_inplace" else r["text"] + "\x00" + r["text"]
                if k == "cli:stdin+file":
                    want = r["text"] + r["text"]
                if v != want:
                    violations.append({"clause": "entry_points_agree", "entry": k,
                                       "input": {kk: (vv.value if hasattr(vv, "value") else vv) for kk, vv in o.items()},
                                       "got": v[:300], "want": want[:300]})
            if r["file_api:inplace.orig"] != OPTION_DOC:
                violations.append({"clause": "backup_holds_old_content", "input": {k: str(v) for k, v in o.items()}})
            if len(samples) < 2:
                samples.append({"options": {kk: (vv.value if hasattr(vv, "value") else vv) for kk, vv in o.items()},
                                "entries": sorted(r)})
        # the same comparison on a document that is already a fixed point of the formatter (nothing to change is not
        # "nothing to output")
        from flowmark.reformat_api import reformat_text as _rt
        for o in pts[:6]:
            fixed = _rt(OPTION_DOC, **o)
            r = entry_points(o, d, doc=fixed)
            evals += len(r) - 1
            for k, v in r.items():
                if k in ("text", "file_api:inplace.orig"):
                    continue
                want = r["text"] if k != "files_api:two_inplace" else r["text"] + "\x00" + r["text"]
                if k == "cli:stdin+file":
                    want = r["text"] + r["text"]
                if v != want:
                    violations.append({"clause": "entry_points_agree", "entry": k, "already_formatted": True,
                                       "input": {kk: (vv.value if hasattr(vv, "value") else vv) for kk, vv in o.items()},
                                       "got": v[:300], "want": want[:300]})
        # a byte-order mark, with and without frontmatter behind it: every entry point sees the same characters
        for o in pts[:3]:
            for doc in ("\ufeff" + OPTION_DOC, "\ufeff---\ntitle: x\n---\n" + OPTION_DOC):
                r = entry_points(o, d, doc=doc)
                evals += len(r) - 1
                for k, v in r.items():
                    if k in ("text", "file_api:inplace.orig"):
                        continue
                    want = r["text"] if k != "files_api:two_inplace" else r["text"] + "\x00" + r["text"]
                    if k == "cli:stdin+file":
                        want = r["text"] + r["text"]
                    if v != want:
                        violations.append({"clause": "entry_points_agree", "entry": k, "bom": True,
                                           "input": {kk: (vv.value if hasattr(vv, "value") else vv) for kk, vv in o.items()},
                                           "got": v[:300], "want": want[:300]})
        # degenerate documents (empty, one line end, blanks only): "nothing to format" takes the same route as everything else
        plain = [p for p in pts if p.get("plaintext")][:1]
        for o in pts[:3] + plain:
            for doc in ("", "\n", "  \n\n"):
                r = entry_points(o, d, doc=doc)
                evals += len(r) - 1
                for k, v in r.items():
                    if k in ("text", "file_api:inplace.orig"):
                        continue
                    want = r["text"] if k != "files_api:two_inplace" else r["text"] + "\x00" + r["text"]
                    if k == "cli:stdin+file":
                        want = r["text"] + r["text"]
                    if v != want:
                        violations.append({"clause": "entry_points_agree", "entry": k, "degenerate_document": repr(doc),
                                           "input": {kk: (vv.value if hasattr(vv, "value") else vv) for kk, vv in o.items()},
                                           "got": v[:300], "want": want[:300]})
        for o in pts[:4]:
            want, r = crlf_points(o, d)
            evals += len(r)
            for k, v in r.items():
                if v != want:
                    violations.append({"clause": "entry_points_agree", "entry": k, "crlf_input": True,
                                       "input": {kk: (vv.value if hasattr(vv, "value") else vv) for kk, vv in o.items()},
                                       "got": v.decode("utf-8", "replace")[:300], "want": want.decode("utf-8")[:300]})
        for w, r1, r2, a, b, orig in auto_points(d):
            evals += 1
            if r1 != 0 or r2 != 0 or a != b or orig:
                violations.append({"clause": "auto_is_preset", "input": {"width": w}, "got": a[:200], "want": b[:200]})
        for u in usage_errors(d):
            evals += 1
            if u["rc"] == 0 or u["stdout"] or not u["files_unchanged"]:
                violations.append({"clause": "usage_error_no_write", "input": {"argv": u["argv"]}, "got": u})
    finally:
        shutil.rmtree(d, ignore_errors=True)
    return {"evaluations": evals, "distinct_nontrivial": len(distinct), "violations": violations, "samples": samples,
            "rule": "option points {width 0/40/88} x 2^5 flags x 3 list-spacings (quick: width-40/preserve slice + 24 seeded "
                    "others; thorough: all 288) x 12 entry points on one option-sensitive document (+ empty / blank-only documents, the same document with a byte-order mark, and with CRLF line ends through the 6 file-reading entry points, compared in binary); distinct = distinct "
                    "text-API outputs",
            "exhaustive": tier == "thorough", "bound": "1 document, 288 option points"}


def replay(rec):
    """Replay a refuted C15 obligation: take the option values of the counter-model and compare every
    entry point of the real code with the text API on the option-sensitive document."""
    from flowmark.formats.flowmark_markdown import ListSpacing
    dec = rec.get("decoded") or {}
    o = {"width": 40, "plaintext": False, "semantic": False, "cleanups": False, "smartquotes": False,
         "ellipses": False, "list_spacing": ListSpacing.preserve}
    for k in list(o):
        if k in dec:
            v = dec[k]
            if k == "width":
                try:
                    o[k] = int(v)
                except ValueError:
                    pass
            elif k == "list_spacing":
                o[k] = ListSpacing[v] if v in ListSpacing.__members__ else o[k]
            else:
                o[k] = (v == "True")
    tried = []
    d = scratch_dir("vf-c15r-")
    try:
        cands = [o] + [dict(o, **{k: not o[k]}) for k in ("semantic", "cleanups", "smartquotes", "ellipses", "plaintext")]
        cands += [dict(o, width=w) for w in (0, 88)] + [dict(o, list_spacing=ls) for ls in ListSpacing]
        for oo in cands:
            r = entry_points(oo, d)
            for k, v in r.items():
                if k in ("text", "file_api:inplace.orig"):
                    continue
                want = r["text"] if k != "files_api:two_inplace" else r["text"] + "\x00" + r["text"]
                if k == "cli:stdin+file":
                    want = r["text"] + r["text"]
                if v != want:
                    return {"reproduced": True, "entry": k, "options": {kk: str(vv) for kk, vv in oo.items()},
                            "document": OPTION_DOC, "got": v[:400], "want": want[:400]}
            tried.append({kk: str(vv) for kk, vv in oo.items()})
    finally:
        shutil.rmtree(d, ignore_errors=True)
    return {"reproduced": False, "tried": tried}
