"""C02 bounded layer: format(format(x)) == format(x) over the document space and all option bits."""
from __future__ import annotations

import itertools
import random

from . import pipeline as P
from .common import *  # noqa: F401,F403

ASSUMPTIONS = [
    "bounded stand-in: idempotence is a 2-run relation through Marko's parser; contracts carry only 'each component maps its "
    "own output to itself' (wrap is a function of the word sequence, input strip/dedent, frontmatter verbatim)",
    "same document space and restrictions as C01 (props/docspace.py); nested lists are a known finding class",
]


def bounded(tier, seed):
    from flowmark.formats.flowmark_markdown import ListSpacing
    rnd = random.Random(seed)
    n = 100 if tier == "quick" else 1000
    fill, sem = [], []
    for w in (88, 20, 6, 0):
        for _ in range(2):
            o = dict(width=w, cleanups=rnd.random() < .5, smartquotes=rnd.random() < .5, ellipses=rnd.random() < .5,
                     list_spacing=rnd.choice(list(ListSpacing)))
            fill.append(dict(o, semantic=False))
            sem.append(dict(o, semantic=True))
    r1 = P.sweep(seed, n, [P.idempotent], option_sets=fill, budget_s=25 if tier == "quick" else 600)
    r2 = P.sweep(seed + 104729, n, [P.idempotent], option_sets=sem, hazards=False, budget_s=20 if tier == "quick" else 600)
    # plaintext
    pv, pe = [], 0
    from . import docspace as D
    for d in D.documents(seed + 3, 40 if tier == "quick" else 400):
        for w in (88, 12, 0):
            out = P.fmt(d, plaintext=True, width=w)
            pe += 1
            if P.fmt(out, plaintext=True, width=w) != out:
                pv.append({"clause": "idempotent", "input": {"text": d, "options": {"plaintext": True, "width": w}, "nested_list": False,
                                                              "semantic": False}, "got": P.fmt(out, plaintext=True, width=w)[:300], "want": out[:300]})
    # typography-rich prose: quotes, apostrophes and dot runs next to soft breaks, all typography on, many widths
    TYPO = ["it's", "John's", "dogs'", "don't", "word", "and", "then", "wait...", "so...", "end...", "(really)", "(so.)", "hmm", "ok.",
            "Really?", "plain", "words", "here", "*He said*", "`code`", "[l](http://u.v)", "**bold**"]
    QUOTED = ['"hello world"', "'single quoted'", '"a"', "'b'"]
    for i in range(30 if tier == "quick" else 300):
        toks = []
        for _ in range(rnd.choice((6, 10, 16))):
            t = rnd.choice(QUOTED) if rnd.random() < 0.15 and (not toks or toks[-1] not in QUOTED) else rnd.choice(TYPO)
            toks.append(t)
        text = "".join(t if k == 0 else (("\n" if rnd.random() < 0.35 else " ") + t) for k, t in enumerate(toks)) + "\n"
        for w in (8, 14, 22, 31, 47, 88):
            for sm in (False, True):
                o = dict(width=w, semantic=sm, smartquotes=True, ellipses=True, cleanups=False)
                out = P.fmt(text, **o)
                pe += 1
                again = P.fmt(out, **o)
                if again != out:
                    pv.append({"clause": "idempotent", "input": {"text": text, "options": o, "nested_list": False, "typography_prose": True},
                               "got": again[:600], "want": out[:600]})
    # every marker word that may land at the start of a wrapped line, at the width that puts it there: the line start is
    # protected on pass 1 exactly when pass 2 would otherwise read it as a block start
    for m in ("-", "+", "*", ">", "#", "##", "###", "####", "#####", "######", "1.", "2)", "10.", "123456789.", "1234567890."):
        for lead in ("aaaa bbbb cccc", "- aaaa bbbb cccc", "> aaaa bbbb"):
            text = "%s %s dddd eeee\n" % (lead, m)
            for w in range(len(lead) + 1, len(lead) + len(m) + 8):
                for sm in (False, True):
                    o = dict(width=w, semantic=sm)
                    out = P.fmt(text, **o)
                    pe += 1
                    again = P.fmt(out, **o)
                    if again != out:
                        pv.append({"clause": "idempotent", "input": {"text": text, "options": o, "nested_list": False, "marker_word": m}, "got": again[:300], "want": out[:300]})
    for v in r1["violations"] + r2["violations"]:
        v["input"]["options"] = {k: (x.value if hasattr(x, "value") else x) for k, x in v["input"]["options"].items()}
    return {"evaluations": r1["evaluations"] + r2["evaluations"] + pe,
            "distinct_nontrivial": r1["distinct_nontrivial"] + r2["distinct_nontrivial"],
            "violations": r1["violations"] + r2["violations"] + pv, "samples": r1["samples"],
            "rule": "(also: 15 marker words behind three leads at every width that puts them at a line start) seeded documents x widths {88,20,6,0} x both wrap modes x seeded typography/cleanup/list-spacing bits, plus "
                    "plaintext mode, plus typography-rich prose (quotes, apostrophes, dot runs next to soft breaks) with smart quotes and ellipses on at 6 widths x both modes: second pass is byte-identical; distinct = distinct first-pass outputs",
            "exhaustive": False, "bound": "%d documents per mode" % n}


def witnesses():
    t = "- a\n- b\n- - c\n\n    d\n  - e\n"
    o1 = P.fmt(t, width=88, semantic=False)
    q1 = P.fmt('x "a" "b" y\n', smartquotes=True, width=88)
    return {"C02-nested-list-spacing": P.fmt(o1, width=88, semantic=False) != o1,
            "C02-adjacent-quotes-second-pass": P.fmt(q1, smartquotes=True, width=88) != q1,
            "C02-reference-label-across-lines": (lambda x: P.fmt(x, width=88, semantic=False) != x)(P.fmt("[foo\nbar]\n\n[foo bar]: /u\n", width=88, semantic=False)),
            "C02-unbold-nested-strong-two-passes": (lambda x: P.fmt(x, width=88, cleanups=True) != x)(P.fmt("### **__y__**\n", width=88, cleanups=True)),
            "C02-tag-then-list-narrow": (lambda x: P.fmt(x, width=4, semantic=False) != x)(P.fmt("a {% t %}\n- b\n", width=4, semantic=False))}
