"""C12 bounded layer: never raises, terminates under a watchdog, well-formed output; pumped timing."""
from __future__ import annotations

import random
import signal
import time

from . import pipeline as P
from .common import *  # noqa: F401,F403

ASSUMPTIONS = [
    "termination and running time of Marko's parser and of the re / regex engines (backtracking) are outside any contract: "
    "explored under a watchdog and by pumped inputs only",
    "no-raise, loop variants and well-formedness obligations are discharged per function under contract; functions not under "
    "contract (tag_handling post-processing, doc_transforms) are covered by the bounded layer only",
]

SOUP = list("*_`[]()<>!#-+=|~\\{}%\"'.:/ \n\t\r") + ["{%", "%}", "<!--", "-->", "```", "~~~", "\r\n", "\x0c", " ", "\x00", "é", "漢", "1.", "- ", "> "]


class Watchdog(Exception):
    pass


def _alarm(*a):
    raise Watchdog()


def bounded(tier, seed):
    from flowmark.formats.flowmark_markdown import ListSpacing
    rnd = random.Random(seed)
    viol, evals, distinct = [], 0, set()
    n = 250 if tier == "quick" else 3000
    signal.signal(signal.SIGALRM, _alarm)
    for i in range(n):
        s = "".join(rnd.choice(SOUP) for _ in range(rnd.choice((3, 10, 40, 120))))
        o = dict(width=rnd.choice((-1, 0, 1, 88, 10 ** 6)), semantic=rnd.random() < .5, cleanups=rnd.random() < .5,
                 smartquotes=rnd.random() < .5, ellipses=rnd.random() < .5, list_spacing=rnd.choice(list(ListSpacing)),
                 plaintext=rnd.random() < .15)
        signal.alarm(10)
        try:
            out = P.fmt(s, **o)
            evals += 1
            distinct.add(out)
            if not o["plaintext"]:
                for v in P.well_formed(s, o, out):
                    v["input"] = {"text": s, "options": {k: str(x) for k, x in o.items()}}
                    viol.append(v)
        except Watchdog:
            viol.append({"clause": "terminates", "input": {"text": s, "options": {k: str(x) for k, x in o.items()}}, "got": "> 10 s"})
        except Exception as e:
            viol.append({"clause": "no_raise", "input": {"text": s, "options": {k: str(x) for k, x in o.items()}}, "got": repr(e)[:200]})
        finally:
            signal.alarm(0)
    # code blocks: blank lines carry no added trailing spaces
    for doc in ("> ```\n> a\n>\n> b\n> ```\n", "- ```\n  a\n\n  b\n  ```\n", "1. > ~~~\n   > x\n   >\n   > y\n   > ~~~\n"):
        out = P.fmt(doc, width=88)
        evals += 1
        for ln in out.split("\n"):
            if ln != ln.rstrip(" ") and ln.strip(" >") == "":
                viol.append({"clause": "code_blank_no_trailing_space", "input": {"text": doc}, "got": out})
    # pumped families (thorough): growth exponent of the running time
    pumped = {}
    if tier == "thorough":
        import math
        for unit in ("`", "[", "{%", "<!--", "*", "_", "> ", "- "):
            ts = []
            for k in (2 ** 6, 2 ** 8, 2 ** 10):
                t0 = time.time()
                signal.alarm(60)
                try:
                    P.fmt(unit * k, width=88)
                except Watchdog:
                    viol.append({"clause": "terminates", "input": {"text": "%r * %d" % (unit, k)}, "got": "> 60 s"})
                finally:
                    signal.alarm(0)
                ts.append(max(time.time() - t0, 1e-4))
                evals += 1
            exp = math.log(ts[-1] / ts[0]) / math.log(2 ** 4)
            pumped[unit] = round(exp, 2)
            if exp > 2.6 and ts[-1] > 2.0:
                viol.append({"clause": "grows_gently", "input": {"text": "%r * k" % unit}, "got": {"times": ts, "exponent": exp}})
    return {"evaluations": evals, "distinct_nontrivial": len(distinct), "violations": viol, "pumped_exponents": pumped,
            "samples": [{"soup": "".join(rnd.choice(SOUP) for _ in range(20))}],
            "rule": "seeded Unicode soup (unbalanced delimiters, control characters, CR/LF mixes, NUL, U+2028) of length 3-120 x "
                    "seeded option sets incl. widths -1/0/1/88/10^6 under a 10 s watchdog: returns, ends in a newline (Markdown "
                    "mode), introduces no NUL; code-block blank lines carry no trailing spaces; thorough: pumped families with a "
                    "fitted growth exponent; distinct = distinct outputs",
            "exhaustive": False, "bound": "%d strings" % n}


def witnesses():
    return {"C12-empty-output": P.fmt("-\t\r\n", width=88) == ""}
