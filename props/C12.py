"""C12 bounded layer: never raises, terminates under a watchdog, well-formed output; pumped timing."""
from __future__ import annotations

import random
import signal
import time

from . import pipeline as P
from .common import *  # noqa: F401,F403

ASSUMPTIONS = [
    "termination and running time of Marko's parser and of the re / regex engines (backtracking) are outside any contract: "
    "explored under a watchdog and by pumped inputs only",
    "no-raise, loop variants and well-formedness obligations are discharged per function under contract; functions not under "
    "contract (tag_handling post-processing, doc_transforms) are covered by the bounded layer only",
]

SOUP = list("*_`[]()<>!#-+=|~\\{}%\"'.:/ \n\t\r") + ["{%", "%}", "<!--", "-->", "```", "~~~", "\r\n", "\x0c", " ", "\x00", "é", "漢", "1.", "- ", "> ",
                                                       "\x00AC0\x00", "\x00AC1\x00", "\x00AC12\x00", "`c d`", "[l k](u)"]


class Watchdog(Exception):
    pass


def _alarm(*a):
    raise Watchdog()


def bounded(tier, seed):
    from flowmark.formats.flowmark_markdown import ListSpacing
    rnd = random.Random(seed)
    viol, evals, distinct = [], 0, set()
    n = 250 if tier == "quick" else 3000
    signal.signal(signal.SIGALRM, _alarm)
    for i in range(n):
        s = "".join(rnd.choice(SOUP) for _ in range(rnd.choice((3, 10, 40, 120))))
        o = dict(width=rnd.choice((-1, 0, 1, 88, 10 ** 6)), semantic=rnd.random() < .5, cleanups=rnd.random() < .5,
                 smartquotes=rnd.random() < .5, ellipses=rnd.random() < .5, list_spacing=rnd.choice(list(ListSpacing)),
                 plaintext=rnd.random() < .3)
        signal.alarm(10)
        try:
            out = P.fmt(s, **o)
            evals += 1
            distinct.add(out)
            if not o["plaintext"]:
                for v in P.well_formed(s, o, out):
                    v["input"] = {"text": s, "options": {k: str(x) for k, x in o.items()}}
                    viol.append(v)
        except Watchdog:
            viol.append({"clause": "terminates", "input": {"text": s, "options": {k: str(x) for k, x in o.items()}}, "got": "> 10 s"})
        except Exception as e:
            viol.append({"clause": "no_raise", "input": {"text": s, "options": {k: str(x) for k, x in o.items()}}, "got": repr(e)[:200]})
        finally:
            signal.alarm(0)
    # degenerate documents: well-formed output on every option set
    for doc in ("---", "---\ntitle: never closed\nkey: value", "---\n", "\n\n---\nk: v", "---\n---", "---\na: b\n---", "x", "#", ">", "|", "```", "[^a]:",
                "- [ ]", "1.", "<!--", "{%", "\\", "***", "  ", "\t", "\r", "a\r\nb", "", "\n\n", "\r\n", "\x0c", "\u00a0", "\u2028",
                "a\\\n\\\nb", "\\\nfoo", "a  \n  \nb", "- x\\\n  \\\n  y", "> a\\\n> \\\n> b", "| a |\n|---|", "| a | b |\n|---|---|\n| 1 |", "[^f]:", "#", "# #", "```\n```",
                "~~~", "1. \n2. ", "* [ ] ", "<b>", "a\u2003b", "{% t %}", "{% t", "<!-- x", "![", "[x](", "**", "`",
                # inline containers inside other inline containers (the typography rewrites walk them)
                "![*em* alt \"q\"](i.png)", "![**s** and [l](u) it's](i.png \"t\")", "# ![~~x~~ y...](i.png)", "| ![*a*](i) | \"b\" |\n|---|---|",
                "[![*badge* 'x'](b.svg)](http://u.v)", "[*em* and `c` \"q\"...](u)", "*a **b ~~c `d` e~~ f** g*... \"h\"", "[^n]: ![*a*](i)\n\nx[^n]"):
        for o in (dict(width=88), dict(width=0, semantic=True), dict(width=1, smartquotes=True, ellipses=True, cleanups=True), dict(width=-5),
                  dict(width=30, semantic=True), dict(width=5, semantic=True, smartquotes=True)):
            try:
                out = P.fmt(doc, **o)
                evals += 1
                if True:        # (an empty or whitespace-only document still yields a newline-terminated output)
                    for v in P.well_formed(doc, o, out):
                        v["input"] = {"text": doc, "options": {k: str(x) for k, x in o.items()}}
                        viol.append(v)
            except Exception as e:
                viol.append({"clause": "no_raise", "input": {"text": doc, "options": {k: str(x) for k, x in o.items()}}, "got": repr(e)[:200]})
    # code blocks: blank lines carry no added trailing spaces
    for doc in ("> ```\n> a\n>\n> b\n> ```\n", "- ```\n  a\n\n  b\n  ```\n", "1. > ~~~\n   > x\n   >\n   > y\n   > ~~~\n"):
        out = P.fmt(doc, width=88)
        evals += 1
        for ln in out.split("\n"):
            if ln != ln.rstrip(" ") and ln.strip(" >") == "":
                viol.append({"clause": "code_blank_no_trailing_space", "input": {"text": doc}, "got": out})
    # growth of the running time on pumped one-paragraph / many-block families that are linear on this tree: quadrupling the
    # input must not multiply the time by much more than four (bounded timing probe; a family is flagged only when the exponent
    # exceeds 1.8 AND the larger run takes over 2 s, and the measurement repeats)
    import math as _math
    light = ["~a ", "word ", "Word. ", "**a** ", "a... ", '"a" ', "it's ", "a_b ", "\\* ", "| a ", "~~a~~ ", "`a` ", "[a](u) ", "<b> ", "{{x}} y ",
             "![i](u) ", "[^f] ", "http://x.y/z ", "a. B ", "(a) ", "a, "]
    heavy = ["1. a\n", "- a\n", "> a\n", "a\n\n", "a  \n", "| a | b |\n"]     # (task items are left out: their exponent is about 1.5 on this tree already)
    growth = {}
    for fam, sizes in [(u, (6000, 24000)) for u in light] + [(u, (1500, 6000)) for u in heavy]:
        for o in (dict(width=88), dict(width=88, semantic=True, smartquotes=True, ellipses=True)):
            for attempt in (0, 1):
                ts = []
                for k in sizes:
                    t0 = time.time()
                    signal.alarm(90)
                    try:
                        P.fmt(fam * k + "\n", **o)
                    except Watchdog:
                        pass
                    except Exception:
                        pass
                    finally:
                        signal.alarm(0)
                    ts.append(max(time.time() - t0, 1e-4))
                    evals += 1
                exp = _math.log(ts[1] / ts[0]) / _math.log(sizes[1] / sizes[0])
                if not (exp > 1.8 and ts[1] > 2.0):
                    break
            growth["%r/%s" % (fam, "sem" if o.get("semantic") else "fill")] = round(exp, 2)
            if exp > 1.8 and ts[1] > 2.0:
                viol.append({"clause": "grows_gently", "input": {"text": "%r * %d" % (fam, sizes[1]), "options": o, "pumped": fam},
                             "got": {"times": [round(t, 3) for t in ts], "sizes": list(sizes), "exponent": round(exp, 2)}})
    # pumped families (thorough): growth exponent of the running time
    pumped = {}
    if tier == "thorough":
        import math
        for unit in ("`", "[", "{%", "<!--", "*", "_", "> ", "- "):
            ts = []
            sizes = (2 ** 6, 2 ** 8, 2 ** 10) if unit != "> " else (18, 20, 22)     # nested quotes: see C12-marko-nested-quote-exponential
            for k in sizes:
                t0 = time.time()
                signal.alarm(60)
                try:
                    P.fmt(unit * k + ("x\n" if unit in ("> ", "- ") else ""), width=88)
                except Watchdog:
                    viol.append({"clause": "terminates", "input": {"text": "%r * %d" % (unit, k), "pumped": unit}, "got": "> 60 s"})
                except Exception as e:
                    viol.append({"clause": "no_raise", "input": {"text": "%r * %d" % (unit, k), "pumped": unit}, "got": repr(e)[:200]})
                finally:
                    signal.alarm(0)
                ts.append(max(time.time() - t0, 1e-4))
                evals += 1
            exp = math.log(ts[-1] / ts[0]) / math.log(sizes[-1] / sizes[0])
            pumped[unit] = round(exp, 2)
            if exp > 2.6 and ts[-1] > (2.0 if unit != "> " else 0.1):
                viol.append({"clause": "grows_gently", "input": {"text": "%r * k" % unit, "pumped": unit}, "got": {"times": ts, "exponent": exp}})
    return {"evaluations": evals, "distinct_nontrivial": len(distinct), "violations": viol, "pumped_exponents": pumped, "growth_exponents": growth,
            "samples": [{"soup": "".join(rnd.choice(SOUP) for _ in range(20))}],
            "rule": "seeded Unicode soup (unbalanced delimiters, control characters, CR/LF mixes, NUL, U+2028, look-alikes of the internal placeholder tokens) of length 3-120 x "
                    "seeded option sets incl. widths -1/0/1/88/10^6 under a 10 s watchdog: returns, ends in a newline (Markdown "
                    "mode), introduces no NUL; 60 degenerate documents (incl. images / links whose text holds emphasis, links or code) (empty and whitespace-only ones, consecutive hard breaks, ragged tables, lone delimiters) (unclosed / empty frontmatter, lone delimiters) x 6 option sets likewise; code-block blank lines carry no trailing spaces; quick and thorough: the running time on 27 pumped families of two sizes (x4) in fill and semantic mode grows with an exponent <= 1.8 (bounded timing probe, repeated before it is reported); thorough: pumped families with a "
                    "fitted growth exponent; distinct = distinct outputs",
            "exhaustive": False, "bound": "%d strings" % n}


def _raises_recursion():
    try:
        P.fmt("- " * 400 + "x\n", width=88)
        return False
    except RecursionError:
        return True


def _quote_doubling():
    import time as _t
    ts = []
    for k in (17, 21):
        t0 = _t.process_time()
        P.fmt("> " * k + "x\n", width=88)
        ts.append(max(_t.process_time() - t0, 1e-4))
    return ts[1] > 6 * ts[0]          # 4 more levels: 16x on this tree; linear growth would give ~1.2x


def _footnote_tab_hangs():
    signal.signal(signal.SIGALRM, _alarm)
    signal.alarm(2)
    try:
        P.fmt("[^fn]:\tccc\n", width=88)
        return False
    except Watchdog:
        return True
    finally:
        signal.alarm(0)


def witnesses():
    return {"C12-marko-footnote-tab-hang": _footnote_tab_hangs(),
            "C12-marko-deep-nesting-recursion": _raises_recursion(),
            "C12-marko-nested-quote-exponential": _quote_doubling()}


# ---- ST obligations: every regex of the package is free of nested unbounded quantifiers -------------------------------
def package_patterns():
    """{(module, name): (pattern text, flags)}: compiled module-level patterns, AtomicPattern records and literal
    re.compile / re.sub ... pattern arguments in the source (patterns assembled at run time inside functions are not seen)."""
    import ast
    import glob
    import importlib
    import inspect
    import os
    import re
    import flowmark
    root = flowmark.__path__[0]
    pats = {}
    for f in sorted(glob.glob(root + "/**/*.py", recursive=True)):
        name = ("flowmark." + os.path.relpath(f, root)[:-3].replace("/", ".")).removesuffix(".__init__")
        if name.endswith("__main__"):
            continue
        try:
            mod = importlib.import_module(name)
        except Exception:
            continue
        for k, v in vars(mod).items():
            if isinstance(v, re.Pattern) and isinstance(v.pattern, str):
                pats[(name, k)] = (v.pattern, v.flags)
            elif type(v).__name__ == "AtomicPattern":
                pats[(name, k)] = (v.pattern, 0)
            elif type(v).__module__.startswith("regex") and hasattr(v, "pattern"):
                pats[(name, k)] = (v.pattern, 0)
        try:
            tree = ast.parse(inspect.getsource(mod))
        except Exception:
            continue
        for n in ast.walk(tree):
            if isinstance(n, ast.Call) and isinstance(n.func, ast.Attribute) and isinstance(n.func.value, ast.Name) \
                    and n.func.value.id in ("re", "regex") and n.args and isinstance(n.args[0], ast.Constant) \
                    and isinstance(n.args[0].value, str) and n.func.attr in ("compile", "sub", "match", "search", "fullmatch",
                                                                              "split", "findall", "finditer", "subn"):
                pats.setdefault((name, "literal@%s" % n.func.attr + ":" + n.args[0].value[:24]), (n.args[0].value, 0))
    return pats


def _parse_pattern(p, flags):
    import re
    import re._parser as sp
    p2 = re.sub(r"\\[pP]\{[^}]*\}", r"\\w", p)       # `regex`-module classes: the structure is what matters here
    return sp.parse(p2, flags & (re.I | re.M | re.S | re.X | re.A))


def static_obligations(tier):
    from vfcore import relang
    recs = []
    for (mod, name), (p, flags) in sorted(package_patterns().items()):
        oid = "regex/%s:%s/no_nested_unbounded_quantifier" % (mod.replace("flowmark.", ""), name)
        try:
            hz = relang.nested_quantifier_hazards(_parse_pattern(p, flags))
        except Exception as e:
            recs.append({"oid": oid, "status": "unknown", "src": p[:200], "detail": "pattern not parsed: %r" % e})
            continue
        recs.append({"oid": oid, "status": "refuted" if hz else "discharged",
                     "src": "no unbounded repeat has a body alternative that is itself an unbounded repeat (up to nullable "
                            "neighbours): matching cannot split one run over iterations in exponentially many ways",
                     "detail": ("%s in %r" % (hz[0][0], p[:300])) if hz else p[:120]})
        # the wider syntactic class -- an unbounded repeat whose body holds an inner unbounded repeat anywhere, e.g.
        # (?:\{%.*?%\}|\s)+ where the lazy dot can run over the next iteration's delimiters -- is not decided by the shape
        # alone: probed empirically (bounded: pumped inputs of 12 / 16 / 20 repetitions, three match APIs, 2 s budget)
        import re as _re
        p2 = _re.sub(r"\\[pP]\{[^}]*\}", r"\\w", p)
        fl = flags & (_re.I | _re.M | _re.S | _re.X | _re.A)
        try:
            if relang.repeated_bodies_with_inner_repeat(p2, fl):
                w = relang.pumped_timing(p2, fl)
                recs.append({"oid": "regex/%s:%s/pumped_repeat_matches_in_time" % (mod.replace("flowmark.", ""), name),
                             "status": "refuted" if w else "discharged",
                             "src": "(bounded probe) matching a pumped body of a repeat that holds an inner repeat does not blow up",
                             "detail": repr(w) if w else "no super-linear growth up to 20 repetitions"})
        except Exception as e:
            recs.append({"oid": "regex/%s:%s/pumped_repeat_matches_in_time" % (mod.replace("flowmark.", ""), name), "status": "unknown",
                         "src": p[:200], "detail": "probe failed: %r" % e})
    return recs


def replay(rec):
    """failed regex obligation -> pumped input on which the real formatter does not return in time"""
    if not rec.get("oid", "").startswith("regex/"):
        return None
    import re
    from vfcore import relang
    key = rec["oid"][len("regex/"):].rsplit("/", 1)[0]
    for (mod, name), (p, flags) in package_patterns().items():
        if "%s:%s" % (mod.replace("flowmark.", ""), name) != key:
            continue
        p2 = re.sub(r"\\[pP]\{[^}]*\}", r"\\w", p)
        signal.signal(signal.SIGALRM, _alarm)
        if rec["oid"].endswith("/pumped_repeat_matches_in_time"):
            w = relang.pumped_timing(p2, flags & (re.I | re.M | re.S | re.X | re.A))
            if not w:
                return {"reproduced": False}
            for text in (w["pump"] * 34 + " and some text\n", "x " + w["pump"] * 34 + " and some text\n", w["pump"] * 34 + "\n\n- a\n"):
                for o in (dict(width=88), dict(width=88, semantic=True)):
                    signal.alarm(8)
                    try:
                        P.fmt(text, **o)
                        done = True
                    except Watchdog:
                        done = False
                    finally:
                        signal.alarm(0)
                    if not done:
                        return {"reproduced": True, "input": {"text": text, "options": o},
                                "got": "reformat_text did not return within 8 s on %d characters; pattern alone (%s): %s s for 12 / 16 / 20 repetitions"
                                       % (len(text), w["api"], w["times"]), "expected": "terminates, time growing gently"}
            return {"reproduced": False}
        for fam in relang.attack_strings(p2, flags & (re.I | re.M | re.S | re.X | re.A), ks=(14, 18, 22, 40)):
            ts = []
            for s in fam[:3]:
                t0 = time.time()
                signal.alarm(20)
                try:
                    re.search(p2, s, flags & (re.I | re.M | re.S | re.X | re.A))
                except Watchdog:
                    pass
                finally:
                    signal.alarm(0)
                ts.append(max(time.time() - t0, 1e-5))
            if not (ts[2] > 8 * ts[1] > 64 * ts[0] * 0.5 and ts[2] > 0.02):
                continue
            for o in (dict(width=88), dict(width=88, plaintext=True)):
                signal.alarm(8)
                t0 = time.time()
                try:
                    P.fmt(fam[3] + "\n", **o)
                    done = True
                except Watchdog:
                    done = False
                finally:
                    signal.alarm(0)
                if not done:
                    return {"reproduced": True, "input": {"text": fam[3] + "\n", "options": o},
                            "got": "reformat_text did not return within 8 s on %d characters; pattern alone: %s s for %s chars"
                                   % (len(fam[3]), [round(t, 4) for t in ts], [len(s) for s in fam[:3]]),
                            "expected": "terminates, time growing gently"}
        return {"reproduced": False}
    return {"reproduced": False}
