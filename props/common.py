"""Shared helpers of the bounded layer (always labelled *bounded*; never counted as proved)."""
from __future__ import annotations

import contextlib
import io
import os
import random
import shutil
import sys
import tempfile

from vfcore import extract

extract.ensure_repo_on_path()


def scratch_dir(prefix="vf-"):
    return tempfile.mkdtemp(prefix=prefix)


@contextlib.contextmanager
def in_dir(path):
    old = os.getcwd()
    os.chdir(path)
    try:
        yield
    finally:
        os.chdir(old)


@contextlib.contextmanager
def captured(stdin_text=None):
    out, err = io.StringIO(), io.StringIO()
    old = sys.stdout, sys.stderr, sys.stdin
    sys.stdout, sys.stderr = out, err
    if stdin_text is not None:
        sys.stdin = io.StringIO(stdin_text)
    try:
        yield out, err
    finally:
        sys.stdout, sys.stderr, sys.stdin = old


OPTION_DOC = """---
title: "T"
---
# **Bold Heading**

This is the first sentence of a paragraph that is long enough to be wrapped at forty columns. Here is "another" one... and it's got quotes.

- tight a
- tight b

1. loose one

2. loose two

```
code "stays" ... here
```
"""


def cli_flags(o):
    fl = ["-w", str(o["width"])]
    for k, f in (("plaintext", "-p"), ("semantic", "-s"), ("cleanups", "-c"), ("smartquotes", "--smartquotes"),
                 ("ellipses", "--ellipses")):
        if o[k]:
            fl.append(f)
    fl += ["--list-spacing", o["list_spacing"].value if hasattr(o["list_spacing"], "value") else o["list_spacing"]]
    return fl


def option_points(widths=(0, 40, 88)):
    from flowmark.formats.flowmark_markdown import ListSpacing
    pts = []
    for w in widths:
        for bits in range(32):
            for ls in ListSpacing:
                pts.append({"width": w, "plaintext": bool(bits & 1), "semantic": bool(bits & 2),
                            "cleanups": bool(bits & 4), "smartquotes": bool(bits & 8), "ellipses": bool(bits & 16),
                            "list_spacing": ls})
    return pts
