"""C07 bounded layer: frontmatter x body x options on the real reformat_text."""
from __future__ import annotations

import itertools
import random

from .common import *  # noqa: F401,F403

ASSUMPTIONS = [
    "bounded layer: frontmatter lines from a 26-item pool (quotes, dots, Markdown syntax, trailing spaces, blank lines, the "
    "eight non-LF line boundaries and a lone CR inside values), 1-3 lines; 6 bodies; seeded option sets",
    "bodies whose first line is itself '---' are excluded from the independence check (formatted alone they are frontmatter)",
    "Marko's parse/render and preprocess_tag_block_spacing are uninterpreted in the contract (re-attachment is proved around them)",
]

FM_LINES = ['title: "T"', "a: 'b'", "x: 1.5.", "list: [a, b]", "# not a heading", "- item", "k: v   ", "", "  ", "* * *",
            "u: a b", "f: a\x0cb", "v: a\x0bb", "n: a\x85b", "p: a b", "g: a\x1cb\x1dc\x1ed", "r: a\rb", "t: a\tb\u00a0c", "long: " + "word " * 30,
            "q: \"it's ... \\\"x\\\"\"",
            # lines that merely start with (or contain) three dashes are content, not the closing delimiter
            "---------- section ----------", "--- !ruby/object:Foo", "----", "k: --- v", "--- # comment", "---x"]
BODIES = ["# **H**\n\nSome \"text\"... here that is long enough to be wrapped somewhere around forty columns ok.\n",
          "- a\n- b\n", "para one\n\npara two\n", "", "\n\n", "text with sep\n"]


def bounded(tier, seed):
    from flowmark.formats.flowmark_markdown import ListSpacing
    from flowmark.reformat_api import reformat_text
    rnd = random.Random(seed)
    n = 120 if tier == "quick" else 900
    viol, evals, distinct, samples = [], 0, set(), []
    for i in range(n):
        k = rnd.choice((0, 1, 2, 3))
        inner = [rnd.choice(FM_LINES) for _ in range(k)]
        inner = [l for l in inner if l.strip() != "---"]
        nl = rnd.choice(("\n", "\r\n"))
        lead = rnd.choice(("", "", "\n", "\n\n", nl, "  " + nl, " \t" + nl + nl))
        opener = rnd.choice(("---", "---", "---", " ---", "---  ", "  ---\t"))
        closer = rnd.choice(("---", "---", "---  ", " ---"))
        fm_src = lead + nl.join([opener] + inner + [closer]) + nl
        fm_want = "\n".join([opener] + inner + [closer]) + "\n"
        body = rnd.choice(BODIES)
        o = dict(width=rnd.choice((0, 40, 88)), semantic=rnd.random() < .5, cleanups=rnd.random() < .5,
                 smartquotes=rnd.random() < .5, ellipses=rnd.random() < .5, list_spacing=rnd.choice(list(ListSpacing)))
        out = reformat_text(fm_src + body, **o)
        evals += 1
        distinct.add((tuple(inner), body, nl))
        inp = {"frontmatter": fm_src, "body": body, "options": {kk: str(v) for kk, v in o.items()}}
        if not out.startswith(fm_want):
            viol.append({"clause": "frontmatter_verbatim", "input": inp, "got": out[:len(fm_want) + 20], "want": fm_want})
            continue
        rest = out[len(fm_want):]
        if body.strip():
            alone = reformat_text(body, **o)
            if rest != alone:
                viol.append({"clause": "body_independent", "input": inp, "got": rest[:200], "want": alone[:200]})
        if reformat_text(out, **o) != out:
            viol.append({"clause": "idempotent_with_frontmatter", "input": inp, "got": reformat_text(out, **o)[:200], "want": out[:200]})
        if len(samples) < 2:
            samples.append(inp)
    # unclosed opening '---': unchanged apart from a final newline, however often
    for inner in itertools.product(FM_LINES[:8], repeat=2):
        for tail in ("", "\n", "\n\n"):
            src = "---\n" + "\n".join(inner) + tail
            if any(l.strip() == "---" for l in inner):
                continue
            o1 = reformat_text(src, width=40, semantic=True, smartquotes=True, ellipses=True)
            o2 = reformat_text(o1, width=40, semantic=True, smartquotes=True, ellipses=True)
            evals += 1
            if o1 not in (src, src + "\n") or o2 != o1:
                viol.append({"clause": "unclosed_unchanged", "input": {"text": src}, "got": [o1, o2]})
    return {"evaluations": evals, "distinct_nontrivial": len(distinct), "violations": viol, "samples": samples,
            "rule": "seeded frontmatter blocks (0-3 lines from a 26-item pool incl. lines that only start with '---', U+2028/2029, FF, VT, FS/GS/RS, NEL, lone CR, TAB, NBSP, quotes, "
                    "Markdown syntax, trailing spaces, blank lines; LF or CRLF; optional leading blank / whitespace-only lines in LF or CRLF, delimiter lines with surrounding blanks) x 6 bodies x seeded "
                    "option sets: output starts with the block (CRLF->LF only), the rest equals format(body), idempotent; every pair "
                    "of 8 lines as an unclosed block x 3 endings: unchanged up to a final newline, twice; distinct = distinct "
                    "(frontmatter lines, body, newline style)",
            "exhaustive": False, "bound": "%d seeded documents + 192 unclosed blocks" % n}
