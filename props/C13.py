"""C13: frame obligations (ST, decided by syntactic write-set computation over the real ASTs) and
the bounded history / thread exploration."""
from __future__ import annotations

import hashlib
import random
import threading

from vfcore import static

from .common import *  # noqa: F401,F403

ASSUMPTIONS = [
    "L-frame-serial (if no call writes state that outlives it, every history and every interleaving at call granularity "
    "gives the solo result) is a meta-lemma about the language semantics; it is not machine-checked",
    "Marko, regex, re, textwrap keep no state between calls that flowmark's render path reads (Marko's Renderer.__enter__ "
    "patches html._charref for the duration of a render; nothing on flowmark's path calls html.unescape) — assumed, watched "
    "by the bounded layer",
    "ST obligations are syntactic: writes through aliases of shared objects obtained from dependencies are not tracked",
]

EXCLUDE = ("flowmark.cli", "flowmark.config", "flowmark.file_resolver", "flowmark.skill")


def static_obligations(tier):
    mods = static.package_modules(exclude=EXCLUDE)
    recs = static.frame_obligations(mods) + static.cache_obligations(mods)
    recs += static.init_covers_reads("flowmark.formats.flowmark_markdown", "MarkdownNormalizer", mods)
    recs += fresh_per_call(mods["flowmark.formats.flowmark_markdown"])
    return recs


def fresh_per_call(tree):
    """flowmark_markdown() builds new classes and a new instance on every call; FlowmarkMarkdown._setup_extensions
    (which Marko calls at the start of every parse() and render()) unconditionally installs a new CustomParser() and a
    new CustomRenderer(): no early return, no guard on _setup_done."""
    import ast
    recs = []

    def rec(name, ok, src, detail=""):
        recs.append({"oid": "frame/formats.flowmark_markdown:%s" % name, "status": "discharged" if ok else "refuted",
                     "src": src, "detail": detail})
    fm = next(n for n in tree.body if isinstance(n, ast.FunctionDef) and n.name == "flowmark_markdown")
    classes = [n for n in fm.body if isinstance(n, ast.ClassDef)]
    rets = [n for n in ast.walk(fm) if isinstance(n, ast.Return) and n.value is not None and not _inside_class(fm, n)]
    rec("flowmark_markdown/returns_fresh_instance",
        len(rets) == 1 and isinstance(rets[0].value, ast.Call) and isinstance(rets[0].value.func, ast.Name)
        and rets[0].value.func.id in {c.name for c in classes},
        "returns a newly constructed instance of a class defined inside the call", ast.unparse(rets[0]) if rets else "no return")
    fmk = next((c for c in classes if c.name == "FlowmarkMarkdown"), None)
    se = next((m for m in (fmk.body if fmk else []) if isinstance(m, ast.FunctionDef) and m.name == "_setup_extensions"), None)
    if se is None:
        rec("_setup_extensions/exists", False, "FlowmarkMarkdown._setup_extensions exists")
        return recs
    has_return = any(isinstance(n, ast.Return) for n in ast.walk(se))
    reads_done = any(isinstance(n, ast.Attribute) and n.attr == "_setup_done" and isinstance(n.ctx, ast.Load) for n in ast.walk(se))
    rec("_setup_extensions/no_early_return", not has_return and not reads_done,
        "no return statement and no read of _setup_done (every parse()/render() gets fresh objects)")
    top = {ast.unparse(s) for s in se.body}
    new_parser = any(isinstance(s, ast.Assign) and isinstance(s.value, ast.Call) and ast.unparse(s.value.func) == "CustomParser"
                     for s in se.body)
    sets_parser = any(isinstance(s, (ast.Assign, ast.AnnAssign)) and ast.unparse(s.targets[0] if isinstance(s, ast.Assign) else s.target) == "self.parser"
                      for s in se.body)
    sets_renderer = any(isinstance(s, (ast.Assign, ast.AnnAssign)) and ast.unparse(s.targets[0] if isinstance(s, ast.Assign) else s.target) == "self.renderer"
                        and isinstance(s.value, ast.Call) and ast.unparse(s.value.func) == "CustomRenderer" for s in se.body)
    rec("_setup_extensions/fresh_parser", new_parser and sets_parser, "unconditionally assigns self.parser from a new CustomParser()")
    rec("_setup_extensions/fresh_renderer", sets_renderer, "unconditionally assigns self.renderer = CustomRenderer()")
    return recs


def _inside_class(fn, node):
    import ast
    for c in ast.walk(fn):
        if isinstance(c, ast.ClassDef) and any(x is node for x in ast.walk(c)):
            return True
    return False


DOCS = [
    "# T\n\nPara one with \"quotes\"... and more text that is long enough to wrap at a narrow width for sure.\n\n[a]: http://x.y 'T'\n\nSee [a].\n",
    "- a\n- b\n\n  c\n\n1. x\n2. y\n\n> quote\n> more\n\n[^n]: note\n\nText[^n].\n",
    "{% tag %}\n- item\n{% /tag %}\n\n| a | b |\n|---|:-:|\n| 1 | 2 |\n",
    "Heading\n===\n\n```py\ncode\n```\n\n* * *\n\n**bold** *em* `code` <b>html</b>\n",
]


def opts(rnd):
    from flowmark.formats.flowmark_markdown import ListSpacing
    return dict(width=rnd.choice((0, 20, 40, 88)), semantic=rnd.random() < .5, cleanups=rnd.random() < .5,
                smartquotes=rnd.random() < .5, ellipses=rnd.random() < .5, list_spacing=rnd.choice(list(ListSpacing)),
                plaintext=rnd.random() < .15)


def module_state():
    import sys
    h = hashlib.sha256()
    for name in sorted(m for m in sys.modules if m == "flowmark" or m.startswith("flowmark.")):
        mod = sys.modules[name]
        for k, v in sorted(vars(mod).items()):
            if k.startswith("__") or callable(v) or isinstance(v, type(sys)):
                continue
            try:
                h.update(("%s.%s=%r" % (name, k, v)).encode())
            except Exception:
                pass
    return h.hexdigest()


def bounded(tier, seed):
    from flowmark.reformat_api import reformat_text
    rnd = random.Random(seed)
    cases = [(d, opts(rnd)) for d in DOCS for _ in range(4 if tier == "quick" else 12)]
    solo = [reformat_text(d, **o) for d, o in cases]
    viol, evals = [], 0
    st0 = module_state()
    # histories: random prefixes of other calls before each case
    for i, (d, o) in enumerate(cases):
        for _ in range(2 if tier == "quick" else 6):
            for j in rnd.sample(range(len(cases)), 3):
                reformat_text(*[cases[j][0]], **cases[j][1])
            r = reformat_text(d, **o)
            evals += 1
            if r != solo[i]:
                viol.append({"clause": "history_independent", "input": {"doc": d, "options": {k: str(v) for k, v in o.items()}},
                             "got": r[:300], "want": solo[i][:300]})
    if module_state() != st0:
        viol.append({"clause": "module_state_unchanged", "input": {}, "got": "module attributes changed after calls"})
    # threads under a small switch interval
    import sys
    old = sys.getswitchinterval()
    sys.setswitchinterval(1e-6)
    try:
        results = {}

        def worker(k):
            out = []
            for i in range(k, len(cases), 4):
                out.append((i, reformat_text(cases[i][0], **cases[i][1])))
            results[k] = out
        for rep in range(2 if tier == "quick" else 8):
            ts = [threading.Thread(target=worker, args=(k,)) for k in range(4)]
            [t.start() for t in ts]
            [t.join() for t in ts]
            for k in range(4):
                for i, r in results[k]:
                    evals += 1
                    if r != solo[i]:
                        viol.append({"clause": "thread_independent", "input": {"doc": cases[i][0],
                                     "options": {kk: str(v) for kk, v in cases[i][1].items()}}, "got": r[:300], "want": solo[i][:300]})
    finally:
        sys.setswitchinterval(old)
    return {"evaluations": evals, "distinct_nontrivial": len(set(solo)), "violations": viol,
            "samples": [{"doc": cases[0][0][:80], "options": {k: str(v) for k, v in cases[0][1].items()}}],
            "rule": "4 structurally different documents (link definitions, footnotes, lists, tags, tables, code) x seeded option sets: "
                    "each case after random prefixes of other calls, and in 4 threads under a 1 us switch interval, must equal its "
                    "solo result; module attributes hashed before/after; distinct = distinct solo outputs",
            "exhaustive": False, "bound": "%d cases" % len(cases)}
