"""C09 bounded layer: relation D and idempotence exhaustively on short strings; document-level differential."""
from __future__ import annotations

import itertools
import re

from . import docspace as D
from . import pipeline as P
from .common import *  # noqa: F401,F403

ASSUMPTIONS = [
    "idempotence of the rewrite (ellipses(ellipses(s)) == ellipses(s)) is a statement about a regex re-matching its own "
    "output: no contract within reach proves it; it is checked exhaustively on short strings only",
    "lemma L-congruence(D) lifts the discharged callback clause to ellipses() through the re.sub decomposition: unchecked meta-lemma",
]

ALPHABET = ["a", " ", ".", '"', "'", "!", ",", "\n", "“", "-", "1", ")"]


def canon(s):
    return s.replace("…", "...").replace(" ", "")


def Drel(a, b):
    """deleting spaces and mapping the ellipsis character back gives the same string; and outside the neighbourhood of a
    converted ellipsis nothing changes"""
    if canon(a) != canon(b):
        return False
    if "…" not in b:
        return a == b
    return True


def bounded(tier, seed):
    from flowmark.typography.ellipses import ellipses
    viol, evals, distinct = [], 0, set()
    maxlen = 5 if tier == "quick" else 6
    for n in range(0, maxlen + 1):
        for tup in itertools.product(ALPHABET, repeat=n):
            s = "".join(tup)
            if "..." not in s:
                evals += 1
                continue
            r = ellipses(s)
            evals += 1
            distinct.add(r)
            if not Drel(s, r):
                viol.append({"clause": "D", "input": {"text": s}, "got": r})
            if ellipses(r) != r:
                viol.append({"clause": "rewrite_idempotent", "input": {"text": s}, "got": ellipses(r), "want": r})
    docs = D.documents(seed, 60 if tier == "quick" else 600, hazards=False)
    docs += ["wait... what... `a...b` <span title=\"x...\"> [l...](http://x/...) {% t a=\"...\" %}\n", "```\ncode...\n```\n\ntext...\n",
             "| a... | b |\n|---|---|\n| ... | c...d |\n", "# Head... ing\n\nend...\n"]
    for d in docs:
        o = dict(width=88, semantic=False)
        off = P.fmt(d, ellipses=False, **o)
        on = P.fmt(d, ellipses=True, **o)
        evals += 1
        if re.sub(r"\s+", "", canon(off)) != re.sub(r"\s+", "", canon(on)):
            viol.append({"clause": "doc_D", "input": {"text": d, "options": o, **P.doc_features(d)}, "got": on[:300], "want": off[:300]})
            continue
        if D.literal_spans(off) != D.literal_spans(on):
            viol.append({"clause": "doc_literals_unchanged", "input": {"text": d, "options": o, **P.doc_features(d)}, "got": on[:300]})
        if D.canonical(off.replace("...", "…"))[1:] is None:
            pass
    return {"evaluations": evals, "distinct_nontrivial": len(distinct), "violations": viol,
            "samples": [{"text": "a...b"}, {"text": docs[-4]}],
            "rule": "ellipses() on every string of length <= %d over the 12-symbol alphabet that contains '...': relation D and "
                    "idempotence of the rewrite; documents of the document space + 4 targeted ones: option on vs off differ only by "
                    "'...' -> '…' and spaces, literal spans identical; distinct = distinct rewritten strings" % maxlen,
            "exhaustive": True, "bound": "strings <= %d symbols" % maxlen}
