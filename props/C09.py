"""C09 bounded layer: relation D and idempotence exhaustively on short strings; document-level differential."""
from __future__ import annotations

import itertools
import re

from . import docspace as D
from . import pipeline as P
from .common import *  # noqa: F401,F403

ASSUMPTIONS = [
    "idempotence of the rewrite (ellipses(ellipses(s)) == ellipses(s)) is a statement about a regex re-matching its own "
    "output: no contract within reach proves it; it is checked exhaustively on short strings only",
    "lemma L-congruence(D) lifts the discharged callback clause to ellipses() through the re.sub decomposition: unchecked meta-lemma",
]

ALPHABET = ["a", " ", ".", '"', "'", "!", ",", "\n", "“", "-", "1", ")", "…"]
PUNCT = ".,:;?!)-—\"'”’"


def canon(s):
    return s.replace("…", "...").replace(" ", "")


def Drel(a, b):
    """b is a with some three-dot runs replaced by the ellipsis character, where only the spaces directly around a
    replaced run (before it, and after it / after one following punctuation mark) may differ; everything else is
    identical, in particular a text without a three-dot run is unchanged."""
    import functools
    la, lb = len(a), len(b)

    @functools.lru_cache(maxsize=None)
    def m(i, j):
        if i == la and j == lb:
            return True
        if i < la and j < lb and a[i] == b[j] and m(i + 1, j + 1):
            return True
        # a converted run: a = ' '* '...' p? ' '*   b = ' '* '…' p? ' '*
        i2 = i
        while i2 < la and a[i2] == " ":
            i2 += 1
        if a[i2:i2 + 3] != "...":
            return False
        i2 += 3
        j2 = j
        while j2 < lb and b[j2] == " ":
            j2 += 1
        if b[j2:j2 + 1] != "…":
            return False
        j2 += 1
        if i2 < la and j2 < lb and a[i2] == b[j2] and a[i2] in PUNCT:
            if _after(i2 + 1, j2 + 1):
                return True
        return _after(i2, j2)

    def _after(i, j):
        ia = i
        while True:
            jb = j
            while True:
                if m(ia, jb):
                    return True
                if jb < lb and b[jb] == " ":
                    jb += 1
                else:
                    break
            if ia < la and a[ia] == " ":
                ia += 1
            else:
                return False
    return m(0, 0)


def static_obligations(tier):
    """ST obligation on the live pattern: the callback contract's precondition 'group 3 is a three-dot run'."""
    import flowmark.typography.ellipses as E
    from vfcore import relang
    groups = relang.top_groups(E.ELLIPSIS_PATTERN)
    five = [g for g, _ in groups] == [1, 2, 3, 4, 5]
    lang = relang.finite_language(groups[2][1]) if five else None
    from .C08 import inline_scope_obligations
    return inline_scope_obligations() + [{"oid": "shape/typography.ellipses:ELLIPSIS_PATTERN/five_groups", "status": "discharged" if five else "refuted",
             "src": "ELLIPSIS_PATTERN is the concatenation of capture groups 1..5 (prefix, spaces, dots, punctuation, spaces)",
             "detail": str([g for g, _ in groups])},
            {"oid": "shape/typography.ellipses:ELLIPSIS_PATTERN/dots_group_is_three_dots",
             "status": "discharged" if lang == {"..."} else ("refuted" if lang is not None else "unknown"),
             "src": "the language of group 3 of ELLIPSIS_PATTERN is exactly {'...'}: only three-dot runs are touched",
             "detail": "language of group 3: %r" % (sorted(lang) if lang is not None else None)}]


def replay(rec):
    """failed shape obligation -> search a text on which the real ellipses() leaves relation D"""
    if "ELLIPSIS_PATTERN" not in rec.get("oid", ""):
        return None
    import flowmark.typography.ellipses as E
    from vfcore import relang
    groups = relang.top_groups(E.ELLIPSIS_PATTERN)
    extra = set()
    for _, sub in groups:
        l = relang.finite_language(sub)
        extra |= {w for w in (l or ()) if w and w != "..."}
    cands = sorted(extra, key=len)[:6]
    for w in cands:
        for pre in ("a", "", "a ", '"'):
            for post in ("b", "", " b", ".", "\n"):
                s = pre + w + post
                r = E.ellipses(s)
                if not Drel(s, r):
                    return {"reproduced": True, "input": {"text": s}, "got": r,
                            "expected": "relation D (only three-dot runs and the spaces around them change)"}
    return {"reproduced": False}


def bounded(tier, seed):
    from flowmark.typography.ellipses import ellipses
    viol, evals, distinct = [], 0, set()
    maxlen = 5 if tier == "quick" else 6
    for n in range(0, maxlen + 1):
        for tup in itertools.product(ALPHABET, repeat=n):
            s = "".join(tup)
            if "..." not in s and "…" not in s:
                evals += 1
                continue
            r = ellipses(s)
            evals += 1
            if r != s:
                distinct.add(r)
            if "..." not in s and r != s:
                viol.append({"clause": "only_three_dot_runs", "input": {"text": s}, "got": r, "want": s})
                continue
            if not Drel(s, r):
                viol.append({"clause": "D", "input": {"text": s}, "got": r})
            if ellipses(r) != r:
                viol.append({"clause": "rewrite_idempotent", "input": {"text": s}, "got": ellipses(r), "want": r})
    # dots that are NOT a three-dot run (spaced dots, two dots, dots split by other characters) are never touched
    for s0 in ("a . . . b", "wait . . . what", ". . .", "a. . .b", "a .. b", "a . b . c", "x .. . y", "so. . . then", "a ... b", "a. .. b", "1 . . . 2"):
        r = ellipses(s0)
        evals += 1
        if "..." not in s0 and r != s0:
            viol.append({"clause": "only_three_dot_runs", "input": {"text": s0}, "got": r, "want": s0})
        elif "..." in s0 and not Drel(s0, r):
            viol.append({"clause": "D", "input": {"text": s0}, "got": r})
    docs = D.documents(seed, 60 if tier == "quick" else 600, hazards=False)
    docs += ["wait... what... `a...b` <span title=\"x...\"> [l...](http://x/...) {% t a=\"...\" %}\n", "```\ncode...\n```\n\ntext...\n",
             "| a... | b |\n|---|---|\n| ... | c...d |\n", "# Head... ing\n\nend...\n",
             # dot runs inside template tags are template syntax / data
             'Use {% x "foo...bar" %} and {{ a...b }} and {# wait...so #} here... ok.\n',
             "Well... see {% include 'a...b' %} and then... {{ c...d }} ok... fine {# e...f #} end...\n",
             "so... {{ x...y }}\nand... {% t 'p...q' %} more... text <!-- r...s --> last...\n",
             # ... also when the tag spans a soft line break
             'see {% include "partials/a...b.md"\nwith context %} then... ok and {{ range(1...5)\n | join }} end...\n',
             "- item <!-- first...line\n  second...line --> text... done\n",
             '- item {% set r = 1...5 %} text...\n\n> {{ items[1...3] }} quoted... end\n', '{% note title="so...then" %}\nbody... text\n{% /note %}\n']
    for d in docs:
        o = dict(width=88, semantic=False)
        off = P.fmt(d, ellipses=False, **o)
        on = P.fmt(d, ellipses=True, **o)
        evals += 1
        # (line breaks may move because the rewrite changes lengths: compare without whitespace and without the quote markers
        # that start continuation lines)
        unq = lambda t: re.sub(r"\s+", "", re.sub(r"(?m)^(?:[ \t]*>)+", "", canon(t)))
        if unq(off) != unq(on):
            viol.append({"clause": "doc_D", "input": {"text": d, "options": o, **P.doc_features(d)}, "got": on[:300], "want": off[:300]})
            continue
        if D.literal_spans(off) != D.literal_spans(on):
            viol.append({"clause": "doc_literals_unchanged", "input": {"text": d, "options": o, **P.doc_features(d)}, "got": on[:300]})
        for tag in re.findall(r"\{%.*?%\}|\{#.*?#\}|\{\{.*?\}\}|<!--.*?-->", d, re.S):
            if re.sub(r"\s+", " ", tag) not in re.sub(r"\s+", " ", on):
                viol.append({"clause": "tags_untouched", "input": {"text": d, "options": o, **P.doc_features(d)}, "got": on[:300], "construct": tag})
                break
        if D.canonical(off.replace("...", "…"))[1:] is None:
            pass
    # document level: with the option on, formatting again changes nothing (prose with dot runs next to soft breaks, many widths)
    import random
    rnd = random.Random(seed)
    words = ["word", "and", "then", "wait...", "so...", "end...", "...and", "(really)", "(so.)", "hmm", "ok.", "Really?", "plain", "here", "a...b"]
    for i in range(30 if tier == "quick" else 300):
        toks = [rnd.choice(words) for _ in range(rnd.choice((6, 10, 16)))]
        text = "".join(t if k == 0 else (("\n" if rnd.random() < 0.35 else " ") + t) for k, t in enumerate(toks)) + "\n"
        for w in (8, 14, 22, 31, 47, 88):
            for sm in (False, True):
                o = dict(width=w, semantic=sm, ellipses=True)
                out = P.fmt(text, **o)
                evals += 1
                again = P.fmt(out, **o)
                if again != out:
                    viol.append({"clause": "doc_rewrite_idempotent", "input": {"text": text, "options": o, **P.doc_features(text)},
                                 "got": again[:600], "want": out[:600]})
    # coalesce_raw_text_nodes (runs before either typography rewrite) against its specification on every short child sequence
    from . import funcspecs as FS
    evals += FS.coalesce_spec_sweep(viol, 6 if tier == "quick" else 7)
    return {"evaluations": evals, "distinct_nontrivial": len(distinct), "violations": viol,
            "samples": [{"text": "a...b"}, {"text": docs[-4]}],
            "rule": "(also: coalesce_raw_text_nodes == 'each maximal run RawText (soft-break RawText)* becomes its first node with the texts joined by newline, every other node kept' on every child sequence of <= 6 (thorough 7) nodes over {text, soft break, hard break, code span, emphasis}) ellipses() on every string of length <= %d over the 13-symbol alphabet (incl. a pre-existing ellipsis character) that contains '...' or the ellipsis character: relation D "
                    "(alignment: only three-dot runs become the ellipsis character, only the spaces around them change), texts without a three-dot run unchanged, idempotence of the rewrite; documents of the document space + 4 targeted ones: option on vs off differ only by "
                    "'...' -> '…' and spaces, literal spans identical; seeded prose with dot runs next to soft breaks at 6 widths x both modes with the option on: a second formatting pass changes nothing; distinct = distinct rewritten strings" % maxlen,
            "exhaustive": True, "bound": "strings <= %d symbols" % maxlen}


def witnesses():
    o = dict(ellipses=True, width=8, semantic=False)
    a = P.fmt("aaaa bbbb (so.) ...and more\n", **o)
    return {"C09-leading-dots-at-line-start": P.fmt(a, **o) != a}
