#!/usr/bin/env python3
"""Regenerates MANIFEST.json from the table below (keeps it schema-valid and in one place)."""
import json

BASE = ("cd /repo && /venv/bin/python -m pytest -ra -q -p no:cacheprovider --timeout=900 "
        "--continue-on-collection-errors")

# property -> (level category, level text, level_note, technique)
CLAIMED = {}
NOT_APPLICABLE = {}


def claim(pid, cat, text, note, technique, design):
    CLAIMED[pid] = dict(cat=cat, text=text, note=note, technique=technique, design=design)


exec(open("manifest_table.py").read())

checks = []
for pid in sorted(CLAIMED):
    c = CLAIMED[pid]
    checks.append({
        "property_id": pid,
        "quick_cmd": "./vf check %s --tier quick" % pid,
        "thorough_cmd": "./vf check %s --tier thorough" % pid,
        "evidence_file": "evidence/%s.json" % pid,
        "replay_cmd_template": "./vf replay {path}",
        "engine": "vf",
        "level_claimed": {"category": c["cat"], "text": c["text"], "design_ref": c["design"]},
        "level_note": c["note"],
        "technique": c["technique"],
    })
man = {
    "version": 1,
    "setup_cmd": "./setup.sh",
    "hooks": {"guard": "FLOWMARK_VERIF",
              "enable": "none needed: contracts are sidecar files under /verif/contracts; /repo is read, never instrumented",
              "baseline_off_cmd": BASE, "source_commits": [], "add_only": True},
    "engines": [{"name": "vf", "path": "vfcore/", "serves_properties": sorted(CLAIMED),
                 "kind_free_text": "AST->VC generator for a Python subset (symbolic execution of the real function bodies "
                                   "re-read from /repo on every run, sidecar contracts, loop invariants, ghost state) + z3/cvc5; "
                                   "replay and bounded evaluation of the same contracts on the real code"}],
    "checks": checks,
    "not_applicable": [{"property_id": p, "reason": r} for p, r in sorted(NOT_APPLICABLE.items())],
    "notes": "See DESIGN.md. Exit codes of ./vf check: 0 held / only known findings, 1 violation, 2 undecided, 3 checker error.",
}
json.dump(man, open("MANIFEST.json", "w"), indent=1)
print("claimed:", sorted(CLAIMED), "n/a:", sorted(NOT_APPLICABLE))
