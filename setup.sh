#!/bin/sh
# Builds /verif/.venv offline: z3-solver + cvc5 + jsonschema + hypothesis on top of /venv's
# site-packages (flowmark editable -> /repo/src, marko, regex, strif, pathspec, markdown-it-py).
set -e
cd "$(dirname "$0")"
export PIP_NO_INDEX=1
if [ ! -x .venv/bin/python ] || ! .venv/bin/python -c "import z3, jsonschema, flowmark" 2>/dev/null; then
  rm -rf .venv
  /venv/bin/python -m venv .venv
  .venv/bin/python -m pip install -q --no-index --find-links /opt/veriftools/wheels \
      z3-solver cvc5 jsonschema hypothesis >/dev/null
  SP=$(.venv/bin/python -c "import sysconfig;print(sysconfig.get_paths()['purelib'])")
  echo "import site; site.addsitedir('/venv/lib/python3.12/site-packages')" > "$SP/_repo_venv.pth"
fi
.venv/bin/python -c "import z3, flowmark, marko; print('vf venv ok: z3', z3.get_version_string(), 'flowmark', flowmark.__file__)"
