# Edited by hand; mkmanifest.py turns it into MANIFEST.json.
claim("C15", "proof",
      "Argument-correspondence obligations through all four layers (cli._parse_args against the documented flag table, "
      "reformat_files -> reformat_file -> reformat_text -> fill_text/fill_markdown wiring) are generated from the real "
      "function bodies and discharged by z3 for all option values; callees are uninterpreted, so a swapped, dropped or "
      "hard-coded option is a sat model. Proof is the right level because the property is a finite wiring fact that holds "
      "or not for every option vector at once.",
      "Assumes the argparse contract (an option string on the command line sets its dest, else the default), strif's "
      "atomic_output_file protocol, and that callees are functions of their arguments; the byte-identity of the CLI "
      "subprocess with the text API is explored only in the bounded layer.",
      "contract-based deductive verification: AST->VC generation over the real source + z3", "DESIGN.md §3 C15")
claim("C14", "proof",
      "Effect-ordering and frame contracts on reformat_file / reformat_files / cli.main, discharged on every path including "
      "every path on which an external call raises: exactly one read, then one format of what was read, then one output of "
      "exactly the formatted text; every write goes to the temp path yielded by the atomic context; nothing is committed on "
      "an exceptional exit; no output effect precedes a successful format; in-place targets `path` with .orig backup iff not "
      "nobackup, otherwise `path` is never a target; one reformat_file call per input, in order; usage errors (an output file for several inputs, "
      "an in-place run with stdin among the inputs) raise before any effect. The crash-atomicity itself is reduced to the assumed strif/os.replace protocol and explored by fault and "
      "crash injection at every file-system call (bounded layer).",
      "Assumes strif.atomic_output_file's protocol and atomic os.replace; 'at every instant / after any crash' between two "
      "system calls is the operating system's and is not decided by contracts; termination of callees assumed.",
      "contract-based deductive verification: effect-log contracts, AST->VC generation + z3; bounded fault/crash injection stand-in",
      "DESIGN.md §3 C14")
claim("C16", "proof",
      "Per-field three-way merge semantics of merge_cli_with_config (loop over the live dataclass fields cut by an invariant), "
      "the explicit-flag table of _parse_args against the documented option strings (a flag passed with its default value "
      "still counts), upward search order of find_config_file (loop invariant over the ancestor chain, ghost depth), "
      "load_config's pyproject section selection, main's find->load->merge->resolve->format order, _needs_file_resolution (plain file arguments never go through the resolver), and 'every accepted key is "
      "an Options attribute that reaches reformat_files or FileResolverConfig' are discharged for all values.",
      "tomllib and argparse by assumed contract (which spellings argparse accepts for a flag -- clusters, prefixes, attached values -- is explored in the bounded layer; one defect there was repaired); _parse_config_data (loops over a symbolic dict) is covered only by the "
      "bounded product and a function-level sweep; Path.parent chain finite (termination of the upward walk assumed).",
      "contract-based deductive verification: AST->VC generation + z3 (loop invariants, ghost state); bounded product stand-in",
      "DESIGN.md §3 C16")
claim("C05", "proof",
      "Full loop contract on the real wrap_paragraph_lines (ghost word-span tiling; invariants: partition, per-line "
      "content = join of its span, accounted column, boundedness of the open line, maximality of every finished line, escape "
      "only at line starts) discharged for every word-length vector, width and column pair with no bound; wrap_paragraph and "
      "the sentence wrapper are verified modularly against that contract (indents, joining, width passed once, one W call per "
      "sentence, merge structure); fill_text per paragraph; the hard-break wrapper per segment. Three clauses fail on this "
      "tree and are recorded as known findings with their residual obligations proved; two further defects found by the "
      "contracts were repaired (fix: commits).",
      "words are opaque (free-monoid strings), len_fn additive with len_fn(' ')==1, splitter tokens non-empty and "
      "strip-stable (assumed of user splitters); strip/join/re.sub by assumed library contracts; the pipeline-level statement "
      "(every paragraph of every document) is explored only by the bounded sweep.",
      "contract-based deductive verification: AST->VC generation (loop invariants, ghost state, modular callee contracts) + z3; "
      "bounded exhaustive small-scope sweep as stand-in for the pipeline level", "DESIGN.md §3 C05")
claim("C11", "proof",
      "Sentence splitting (split_sentences_regex: per-word characterisation of where a sentence ends, spans tile the words) "
      "and the sentence wrapper's per-iteration strongest postcondition (merge into a short last line iff the documented test "
      "holds, otherwise append; lines before the last are never rewritten; a sentence that follows a line of at least the "
      "minimum length starts on a new line) are discharged without bound on the real code; forced breaks come from the "
      "wrap_paragraph_lines contract. The locality consequence is derived by the fold lemma L-locality (meta-lemma) and "
      "explored on the real wrapper by single-sentence edits.",
      "heuristic_end_of_sentence is an oracle (uninterpreted predicate); L-locality is an unchecked meta-lemma whose premises "
      "are the discharged obligations; one clause (carry column) is a known finding with its residual proved.",
      "contract-based deductive verification: AST->VC generation (loop invariants, ghost state) + z3; bounded edit-locality "
      "exploration as stand-in for the derived property", "DESIGN.md §3 C11")
claim("C13", "proof",
      "Frame conditions: for every function of flowmark's formatting path (all modules except cli/config/file_resolver/skill) "
      "one obligation each that it declares no global, stores through no module-level name / imported module / class object, "
      "calls no mutating method on a non-local object, uses no globals()/exec/setattr on shared objects and has no mutable "
      "default; per module-level mutable binding and per @cache function an obligation that it cannot carry state; "
      "MarkdownNormalizer.__init__ initialises every field a method reads; flowmark_markdown and _setup_extensions build fresh "
      "parser/renderer objects unconditionally; fill_markdown parses and renders through the object it created in the same "
      "call (VC discharged by z3). With no shared writable state every history and interleaving equals a serial one.",
      "ST obligations are decided by exact syntactic write-set computation on the real ASTs (no aliasing analysis into "
      "dependencies); Marko/regex internals assumed stateless for flowmark's purposes; the step from frames to 'any interleaving' "
      "is the unchecked meta-lemma L-frame-serial; histories and threads are explored in the bounded layer.",
      "contract-based verification: frame (modifies-nothing) obligations decided on the AST + one z3-discharged wiring VC; "
      "bounded history/thread exploration", "DESIGN.md §3 C13")
claim("C07", "proof",
      "split_frontmatter is verified over the line model ('\\n' after CRLF->LF is the only line end; pieces re-join to the "
      "text): two loop invariants, the three exhaustive cases (no block => ('', text); closed => the contiguous run up to the "
      "FIRST closing '---' re-joined verbatim and the rest as body; unclosed => the whole text unchanged), all subscripts in "
      "range, both loops with variants; fill_markdown's pipeline clause proves the block is re-attached in front of "
      "render(parse(prep(strip(body)))) and that a frontmatter-only document is returned unchanged up to a final newline. "
      "Two genuine defects found by these contracts were repaired (fix: commits).",
      "str.split/join/replace/strip by assumed library contracts (split pieces contain no separator and re-join to the text); "
      "Marko parse/render and tag pre-processing uninterpreted; body independence format(fm+body)=fm+format(body) is derived "
      "from the two contracts for bodies that are not themselves frontmatter and explored in the bounded layer.",
      "contract-based deductive verification: AST->VC generation (loop invariants over the line model) + z3; bounded "
      "frontmatter x body x options exploration", "DESIGN.md §3 C07")
claim("C10", "proof",
      "Tree rewrite contract on the real _unbold_heading_transformer over a heap model of Marko element records (children as "
      "heap arrays, classes from the live hierarchy): sole StrongEmphasis child unwrapped, Emphasis(StrongEmphasis) unwrapped "
      "inside, and a frame clause that every other element keeps its children; render_list's tightness decision per mode, its "
      "restoration on exit (nested lists cannot leak their mode) and one render per item in order; _can_be_tight <=> every "
      "item holds a single block (loop invariant); render_list_item's separator emission; ST obligations that the mode is read "
      "and written nowhere else and that cleanups consist of exactly this rewrite. One defect (setext headings) was repaired.",
      "contract R of render() for child elements assumed (preserves continuation prefix, mode and tightness); Marko element "
      "field meanings assumed; 'nothing but blank lines between items changes' is a 2-run relation explored only in the bounded layer.",
      "contract-based deductive verification: AST->VC generation over a heap model + z3; static read/write sets; bounded "
      "option-on/off differential", "DESIGN.md §3 C10")
_PIPE_NOTE = ("No contract within reach characterises how a text re-parses (Marko's parser is a dependency): the statement "
              "itself is explored only under the stated bound; the discharged obligations carry the mechanisms the property names.")
claim("C01", "other",
      "Mechanism contracts discharged without bound: wrap_paragraph_lines alters a word only by the protective backslash and "
      "only at the start of a wrapped line; the hard-break wrapper keeps number and order of hard breaks and rejoins with "
      "backslash-newline; line_wrap_* compose hard-break and tag handling in the documented order; heap-model frame of the "
      "cleanup rewrite; render_list renders item i under exactly its own marker with a continuation indent as wide as that "
      "marker; contract R on the renderer's block methods (paragraph: one wrapper call with the prefixes in force; heading level "
      "and separator; rule, HTML block, blank line, link definition, table lines, a table row as every cell once and in order between the pipes, escaped cell pipes, footnote / alert / "
      "quote containers: emitted under the container prefixes, first-line prefix consumed); render_literal / render_line_break "
      "keep or drop an escape exactly as the escape context says (only a hard break resets it); _render_code emits every code "
      "line verbatim. The statement parse(format(x)) ~ parse(x) is explored on a generated document space with flowmark's "
      "own parser as reader; the defects found this way were repaired (fix: commits, DESIGN.md 9.3), the others are recorded known findings "
      "whose witnesses are replayed on every run.", _PIPE_NOTE,
      "contract-based deductive verification of the wrapping mechanisms (AST->VC + z3); bounded re-parse equivalence as stand-in",
      "DESIGN.md §3 C01")
claim("C02", "other",
      "Discharged: greedy fill / sentence split produce lines that are joins of spans of the token sequence (hence a function "
      "of the tokens), fill_markdown strips/dedents its input and re-attaches frontmatter verbatim, split_frontmatter returns "
      "the block it is given back, fill_text joins wrapped paragraphs with blank lines. format(format(x)) == format(x) itself is "
      "explored over the document space x option bits x plaintext.", _PIPE_NOTE,
      "contract-based deductive verification of the components (AST->VC + z3); bounded two-pass exploration as stand-in",
      "DESIGN.md §3 C02")
claim("C03", "other",
      "Discharged: wrap_paragraph_lines and split_sentences_regex depend on the text only through the whitespace-collapsed "
      "token sequence; the sentence wrapper's no-wrap branch collapses whitespace runs (a defect found by this clause was "
      "repaired); the word splitter is handed the whitespace-collapsed text; the tag-newline wrapper cuts a paragraph into "
      "segments exactly before/after tag lines (and block content when the paragraph has tag lines), nowhere else; a soft "
      "break does not reset the escape context. Re-layout invariance and the two-pass relation are explored on the document space.", _PIPE_NOTE,
      "contract-based deductive verification of the wrappers (AST->VC + z3); bounded re-layout / two-pass exploration as stand-in",
      "DESIGN.md §3 C03")
claim("C04", "other",
      "Discharged: fill_markdown applies cleanups / smart quotes / ellipses only through doc_cleanups, "
      "rewrite_text_across_inlines(smart_quotes) and rewrite_text_content(ellipses, coalesce_lines=True), each guarded by its own "
      "option, in that order, between parse and render (pipeline clause); transform_tree never descends into code / HTML / "
      "link-definition nodes; _collect_inline_segments hands out only RawText nodes as mutable; the two rewrite transformers "
      "store only into RawText nodes (across inlines: exactly the slice of the length-preserving rewrite at the node's own "
      "prefix-sum offset); _render_code emits every code line verbatim behind the continuation prefix inside a fence that is a "
      "run of the fence character at least as long as the original and as _min_fence_length demands, with the info string; "
      "_min_fence_length returns at least 3, more than every run its pattern finds and no more than that demands (loop invariant with a ghost witness; the pattern itself is compared with an independent spec on a bounded sweep); "
      "a code span is written between the shortest backtick run that is no run of its text (loop invariant; the run set through an uninterpreted findall); "
      "code spans, autolinks, URLs, inline HTML, HTML blocks, link definitions and footnote labels are copied from the element's "
      "fields; preprocess_tag_block_spacing inserts only blank lines and none inside fenced code. The literal-span sequence comparison is the bounded "
      "layer; two defects found by it (code re-split at Unicode separators, blank line inserted inside fenced code) were repaired.",
      _PIPE_NOTE + " _min_fence_length (regex scan) is an assumed contract checked against an independent spec on a function "
      "sweep; _link_destination (plain or <...> form of a destination) is an assumed contract checked by a round-trip sweep through "
      "the parser; what _normalize_title_quotes does inside a title is the recorded finding; of coalesce_raw_text_nodes the structure (which nodes are merged / kept, stores only into RawText) is discharged, the joined text is a bounded function sweep.",
      "contract-based deductive verification of the wiring (AST->VC + z3); bounded literal-span comparison as stand-in",
      "DESIGN.md §3 C04")
claim("C06", "other",
      "Discharged: every output line of the wrappers is a join of whole tokens of the splitter (W lossless clauses), so a token "
      "is never broken; the line wrappers apply tag-newline handling inside hard-break handling; the tag-newline wrapper's "
      "segments tile the paragraph's lines and every position next to a tag line is a boundary (the newline is kept); "
      "_fix_closing_tag_spacing only inserts blank lines before closing tags after block content and touches no other line "
      "(that it strips a closing tag's indentation is the recorded finding, residual proved); _fix_multiline_opening_tag_with_closing keeps "
      "every line in order and cuts a line in two exactly when the documented pattern applies, at the start of the closing tag, "
      "dropping only the blanks at the cut (ST: every alternative of its pattern sets a named group); preprocess_tag_block_spacing puts "
      "a blank line wherever a tag-only line meets block content outside fenced code (spec fence state) and nowhere else. Atomicity of constructs, spacing "
      "and tag-line layout are explored on paragraphs with tags at widths 1..20 and tag-delimited blocks.",
      _PIPE_NOTE + " The atomic-construct regexes, the line predicates (tag-only, block content) and the adjacent-tag "
      "normalisation are uninterpreted / bounded only.",
      "contract-based deductive verification of token-preserving wrapping (AST->VC + z3); bounded atomicity exploration as stand-in",
      "DESIGN.md §3 C06")
claim("C12", "other",
      "Discharged: every subscript-in-range, not-None, assert and pop-from-non-empty obligation and every loop variant of the "
      "functions of the formatting path that are under contract (wrap_paragraph_lines, split_sentences_regex, the sentence and "
      "hard-break wrappers, fill_text, split_frontmatter, the renderer's block and inline methods, doc_transforms, the tag "
      "handling functions under contract, the ignore-file loader incl. its fallback for invalid pattern lines); ST: no regex of the package has a nested unbounded quantifier (pumped input replayed "
      "when one does), and every regex whose repeat holds an inner repeat passes a bounded timing probe (labelled bounded); render_list_item's separator carries no trailing "
      "blanks. Termination/time of Marko and the regex engines and well-formedness of whole outputs are explored under a "
      "watchdog on Unicode soup and pumped families.", _PIPE_NOTE,
      "contract-based deductive verification: no-raise and variant obligations (AST->VC + z3); bounded fuzzing under a watchdog as stand-in",
      "DESIGN.md §3 C12")
claim("C08", "other",
      "Discharged: for an arbitrary match whose group structure is derived mechanically from the live QUOTE_PATTERN, the "
      "replacement callback returns text that is position-by-position equal to the match except that the two straight quotes "
      "become the matching curly ones (relation Q, decided structurally on the term); fill_markdown applies the rewrite only "
      "via rewrite_text_across_inlines(smart_quotes), guarded by its option. The lift to whole strings/documents uses the "
      "unchecked congruence lemma and is checked exhaustively on all strings up to length 4/5 over a 13-symbol alphabet and "
      "on the document space (option on vs off).",
      "re.sub decomposition and L-congruence(Q) assumed; the mapping back into the tree is discharged "
      "(_collect_inline_segments, rewrite_text_across_inlines transformer, transform_tree, coalesce_raw_text_nodes: only RawText-softbreak-RawText runs are merged, every other node kept in order); the joined text of a run and the "
      "apostrophe loop of _apply_smart_quotes_to_text are bounded only.",
      "contract-based deductive verification of the rewrite callback (AST->VC + z3, group structure from re._parser); "
      "exhaustive short-string and document differential as bounded stand-in", "DESIGN.md §3 C08")
claim("C09", "other",
      "Discharged: for an arbitrary match with the group structure derived from the live ELLIPSIS_PATTERN the callback returns "
      "the match unchanged or prefix + (space | spaces-before) + ellipsis + punctuation + (space | spaces-after) on every path "
      "(all combinations of the uninterpreted \\w / end-of-text tests); fill_markdown applies it only via "
      "rewrite_text_content(ellipses, coalesce_lines=True), guarded by its option. Idempotence of the rewrite cannot be decided "
      "by a contract and is checked exhaustively on short strings.",
      "re.sub decomposition and L-congruence(D) assumed; rewrite_text_content's transformer and transform_tree are under "
      "contract, as is the structure of coalesce_raw_text_nodes (merged runs; the joined text is a bounded sweep); one known finding (ellipsis at a text-node boundary) shared with C02.",
      "contract-based deductive verification of the rewrite callback (AST->VC + z3); exhaustive short-string idempotence and "
      "document differential as bounded stand-in", "DESIGN.md §3 C09")
claim("C17", "proof",
      "Discharged on the real resolver code: resolve returns a strictly sorted (hence duplicate-free) list (loop invariants "
      "'every element is in seen', 'every element is a Path.resolve() result' (canonical: no file under two spellings) and an "
      "injective position map, list.sort as a sorted permutation); _expand_glob yields only files that match an include "
      "pattern, are within the size limit, are not matched by the tool ignore file and have no ancestor directory excluded by "
      "name or by relative path; _should_include_explicit never bypasses the size limit and bypasses the exclusions exactly "
      "when force_exclude is off; _walk_directory yields a "
      "file iff it is not a symbolic link, matches an include pattern, is within the size limit, is not git-ignored and not "
      "matched by the tool ignore file (path relative to the walk root), prunes into the very list object os.walk yielded and "
      "calls os.walk without followlinks; _is_dir_excluded <=> exclude/gitignore/tool-ignore match of name/ or path/; "
      "_exceeds_max_size (0 = unlimited, strictly larger, unreadable never excludes); cli._resolve_files passes every "
      "file-discovery option under its own name; _get_tool_ignore looks the ignore file up for exactly the (resolved) start directory and caches it under that key only; load_tool_ignore returns what _read_ignore_file makes of the NEAREST ignore file on "
      "the parent chain of the resolved start directory (loop invariant over the visited chain), and _read_ignore_file hands "
      "pathspec exactly the file's non-blank, non-comment lines, verbatim and in order (exact model of the filtering comprehension). "
      "Four defects found here were repaired (symlinked files, glob filtering, "
      ".flowmarkignore path patterns, multi-segment exclusions for globs).",
      "pathspec.match_file / check_file, os.walk (top-down, descends into the names left in dirnames, no symlinked dirs), "
      "Path.resolve/is_file/stat/glob, list.sort by assumed contracts; completeness of _expand_glob (nothing that passes is "
      "dropped) and the glob-root computation are covered only by the bounded reference walk; Path.read_text / splitlines / parent are uninterpreted; 'no file is missed / order of listing irrelevant' follows from "
      "the filter iff plus sortedness and is explored on generated trees.",
      "contract-based deductive verification: AST->VC generation (loop invariants, ghost position map, generator yield log) + z3; "
      "bounded comparison with a reference walk on generated trees", "DESIGN.md §3 C17")
claim("C18", "proof",
      "Discharged: _gitignored asks each .gitignore about the path relative to that file's own directory (directories with a "
      "trailing slash) and lets the last matching pattern along the chain root -> leaf decide (loop invariant over a recursive "
      "decision function), _get_gitignore_chain returns exactly the directories on the path from the walk root to the "
      "directory that have rules, in order, each with its own spec (ghost depth / index list, counting function for "
      "completeness) and descends to the directory itself; _walk_directory and _is_dir_excluded consult the chain only when "
      "respect_gitignore is set (also at cli._resolve_files); _get_gitignore returns load_gitignore(directory), cached under exactly that directory; load_gitignore reads exactly the directory's own .gitignore and _read_ignore_file hands "
      "its rule lines to pathspec verbatim (leading blanks kept, negation-only files are rule files); ST: the caches live in the "
      "resolver instance, no class- or module-level mutable state. The defect that made the original code disagree with git (basename matching, any()) was repaired.",
      "gitignore pattern semantics are delegated to pathspec.check_file (assumed contract) and compared with git 2.39 "
      "(`git ls-files -co --exclude-standard`) only in the bounded layer; termination of the descent assumed (finite path).",
      "contract-based deductive verification: AST->VC generation (loop invariants, ghost state) + z3; git as oracle in the bounded layer",
      "DESIGN.md §3 C18")
