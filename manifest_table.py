# Edited by hand; mkmanifest.py turns it into MANIFEST.json.
claim("C15", "proof",
      "Argument-correspondence obligations through all four layers (cli._parse_args against the documented flag table, "
      "reformat_files -> reformat_file -> reformat_text -> fill_text/fill_markdown wiring) are generated from the real "
      "function bodies and discharged by z3 for all option values; callees are uninterpreted, so a swapped, dropped or "
      "hard-coded option is a sat model. Proof is the right level because the property is a finite wiring fact that holds "
      "or not for every option vector at once.",
      "Assumes the argparse contract (an option string on the command line sets its dest, else the default), strif's "
      "atomic_output_file protocol, and that callees are functions of their arguments; the byte-identity of the CLI "
      "subprocess with the text API is explored only in the bounded layer.",
      "contract-based deductive verification: AST->VC generation over the real source + z3", "DESIGN.md §3 C15")
for _p in ["C01", "C02", "C03", "C04", "C05", "C06", "C07", "C08", "C09", "C10", "C11", "C12", "C13", "C14", "C16",
           "C17", "C18"]:
    NOT_APPLICABLE[_p] = "check not built yet in this round (planned in DESIGN.md §3); nothing is claimed"
