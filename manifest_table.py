# Edited by hand; mkmanifest.py turns it into MANIFEST.json.
claim("C15", "proof",
      "Argument-correspondence obligations through all four layers (cli._parse_args against the documented flag table, "
      "reformat_files -> reformat_file -> reformat_text -> fill_text/fill_markdown wiring) are generated from the real "
      "function bodies and discharged by z3 for all option values; callees are uninterpreted, so a swapped, dropped or "
      "hard-coded option is a sat model. Proof is the right level because the property is a finite wiring fact that holds "
      "or not for every option vector at once.",
      "Assumes the argparse contract (an option string on the command line sets its dest, else the default), strif's "
      "atomic_output_file protocol, and that callees are functions of their arguments; the byte-identity of the CLI "
      "subprocess with the text API is explored only in the bounded layer.",
      "contract-based deductive verification: AST->VC generation over the real source + z3", "DESIGN.md §3 C15")
claim("C14", "proof",
      "Effect-ordering and frame contracts on reformat_file / reformat_files / cli.main, discharged on every path including "
      "every path on which an external call raises: exactly one read, then one format of what was read, then one output of "
      "exactly the formatted text; every write goes to the temp path yielded by the atomic context; nothing is committed on "
      "an exceptional exit; no output effect precedes a successful format; in-place targets `path` with .orig backup iff not "
      "nobackup, otherwise `path` is never a target; one reformat_file call per input, in order; usage errors raise before "
      "any effect. The crash-atomicity itself is reduced to the assumed strif/os.replace protocol and explored by fault and "
      "crash injection at every file-system call (bounded layer).",
      "Assumes strif.atomic_output_file's protocol and atomic os.replace; 'at every instant / after any crash' between two "
      "system calls is the operating system's and is not decided by contracts; termination of callees assumed.",
      "contract-based deductive verification: effect-log contracts, AST->VC generation + z3; bounded fault/crash injection stand-in",
      "DESIGN.md §3 C14")
claim("C16", "proof",
      "Per-field three-way merge semantics of merge_cli_with_config (loop over the live dataclass fields cut by an invariant), "
      "the explicit-flag table of _parse_args against the documented option strings (a flag passed with its default value "
      "still counts), upward search order of find_config_file (loop invariant over the ancestor chain, ghost depth), "
      "load_config's pyproject section selection, main's find->load->merge->resolve->format order, and 'every accepted key is "
      "an Options attribute that reaches reformat_files or FileResolverConfig' are discharged for all values.",
      "tomllib and argparse by assumed contract; _parse_config_data (loops over a symbolic dict) is covered only by the "
      "bounded product; Path.parent chain finite (termination of the upward walk assumed).",
      "contract-based deductive verification: AST->VC generation + z3 (loop invariants, ghost state); bounded product stand-in",
      "DESIGN.md §3 C16")
for _p in ["C01", "C02", "C03", "C04", "C05", "C06", "C07", "C08", "C09", "C10", "C11", "C12", "C13",
           "C17", "C18"]:
    NOT_APPLICABLE[_p] = "check not built yet in this round (planned in DESIGN.md §3); nothing is claimed"
