"""Contract on tag_handling.add_tag_newline_handling.<locals>.enhanced_wrapper (C03: a source newline is significant only next
to a tag line or, when the paragraph has tag lines, next to block content; C06: a newline next to a tag line is kept;
C05/C04: the segmentation tiles the text and every segment is wrapped exactly once with the right indents)."""
import z3

from vfcore.contracts import Callee, Clause, Contract, Loop, contract

M = "flowmark.linewrapping.tag_handling"

T_DEFS = {
    # a segment boundary before line b (b >= 1) is allowed only here (C03) ...
    "boundary(b)": "call('line_ends_with_tag', lines[b - 1]) or call('_is_unindented_tag_line', lines[b])"
                   " or (has_tags and (call('line_is_block_content', lines[b]) or call('line_is_block_content', lines[b - 1])))",
    "ind(k)": "ite(k == 0, initial_indent, subsequent_indent)",
    "seg(k)": "joinr('\\n', lines, starts[k], ite(k + 1 < len(starts), starts[k + 1], len(lines)))",
}

contract(Contract(
    target=M + ":add_tag_newline_handling.<locals>.enhanced_wrapper",
    props=["C03", "C06", "C05"],
    params={"text": "str", "initial_indent": "str", "subsequent_indent": "str"},
    free={"base_wrapper": "callable"},
    types={"lines": "list[str]", "segments": "list[str]", "current_segment_lines": "list[str]", "wrapped_segments": "list[str]",
           "result_parts": "list[str]", "has_tags": "bool", "starts": "list[int]", "cs": "int", "line": "str", "segment": "str",
           "wrapped": "str", "i": "int", "result": "str", "prev_segment": "str", "curr_segment": "str"},
    calls={
        "base_wrapper": Callee("uf", ret="str", sig=["text", "initial_indent", "subsequent_indent"]),
        "_fix_multiline_opening_tag_with_closing": Callee("uf", ret="str", sig=["text"]),
        "_fix_closing_tag_spacing": Callee("uf", ret="str", sig=["text"]),
        "line_ends_with_tag": Callee("uf", ret="bool", sig=["line"]),
        "line_starts_with_tag": Callee("uf", ret="bool", sig=["line"]),
        "_is_unindented_tag_line": Callee("uf", ret="bool", sig=["line"]),
        "line_is_block_content": Callee("uf", ret="bool", sig=["line"]),
        # (not used by the current body; modelled so that a body that consults a pattern is judged, not rejected)
        "Pattern.search": Callee("uf", ret="opt[ref:Match]", sig=["self", "string"]),
        "Pattern.match": Callee("uf", ret="opt[ref:Match]", sig=["self", "string"]),
    },
    ghost={"starts": "[]", "cs": "0"},
    hooks=[
        ("before", "call:segments.append", "starts.append(cs)"),
        ("after", "assign:current_segment_lines@loop", "cs = i"),
    ],
    defs=T_DEFS,
    loops={
        0: Loop(inv={
            "range": "0 <= cs and cs <= _i and len(starts) == len(segments)",
            "cur": "len(current_segment_lines) == _i - cs and all(current_segment_lines[j] == lines[cs + j] for j in range(_i - cs))",
            "cur_join": "implies(_i > cs, joinr('\\n', current_segment_lines, 0, len(current_segment_lines)) == joinr('\\n', lines, cs, _i))",
            "first": "implies(len(starts) > 0, starts[0] == 0) and implies(len(starts) == 0, cs == 0)",
            "order": "all(starts[k] < ite(k + 1 < len(starts), starts[k + 1], cs) for k in range(len(starts)))"
                     " and implies(len(starts) > 0, cs > 0)",
            "closed": "all(segments[k] == joinr('\\n', lines, starts[k], ite(k + 1 < len(starts), starts[k + 1], cs))"
                      " for k in range(len(segments)))",
            # C03: every boundary sits where the property allows one
            "boundaries_allowed": "all(implies(k > 0, boundary(starts[k])) for k in range(len(starts)))"
                                  " and implies(cs > 0, boundary(cs))",
            # C06: no allowed boundary position is skipped (a newline next to a tag line is always kept)
            "boundaries_complete": "all(implies(b > cs and b >= 1, not boundary(b)) for b in range(_i))",
        }, modifies=["starts", "cs"], decreases="len(lines) - _i"),
        1: Loop(inv={
            "count": "len(wrapped_segments) == _i1",
            "each": "all(wrapped_segments[k] == base_wrapper(segments[k], ind(k), subsequent_indent) for k in range(_i1))",
        }, decreases="len(segments) - _i1"),
        2: Loop(inv={"nonempty": "len(result_parts) >= _i2 and implies(_i2 > 0, len(result_parts) >= 1)"}),
    },
    ensures={
        # the segments tile the lines of the paragraph, in order, with nothing lost (C05/C04) ...
        "segments_tile": "implies('\\n' in old('text'), len(starts) == len(segments) and len(segments) >= 1 and starts[0] == 0"
                         " and all(segments[k] == seg(k) for k in range(len(segments))))",
        # ... their boundaries are exactly the allowed positions (C03: nowhere else; C06: everywhere there) ...
        "boundaries_exact": "implies('\\n' in old('text'), all(implies(k > 0, boundary(starts[k])) for k in range(len(starts))))",
        # ... has_tags means: some line of the paragraph ends or starts with a tag (C03: the block-content rule applies only
        # to paragraphs that have tag lines; a tag in the middle of a line does not count)
        "has_tags_def": "implies('\\n' in old('text'), implies(all(not call('line_ends_with_tag', lines[j]) and not call('line_starts_with_tag', lines[j])"
                        " for j in range(len(lines))), not has_tags))",
        # ... and each is wrapped exactly once, the first with the initial indent
        "wrapped_each": "implies('\\n' in old('text'), implies(len(segments) > 1, len(wrapped_segments) == len(segments) and"
                        " all(wrapped_segments[k] == base_wrapper(segments[k], ind(k), subsequent_indent) for k in range(len(segments)))))",
        "one_segment": "implies('\\n' in old('text'), implies(len(segments) == 1, result == call('_fix_multiline_opening_tag_with_closing',"
                       " base_wrapper(old('text'), initial_indent, subsequent_indent))))",
        # a paragraph without a source newline goes to the wrapper unchanged, once
        "single_line": "implies(not ('\\n' in old('text')), result == call('_fix_multiline_opening_tag_with_closing',"
                       " base_wrapper(old('text'), initial_indent, subsequent_indent)))",
    },
    canaries=[
        ("has_tags = any(line_ends_with_tag(line) or line_starts_with_tag(line) for line in lines)", "has_tags = True", None, ["post[has_tags_def"]),
        ("cur_initial_indent = initial_indent if is_first else subsequent_indent", "cur_initial_indent = subsequent_indent", None, ["inv-preserve[loop1.each"]),
        ("            if prev_ends_with_tag or curr_starts_with_tag or curr_is_block or prev_is_block:", "            if prev_ends_with_tag or curr_is_block or prev_is_block:", None, ["boundaries_complete"]),
        ("            curr_is_block = has_tags and line_is_block_content(line)", "            curr_is_block = line_is_block_content(line)", None, ["boundaries_allowed"]),
    ],
))
