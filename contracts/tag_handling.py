"""Contract on tag_handling.add_tag_newline_handling.<locals>.enhanced_wrapper (C03: a source newline is significant only next
to a tag line or, when the paragraph has tag lines, next to block content; C06: a newline next to a tag line is kept;
C05/C04: the segmentation tiles the text and every segment is wrapped exactly once with the right indents)."""
import z3

from vfcore.contracts import Callee, Clause, Contract, Loop, contract

M = "flowmark.linewrapping.tag_handling"

T_DEFS = {
    # a segment boundary before line b (b >= 1) is allowed only here (C03) ...
    "boundary(b)": "call('line_ends_with_tag', lines[b - 1]) or call('_is_unindented_tag_line', lines[b])"
                   " or (has_tags and (call('line_is_block_content', lines[b]) or call('line_is_block_content', lines[b - 1])))",
    "ind(k)": "ite(k == 0, initial_indent, subsequent_indent)",
    "seg(k)": "joinr('\\n', lines, starts[k], ite(k + 1 < len(starts), starts[k + 1], len(lines)))",
}

contract(Contract(
    target=M + ":add_tag_newline_handling.<locals>.enhanced_wrapper",
    props=["C03", "C06", "C05"],
    assumes=['line_ends_with_tag / line_starts_with_tag / _is_unindented_tag_line / line_is_block_content are uninterpreted predicates', 'the final re-joining loop (blank line between tag and block segments) is only covered for no-raise; _fix_* post-processing by their own contracts / bounded'],
    shards=8,
    params={"text": "str", "initial_indent": "str", "subsequent_indent": "str"},
    free={"base_wrapper": "callable"},
    types={"lines": "list[str]", "segments": "list[str]", "current_segment_lines": "list[str]", "wrapped_segments": "list[str]",
           "result_parts": "list[str]", "has_tags": "bool", "starts": "list[int]", "cs": "int", "line": "str", "segment": "str",
           "wrapped": "str", "i": "int", "result": "str", "prev_segment": "str", "curr_segment": "str"},
    calls={
        "base_wrapper": Callee("uf", ret="str", sig=["text", "initial_indent", "subsequent_indent"]),
        "_fix_multiline_opening_tag_with_closing": Callee("uf", ret="str", sig=["text"]),
        "_fix_closing_tag_spacing": Callee("uf", ret="str", sig=["text"]),
        "line_ends_with_tag": Callee("uf", ret="bool", sig=["line"]),
        "line_starts_with_tag": Callee("uf", ret="bool", sig=["line"]),
        "_is_unindented_tag_line": Callee("uf", ret="bool", sig=["line"]),
        "line_is_block_content": Callee("uf", ret="bool", sig=["line"]),
        # (not used by the current body; modelled so that a body that consults a pattern is judged, not rejected)
        "Pattern.search": Callee("uf", ret="opt[ref:Match]", sig=["self", "string"]),
        "Pattern.match": Callee("uf", ret="opt[ref:Match]", sig=["self", "string"]),
    },
    ghost={"starts": "[]", "cs": "0"},
    hooks=[
        ("before", "call:segments.append", "starts.append(cs)"),
        ("after", "assign:current_segment_lines@loop", "cs = i"),
    ],
    defs=T_DEFS,
    loops={
        0: Loop(inv={
            "range": "0 <= cs and cs <= _i and len(starts) == len(segments)",
            "cur": "len(current_segment_lines) == _i - cs and all(current_segment_lines[j] == lines[cs + j] for j in range(_i - cs))",
            "cur_join": "implies(_i > cs, joinr('\\n', current_segment_lines, 0, len(current_segment_lines)) == joinr('\\n', lines, cs, _i))",
            "first": "implies(len(starts) > 0, starts[0] == 0) and implies(len(starts) == 0, cs == 0)",
            "order": "all(starts[k] < ite(k + 1 < len(starts), starts[k + 1], cs) for k in range(len(starts)))"
                     " and implies(len(starts) > 0, cs > 0)",
            "closed": "all(segments[k] == joinr('\\n', lines, starts[k], ite(k + 1 < len(starts), starts[k + 1], cs))"
                      " for k in range(len(segments)))",
            # C03: every boundary sits where the property allows one
            "boundaries_allowed": "all(implies(k > 0, boundary(starts[k])) for k in range(len(starts)))"
                                  " and implies(cs > 0, boundary(cs))",
            # C06: no allowed boundary position is skipped (a newline next to a tag line is always kept)
            "boundaries_complete": "all(implies(b > cs and b >= 1, not boundary(b)) for b in range(_i))",
        }, modifies=["starts", "cs"], decreases="len(lines) - _i"),
        1: Loop(inv={
            "count": "len(wrapped_segments) == _i1",
            "each": "all(wrapped_segments[k] == base_wrapper(segments[k], ind(k), subsequent_indent) for k in range(_i1))",
        }, decreases="len(segments) - _i1"),
        2: Loop(inv={"nonempty": "len(result_parts) >= _i2 and implies(_i2 > 0, len(result_parts) >= 1)"}),
    },
    ensures={
        # the segments tile the lines of the paragraph, in order, with nothing lost (C05/C04) ...
        "segments_tile": "implies('\\n' in old('text'), len(starts) == len(segments) and len(segments) >= 1 and starts[0] == 0"
                         " and all(segments[k] == seg(k) for k in range(len(segments))))",
        # ... their boundaries are exactly the allowed positions (C03: nowhere else; C06: everywhere there) ...
        "boundaries_exact": "implies('\\n' in old('text'), all(implies(k > 0, boundary(starts[k])) for k in range(len(starts))))",
        # ... has_tags means: some line of the paragraph ends or starts with a tag (C03: the block-content rule applies only
        # to paragraphs that have tag lines; a tag in the middle of a line does not count)
        "has_tags_def": "implies('\\n' in old('text'), implies(all(not call('line_ends_with_tag', lines[j]) and not call('line_starts_with_tag', lines[j])"
                        " for j in range(len(lines))), not has_tags))",
        # ... and each is wrapped exactly once, the first with the initial indent
        "wrapped_each": "implies('\\n' in old('text'), implies(len(segments) > 1, len(wrapped_segments) == len(segments) and"
                        " all(wrapped_segments[k] == base_wrapper(segments[k], ind(k), subsequent_indent) for k in range(len(segments)))))",
        "one_segment": "implies('\\n' in old('text'), implies(len(segments) == 1, result == call('_fix_multiline_opening_tag_with_closing',"
                       " base_wrapper(old('text'), initial_indent, subsequent_indent))))",
        # a paragraph without a source newline goes to the wrapper unchanged, once
        "single_line": "implies(not ('\\n' in old('text')), result == call('_fix_multiline_opening_tag_with_closing',"
                       " base_wrapper(old('text'), initial_indent, subsequent_indent)))",
    },
    canaries=[
        ("has_tags = any(line_ends_with_tag(line) or line_starts_with_tag(line) for line in lines)", "has_tags = True", None, ["post[has_tags_def"]),
        ("cur_initial_indent = initial_indent if is_first else subsequent_indent", "cur_initial_indent = subsequent_indent", None, ["inv-preserve[loop1.each"]),
        ("            if prev_ends_with_tag or curr_starts_with_tag or curr_is_block or prev_is_block:", "            if prev_ends_with_tag or curr_is_block or prev_is_block:", None, ["boundaries_complete"]),
        ("            curr_is_block = has_tags and line_is_block_content(line)", "            curr_is_block = line_is_block_content(line)", None, ["boundaries_allowed"]),
    ],
))


# --------------------------------------------------------------------------- _fix_closing_tag_spacing
F_DEFS = {
    "closing(l)": "call('_is_closing_tag', l)",
    "norm(l)": "ite(closing(l), lstrip(l), l)",
}

contract(Contract(
    target=M + ":_fix_closing_tag_spacing",
    props=["C06", "C04", "C02"],
    params={"text": "str"},
    types={"lines": "list[str]", "fixed_lines": "list[str]", "line": "str", "stripped": "str", "prev_line": "str",
           "src": "list[int]", "pos": "list[int]", "i": "int"},
    calls={"_is_closing_tag": Callee("uf", ret="bool", sig=["line"]),
           "line_is_block_content": Callee("uf", ret="bool", sig=["line"])},
    ghost={"src": "[]", "pos": "[]"},
    hooks=[
        ("after", "call:fixed_lines.append#0", "src.append(-1)"),
        ("after", "call:fixed_lines.append#1", "pos.append(len(fixed_lines) - 1); src.append(i)"),
        ("after", "call:fixed_lines.append#2", "pos.append(len(fixed_lines) - 1); src.append(i)"),
    ],
    defs=F_DEFS,
    loops={0: Loop(inv={
        "lens": "len(src) == len(fixed_lines) and len(pos) == _i and len(fixed_lines) >= _i",
        "entries": "all(ite(src[k] == -1, fixed_lines[k] == '', 0 <= src[k] and src[k] < _i and pos[src[k]] == k"
                   " and fixed_lines[k] == norm(lines[src[k]])) for k in range(len(fixed_lines)))",
        "kept_in_order": "all(0 <= pos[j] and pos[j] < len(fixed_lines) and src[pos[j]] == j"
                         " and implies(j > 0, pos[j - 1] < pos[j]) for j in range(_i))",
        "last": "implies(_i > 0, pos[_i - 1] == len(fixed_lines) - 1)",
        "blank_only_before_closing_after_block": "all(implies(src[k] == -1, k > 0 and k + 1 < len(fixed_lines) and src[k + 1] >= 0"
                                                 " and closing(lines[src[k + 1]]) and call('line_is_block_content', fixed_lines[k - 1])"
                                                 " and strip(fixed_lines[k - 1]) != '') for k in range(len(fixed_lines)))",
    }, modifies=["src", "pos"], decreases="len(lines) - _i")},
    ensures={
        # nothing but blank lines is inserted, every source line is kept, in order; a closing tag line loses at most its
        # leading blanks; a blank line is inserted only between (non-empty) block content and a closing tag
        "lines_kept": "len(pos) == len(lines) and len(src) == len(fixed_lines)"
                      " and all(src[pos[j]] == j and implies(j > 0, pos[j - 1] < pos[j]) for j in range(len(lines)))",
        "entries": "all(ite(src[k] == -1, fixed_lines[k] == '', fixed_lines[k] == norm(lines[src[k]])) for k in range(len(fixed_lines)))",
        "blank_only_before_closing_after_block": "all(implies(src[k] == -1, k > 0 and k + 1 < len(fixed_lines) and closing(lines[src[k + 1]])"
                                                 " and call('line_is_block_content', fixed_lines[k - 1])) for k in range(len(fixed_lines)))",
        "joined": "result == joinr('\\n', fixed_lines, 0, len(fixed_lines))",
        # C06/C01: a tag line inside a container (indented continuation) should stay where it is -- it does not
        "closing_tags_keep_indent": Clause("all(fixed_lines[pos[j]] == lines[j] for j in range(len(lines)))",
                                           props=["C06", "C01"], finding="C01-closing-tag-unindented"),
        "closing_tags_keep_indent.residual": Clause("all(implies(lstrip(lines[j]) == lines[j], fixed_lines[pos[j]] == lines[j])"
                                                    " for j in range(len(lines)))", props=["C06", "C01"]),
    },
    canaries=[
        ("                if not prev_is_empty and prev_is_block:", "                if prev_is_block:", None, ["blank_only_before"]),
        ("            fixed_lines.append(stripped)", "            fixed_lines.append(stripped.rstrip())", None, ["entries"]),
        ("        else:\n            fixed_lines.append(line)", "        else:\n            fixed_lines.append(line.rstrip())", None, ["entries"]),
    ],
))


# --------------------------------------------------------------------------- preprocess_tag_block_spacing
P_DEFS = {
    "tagonly(l)": "call('_is_tag_only_line', l)",
    "block(l)": "call('line_is_block_content', l)",
    # where the property wants a separating blank line: between a tag-only line and block content (list item / table row),
    # in either order, unless one is already there
    "needs_blank(j)": "j >= 1 and strip(lines[j - 1]) != '' and ((tagonly(lines[j - 1]) and block(lines[j]))"
                      " or (block(lines[j - 1]) and tagonly(lines[j])))",
}

GHOST_FENCE = (
    "was_open = g_open; "
    "run = ite(isnone(fence_match), '', val(fence_match).group(1)); "
    "closes = g_open and not isnone(fence_match) and run[0] == g_fence[0] and len(run) >= len(g_fence) and strip(line) == run; "
    "opens = (not g_open) and not isnone(fence_match); "
    "g_fence = ite(opens, run, g_fence); "
    "g_open = ite(opens, True, ite(closes, False, g_open)); "
    "incode.append(was_open)"
)

contract(Contract(
    target=M + ":preprocess_tag_block_spacing",
    props=["C06", "C04", "C02"],
    assumes=['fence regex ^ {0,3}(`{3,}(?=[^`]*$)|~{3,}): group 1 has at least 3 characters; what it matches is uninterpreted here (the spec fence state uses the same match as an oracle) and compared with the CommonMark rule by the function-level sweep fence_opener_sweep', '_is_tag_only_line / line_is_block_content are uninterpreted predicates (bounded layer only)'],
    shards=10,
    params={"text": "str"},
    types={"lines": "list[str]", "result_lines": "list[str]", "line": "str", "prev_line": "str", "open_fence": "opt[str]",
           "fence_match": "opt[ref:Match]", "src": "list[int]", "pos": "list[int]", "incode": "list[bool]", "i": "int",
           "g_open": "bool", "g_fence": "str", "was_open": "bool", "run": "str", "closes": "bool", "opens": "bool",
           "has_tag_only_lines": "bool", "prev_is_empty": "bool"},
    calls={"_is_tag_only_line": Callee("uf", ret="bool", sig=["line"]),
           "line_is_block_content": Callee("uf", ret="bool", sig=["line"]),
           "re.match": Callee("uf", ret="opt[ref:Match]", sig=["pattern", "string"]),
           # assumed of the fence regex ^ {0,3}(`{3,}|~{3,}): group 1 is a run of at least three fence characters
           "Match.group": Callee("uf", ret="str", sig=["self", "n"], post=lambda ex, b, r: ex.th.length(ex.z(r)) >= 3)},
    ghost={"src": "[]", "pos": "[]", "incode": "[]", "g_open": "False", "g_fence": "''", "was_open": "False", "run": "''",
           "closes": "False", "opens": "False"},
    hooks=[
        ("after", "assign:fence_match", GHOST_FENCE),
        ("after", "call:result_lines.append#0", "pos.append(len(result_lines) - 1); src.append(i)"),       # a line inside code
        ("after", "call:result_lines.append#1", "src.append(-1)"),
        ("after", "call:result_lines.append#2", "src.append(-1)"),
        ("after", "call:result_lines.append#3", "pos.append(len(result_lines) - 1); src.append(i)"),
    ],
    defs=P_DEFS,
    loops={0: Loop(inv={
        "lens": "len(src) == len(result_lines) and len(pos) == _i and len(incode) == _i and len(result_lines) >= _i",
        "fence_state": "iff(isnone(open_fence), not g_open) and implies(g_open, val(open_fence) == g_fence)",
        "entries": "all(ite(src[k] == -1, result_lines[k] == '', 0 <= src[k] and src[k] < _i and pos[src[k]] == k"
                   " and result_lines[k] == lines[src[k]]) for k in range(len(result_lines)))",
        "kept_in_order": "all(0 <= pos[j] and pos[j] < len(result_lines) and src[pos[j]] == j"
                         " and implies(j > 0, pos[j - 1] < pos[j]) for j in range(_i))",
        "last": "implies(_i > 0, pos[_i - 1] == len(result_lines) - 1)",
        # C04: nothing is inserted in front of a line that lies inside a fenced code block (or closes it)
        "blank_only_outside_code_where_needed": "all(implies(src[k] == -1, k + 1 < len(result_lines) and"
                                                " ite(src[k + 1] == -1, k + 2 < len(result_lines) and src[k + 2] >= 0 and"
                                                " not incode[src[k + 2]] and needs_blank(src[k + 2]),"
                                                " not incode[src[k + 1]] and needs_blank(src[k + 1])))"
                                                " for k in range(len(result_lines)))",
        # C06: wherever a tag-only line meets block content outside code, a blank line separates them in the output
        "separated_where_needed": "all(implies(not incode[j] and needs_blank(j), pos[j] >= 1 and src[pos[j] - 1] == -1)"
                                  " for j in range(_i))",
    }, modifies=["src", "pos", "incode", "g_open", "g_fence", "was_open", "run", "closes", "opens"],
        decreases="len(lines) - _i")},
    ensures={
        "no_tag_lines_untouched": "implies(not has_tag_only_lines, result == old('text'))",
        "lines_kept_verbatim": "implies(has_tag_only_lines, len(pos) == len(lines) and"
                               " all(result_lines[pos[j]] == lines[j] and implies(j > 0, pos[j - 1] < pos[j]) for j in range(len(lines))))",
        "only_blank_lines_inserted": "implies(has_tag_only_lines, all(implies(src[k] == -1, result_lines[k] == '') for k in range(len(result_lines))))",
        "nothing_inserted_inside_code": "implies(has_tag_only_lines, all(implies(src[k] == -1 and k + 1 < len(result_lines) and src[k + 1] >= 0,"
                                        " not incode[src[k + 1]]) for k in range(len(result_lines))))",
        "separated_where_needed": "implies(has_tag_only_lines, all(implies(not incode[j] and needs_blank(j), pos[j] >= 1 and src[pos[j] - 1] == -1)"
                                  " for j in range(len(lines))))",
        "joined": "implies(has_tag_only_lines, result == joinr('\\n', result_lines, 0, len(result_lines)))",
    },
    canaries=[
        ("and line.strip() == fence_match.group(1)", "and line.rstrip() == fence_match.group(1)", None, ["fence_state"]),
        ("and len(fence_match.group(1)) >= len(open_fence)", "and len(fence_match.group(1)) > len(open_fence)", None, ["fence_state"]),
        ("if not prev_is_empty and _is_tag_only_line(prev_line) and line_is_block_content(line):", "if not prev_is_empty and _is_tag_only_line(prev_line) and line_is_block_content(prev_line):", None, ["separated_where_needed", "blank_only_outside"]),
    ],
))


# --------------------------------------------------------------------------- _fix_multiline_opening_tag_with_closing
_ML_GROUPS = ("closing_tag", "closing_comment", "closing_var", "closing_html")


def _mgroup_model(ex, node, args, kwargs):
    from vfcore.theory import Ref
    from vfcore.values import VOpt
    m, g = ex.z(args[0]), ex.z(args[1])
    return VOpt(ex.th.uf("match_gnone", Ref, ex.th.Str, z3.BoolSort())(m, g), ex.wrap(ex.th.uf("match_gstr", Ref, ex.th.Str, ex.th.Str)(m, g), "str"))


def _search_model(ex, node, args, kwargs):
    """assumed of re.Pattern.search(line): None, or a match whose start and whose named-group starts are positions in line"""
    from vfcore.theory import Int, Ref
    line = args[-1]
    t = ex.z(line)
    m = ex.th.uf("msearch", ex.th.Str, Ref)(t)
    none = ex.th.uf("msearch#none", ex.th.Str, z3.BoolSort())(t)
    L = ex.th.length(t)
    st = ex.th.uf("match_start", Ref, Int)(m)
    ex.pc.append(z3.Implies(z3.Not(none), z3.And(0 <= st, st <= L)))
    gs = ex.th.uf("match_gstart", Ref, ex.th.Str, Int)
    gn = ex.th.uf("match_gnone", Ref, ex.th.Str, z3.BoolSort())
    for g in _ML_GROUPS:
        p = gs(m, ex.z(g))
        ex.pc.append(z3.Implies(z3.Not(none), z3.And(st <= p, p <= L)))
    # every alternative of the pattern contains its named group outside any optional part (ST obligation
    # shape/...:_multiline_closing_pattern/every_alternative_has_its_named_group of C06), so a match has one of them
    ex.pc.append(z3.Implies(z3.Not(none), z3.Or(*[z3.Not(gn(m, ex.z(g))) for g in _ML_GROUPS])))
    from vfcore.values import VOpt
    return VOpt(none, ex.wrap(m, "ref", cls="Match"))


def _mstart_model(ex, node, args, kwargs):
    from vfcore.theory import Int, Ref
    m = args[0]
    if len(args) == 1:
        return ex.wrap(ex.th.uf("match_start", Ref, Int)(ex.z(m)), "int")
    return ex.wrap(ex.th.uf("match_gstart", Ref, ex.th.Str, Int)(ex.z(m), ex.z(args[1])), "int")


ML_DEFS = {
    "m(l)": "call('Pattern.search', l)",
    "tagstart(l)": "lstrip(l).startswith('{%') or lstrip(l).startswith('{#') or lstrip(l).startswith('{{') or lstrip(l).startswith('<!--')",
    "opened_here(l)": "('{%' in l[0:val(m(l)).start()]) or ('{#' in l[0:val(m(l)).start()]) or ('{{' in l[0:val(m(l)).start()])"
                      " or ('<!--' in l[0:val(m(l)).start()])",
    # the line is the tail of a multi-line opening tag followed by its closing tag (the documented Markdoc work-around)
    "splits(l)": "not tagstart(l) and not isnone(m(l)) and not opened_here(l)",
    "grp(l, g)": "not isnone(val(m(l)).group(g))",
    "cut(l)": "ite(grp(l, 'closing_tag'), val(m(l)).start('closing_tag'), ite(grp(l, 'closing_comment'), val(m(l)).start('closing_comment'),"
              " ite(grp(l, 'closing_var'), val(m(l)).start('closing_var'), val(m(l)).start('closing_html'))))",
    "anygrp(l)": "grp(l, 'closing_tag') or grp(l, 'closing_comment') or grp(l, 'closing_var') or grp(l, 'closing_html')",
}

contract(Contract(
    target=M + ":_fix_multiline_opening_tag_with_closing",
    props=["C06", "C04", "C05"],
    assumes=["re.Pattern.search returns None or a match whose start() and named-group starts are positions inside the line; "
             "what _multiline_closing_pattern matches is uninterpreted (bounded layer of C06), except that a match has one of its four "
             "named groups (ST obligation every_alternative_has_its_named_group of C06)"],
    shards=8,
    params={"text": "str"},
    types={"lines": "list[str]", "result_lines": "list[str]", "line": "str", "stripped": "str", "i": "int", "is_tag_start": "bool",
           "match": "opt[ref:Match]", "split_pos": "int", "before": "str", "closing": "str", "group_name": "str",
           "src": "list[int]", "part": "list[int]", "pos": "list[int]"},
    calls={"Pattern.search": Callee("custom", handler=_search_model),
           "Match.start": Callee("custom", handler=_mstart_model),
           "Match.group": Callee("custom", handler=_mgroup_model)},
    ghost={"src": "[]", "part": "[]", "pos": "[]"},
    hooks=[
        ("after", "call:result_lines.append#0", "pos.append(len(result_lines) - 1); src.append(i); part.append(0)"),
        ("after", "call:result_lines.append#1", "pos.append(len(result_lines) - 1); src.append(i); part.append(1)"),
        ("after", "call:result_lines.append#2", "src.append(i); part.append(2)"),
        ("after", "call:result_lines.append#3", "pos.append(len(result_lines) - 1); src.append(i); part.append(0)"),
    ],
    defs=ML_DEFS,
    loops={
        0: Loop(inv={
            "lens": "len(src) == len(result_lines) and len(part) == len(result_lines) and len(pos) == _i and len(result_lines) >= _i",
            "entries": "all(0 <= src[k] and src[k] < _i and ite(part[k] == 0, result_lines[k] == lines[src[k]] and pos[src[k]] == k,"
                       " ite(part[k] == 1, pos[src[k]] == k and k + 1 < len(result_lines) and part[k + 1] == 2 and src[k + 1] == src[k]"
                       " and result_lines[k] == rstrip(lines[src[k]][0:cut(lines[src[k]])]),"
                       " part[k] == 2 and k >= 1 and part[k - 1] == 1 and src[k - 1] == src[k] and pos[src[k]] == k - 1"
                       " and result_lines[k] == lstrip(lines[src[k]][cut(lines[src[k]]):len(lines[src[k]])])))"
                       " for k in range(len(result_lines)))",
            "kept_in_order": "all(0 <= pos[j] and pos[j] < len(result_lines) and src[pos[j]] == j and implies(j > 0, pos[j - 1] < pos[j])"
                             " for j in range(_i))",
            # a line is split exactly when the documented pattern applies: never the first line, never a line that starts
            # with a tag opener or that opened the tag it closes
            "split_iff": "all(iff(part[pos[j]] == 1, j > 0 and splits(lines[j]) and anygrp(lines[j])) for j in range(_i))",
            "last": "implies(_i > 0, pos[_i - 1] >= len(result_lines) - 2)",
        }, modifies=["src", "part", "pos"], decreases="len(lines) - _i"),
        1: Loop(unroll=True),
    },
    ensures={
        "single_line_untouched": "implies(not ('\\n' in old('text')), result == old('text'))",
        "joined": "implies('\\n' in old('text'), result == joinr('\\n', result_lines, 0, len(result_lines)))",
        # every source line is kept in order; it is either copied verbatim or cut in two at the start of the closing tag, the
        # blanks at the cut being the only characters dropped
        "lines_kept": "implies('\\n' in old('text'), len(pos) == len(lines) and all(src[pos[j]] == j and implies(j > 0, pos[j - 1] < pos[j])"
                      " and ite(part[pos[j]] == 0, result_lines[pos[j]] == lines[j],"
                      " result_lines[pos[j]] == rstrip(lines[j][0:cut(lines[j])]) and"
                      " result_lines[pos[j] + 1] == lstrip(lines[j][cut(lines[j]):len(lines[j])])) for j in range(len(lines))))",
        "nothing_else_emitted": "implies('\\n' in old('text'), all(pos[src[k]] == k or (part[k] == 2 and pos[src[k]] == k - 1)"
                                " for k in range(len(result_lines))))",
        "split_iff": "implies('\\n' in old('text'), all(iff(part[pos[j]] == 1, j > 0 and splits(lines[j]) and anygrp(lines[j]))"
                     " for j in range(len(lines))))",
    },
    canaries=[
        ("                        before = line[:split_pos].rstrip()", "                        before = line[:split_pos].strip()", None, ["entries"]),
        ("        if i == 0:", "        if i == 1:", None, ["split_iff"]),
        ("                        closing = line[split_pos:].lstrip()", "                        closing = line[split_pos + 1:].lstrip()", None, ["entries"]),
    ],
))
