"""Contracts for flowmark.linewrapping.line_wrappers (C05, C01 hard breaks, C11 sentence wrapper)."""
import z3

from vfcore.contracts import Callee, Clause, Contract, Loop, contract
from contracts.text_wrapping import w_setup

M = "flowmark.linewrapping.line_wrappers"
TW = "flowmark.linewrapping.text_wrapping"

# --------------------------------------------------------------------------- line_wrap_to_width.<locals>.line_wrapper
contract(Contract(
    target=M + ":line_wrap_to_width.<locals>.line_wrapper",
    props=["C05"],
    params={"text": "str", "initial_indent": "str", "subsequent_indent": "str"},
    free={"width": "int", "len_fn": "callable", "is_markdown": "bool"},
    calls={"wrap_paragraph": Callee("uf", ret="str", target=TW + ":wrap_paragraph"),
           "len_fn": Callee("uf", ret="int", sig=["s"])},
    ensures={
        # the fill-to-width wrapper is wrap_paragraph at the configured width with the container
        # prefixes as indents (initial column 0, whitespace collapsed and dropped, default splitter)
        "is_wrap_paragraph": "result == call('wrap_paragraph', text, width=width, initial_indent=initial_indent,"
                             " subsequent_indent=subsequent_indent, len_fn=len_fn, is_markdown=is_markdown)",
    },
    canaries=[("subsequent_indent=subsequent_indent", "subsequent_indent=initial_indent"),
              ("width=width,", "width=width - 1,")],
))

# --------------------------------------------------------------------------- line_wrap_to_width / line_wrap_by_sentence (composition)
for _name, _inner in (("line_wrap_to_width", "line_wrapper"), ("line_wrap_by_sentence", "line_wrapper")):
    contract(Contract(
        target=M + ":" + _name,
        props=["C05", "C01", "C06"],
        params=({"width": "int", "len_fn": "callable", "is_markdown": "bool"} if _name == "line_wrap_to_width" else
                {"split_sentences": "callable", "width": "int", "min_line_len": "int", "len_fn": "callable", "is_markdown": "bool"}),
        calls={"add_tag_newline_handling": Callee("uf", ret="ref:LineWrapper", sig=["base_wrapper"]),
               "_add_markdown_hard_break_handling": Callee("uf", ret="ref:LineWrapper", sig=["base_wrapper"])},
        ensures={
            # Markdown mode: hard-break handling outside, tag-newline handling inside, the plain wrapper innermost
            "composition": lambda ex: (
                ex.b(ex.truth(ex.eq(ex.envs[0]["result"], ex.spec_eval_value(
                    "call('_add_markdown_hard_break_handling', call('add_tag_newline_handling', line_wrapper))"))))
                if ex.outcome and not isinstance(ex.envs[0]["result"], type(ex.envs[0]["line_wrapper"]))
                else z3.Not(ex.b(ex.truth(ex.envs[0]["is_markdown"]))) if ex.envs[0]["result"] is ex.envs[0]["line_wrapper"] else False),
        },
        canaries=[("        enhanced = add_tag_newline_handling(line_wrapper)\n        return _add_markdown_hard_break_handling(enhanced)",
                   "        enhanced = _add_markdown_hard_break_handling(line_wrapper)\n        return add_tag_newline_handling(enhanced)")],
    ))

# --------------------------------------------------------------------------- hard-break wrapper
HB_DEFS = {
    "ind(k)": "ite(k == 0, initial_indent, subsequent_indent)",
    "piece(k)": "base_wrapper(segments[k], ind(k), subsequent_indent) + ite(k == len(segments) - 1, '', '\\\\')",
}

contract(Contract(
    target=M + ":_add_markdown_hard_break_handling.<locals>.enhanced_wrapper",
    props=["C01", "C05"],
    params={"text": "str", "initial_indent": "str", "subsequent_indent": "str"},
    free={"base_wrapper": "callable"},
    types={"wrapped_segments": "list[str]", "segment": "str", "i": "int", "is_first": "bool", "is_last": "bool",
           "cur_initial_indent": "str", "wrapped_segment": "str"},
    calls={"split_markdown_hard_breaks": Callee("uf", ret="list[str]", sig=["text"]),
           "base_wrapper": Callee("uf", ret="str", sig=["text", "initial_indent", "subsequent_indent"])},
    defs=HB_DEFS,
    loops={0: Loop(inv={"len": "len(wrapped_segments) == _i",
                        "pieces": "all(wrapped_segments[k] == piece(k) for k in range(_i))"},
                   decreases="len(segments) - _i")},
    ensures={
        # C01: number and order of hard breaks preserved; every segment is wrapped by exactly one call of the
        # base wrapper (first with the initial indent, the others with the subsequent indent) and the pieces are
        # rejoined with backslash-newline
        "empty": "implies(len(segments) == 0, result == '')",
        "single": "implies(len(segments) == 1, result == base_wrapper(text, initial_indent, subsequent_indent))",
        "many.count": "implies(len(segments) > 1, len(wrapped_segments) == len(segments))",
        "many.pieces": "implies(len(segments) > 1, all(wrapped_segments[k] == piece(k) for k in range(len(segments))))",
        "many.join": "implies(len(segments) > 1, result == joinr('\\n', wrapped_segments, 0, len(wrapped_segments)))",
    },
    canaries=[
        ("cur_initial_indent = initial_indent if is_first else subsequent_indent", "cur_initial_indent = initial_indent", None, ["inv-preserve"]),
        ('wrapped_segments.append(wrapped_segment + "\\\\")', 'wrapped_segments.append(wrapped_segment)', None, ["inv-preserve"]),
        ("is_last = i == len(segments) - 1", "is_last = i == len(segments)", None, ["inv-preserve"]),
        ('return "\\n".join(wrapped_segments)', 'return " ".join(wrapped_segments)', None, ["post[many.join"]),
    ],
))
