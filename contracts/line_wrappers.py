"""Contracts for flowmark.linewrapping.line_wrappers (C05, C01 hard breaks, C11 sentence wrapper)."""
import z3

from vfcore.contracts import Callee, Clause, Contract, Loop, contract
from contracts.text_wrapping import w_setup

M = "flowmark.linewrapping.line_wrappers"
TW = "flowmark.linewrapping.text_wrapping"

# --------------------------------------------------------------------------- line_wrap_to_width.<locals>.line_wrapper
contract(Contract(
    target=M + ":line_wrap_to_width.<locals>.line_wrapper",
    props=["C05"],
    params={"text": "str", "initial_indent": "str", "subsequent_indent": "str"},
    free={"width": "int", "len_fn": "callable", "is_markdown": "bool"},
    calls={"wrap_paragraph": Callee("uf", ret="str", target=TW + ":wrap_paragraph"),
           "len_fn": Callee("uf", ret="int", sig=["s"])},
    ensures={
        # the fill-to-width wrapper is wrap_paragraph at the configured width with the container
        # prefixes as indents (initial column 0, whitespace collapsed and dropped, default splitter)
        "is_wrap_paragraph": "result == call('wrap_paragraph', text, width=width, initial_indent=initial_indent,"
                             " subsequent_indent=subsequent_indent, len_fn=len_fn, is_markdown=is_markdown)",
    },
    canaries=[("subsequent_indent=subsequent_indent", "subsequent_indent=initial_indent"),
              ("width=width,", "width=width - 1,")],
))

# --------------------------------------------------------------------------- line_wrap_to_width / line_wrap_by_sentence (composition)
for _name, _inner in (("line_wrap_to_width", "line_wrapper"), ("line_wrap_by_sentence", "line_wrapper")):
    contract(Contract(
        target=M + ":" + _name,
        props=["C05", "C01", "C06"],
        params=({"width": "int", "len_fn": "callable", "is_markdown": "bool"} if _name == "line_wrap_to_width" else
                {"split_sentences": "callable", "width": "int", "min_line_len": "int", "len_fn": "callable", "is_markdown": "bool"}),
        calls={"add_tag_newline_handling": Callee("uf", ret="ref:LineWrapper", sig=["base_wrapper"]),
               "_add_markdown_hard_break_handling": Callee("uf", ret="ref:LineWrapper", sig=["base_wrapper"])},
        ensures={
            # Markdown mode: hard-break handling outside, tag-newline handling inside, the plain wrapper innermost
            "composition": lambda ex: (
                ex.b(ex.truth(ex.eq(ex.envs[0]["result"], ex.spec_eval_value(
                    "call('_add_markdown_hard_break_handling', call('add_tag_newline_handling', line_wrapper))"))))
                if ex.outcome and not isinstance(ex.envs[0]["result"], type(ex.envs[0]["line_wrapper"]))
                else z3.Not(ex.b(ex.truth(ex.envs[0]["is_markdown"]))) if ex.envs[0]["result"] is ex.envs[0]["line_wrapper"] else False),
        },
        canaries=[("        enhanced = add_tag_newline_handling(line_wrapper)\n        return _add_markdown_hard_break_handling(enhanced)",
                   "        enhanced = _add_markdown_hard_break_handling(line_wrapper)\n        return add_tag_newline_handling(enhanced)")],
    ))

# --------------------------------------------------------------------------- hard-break wrapper
HB_DEFS = {
    "ind(k)": "ite(k == 0, initial_indent, subsequent_indent)",
    # a segment that is followed by a hard break gets the backslash -- behind one space if it ends in a bare URL, which would
    # otherwise swallow the backslash on the next parse (C04/C01)
    "w(k)": "base_wrapper(segments[k], ind(k), subsequent_indent)",
    "piece(k)": "ite(k == len(segments) - 1, w(k), ite(call('_ends_with_bare_url', w(k)), w(k) + ' \\\\', w(k) + '\\\\'))",
}

contract(Contract(
    target=M + ":_add_markdown_hard_break_handling.<locals>.enhanced_wrapper",
    props=["C01", "C05"],
    params={"text": "str", "initial_indent": "str", "subsequent_indent": "str"},
    free={"base_wrapper": "callable"},
    types={"wrapped_segments": "list[str]", "segment": "str", "i": "int", "is_first": "bool", "is_last": "bool",
           "cur_initial_indent": "str", "wrapped_segment": "str"},
    calls={"split_markdown_hard_breaks": Callee("uf", ret="list[str]", sig=["text"]),
           "_ends_with_bare_url": Callee("uf", ret="bool", sig=["text"]),
           "base_wrapper": Callee("uf", ret="str", sig=["text", "initial_indent", "subsequent_indent"])},
    defs=HB_DEFS,
    loops={0: Loop(inv={"len": "len(wrapped_segments) == _i",
                        "pieces": "all(wrapped_segments[k] == piece(k) for k in range(_i))"},
                   decreases="len(segments) - _i")},
    ensures={
        # C01: number and order of hard breaks preserved; every segment is wrapped by exactly one call of the
        # base wrapper (first with the initial indent, the others with the subsequent indent) and the pieces are
        # rejoined with backslash-newline
        "empty": "implies(len(segments) == 0, result == '')",
        "single": "implies(len(segments) == 1, result == base_wrapper(text, initial_indent, subsequent_indent))",
        "many.count": "implies(len(segments) > 1, len(wrapped_segments) == len(segments))",
        "many.pieces": "implies(len(segments) > 1, all(wrapped_segments[k] == piece(k) for k in range(len(segments))))",
        "many.join": "implies(len(segments) > 1, result == joinr('\\n', wrapped_segments, 0, len(wrapped_segments)))",
    },
    canaries=[
        ("cur_initial_indent = initial_indent if is_first else subsequent_indent", "cur_initial_indent = initial_indent", None, ["inv-preserve"]),
        ('                wrapped_segments.append(wrapped_segment + "\\\\")', '                wrapped_segments.append(wrapped_segment)', None, ["inv-preserve"]),
        ('wrapped_segments.append(wrapped_segment + " \\\\")', 'wrapped_segments.append(wrapped_segment + "\\\\")', None, ["inv-preserve"]),
        ("is_last = i == len(segments) - 1", "is_last = i == len(segments)", None, ["inv-preserve"]),
        ('return "\\n".join(wrapped_segments)', 'return " ".join(wrapped_segments)', None, ["post[many.join"]),
    ],
))

# --------------------------------------------------------------------------- line_wrap_by_sentence.<locals>.line_wrapper  (contract V)
V_DEFS = {
    "base_col()": "ite(first0, len_fn(initial_indent), len_fn(subsequent_indent))",
    "carry()": "len(L0) > 0 and len_fn(L0[len(L0) - 1]) < min_line_len",
    "merge()": "len(L0) > 0 and len(w0) > 0 and len_fn(L0[len(L0) - 1]) < min_line_len"
               " and len_fn(L0[len(L0) - 1]) + 1 + len_fn(w0[0]) <= width",
    "prefix(k)": "ite(k == 0, initial_indent, subsequent_indent)",
    # column at which the (short) last line will really stand once the indents are inserted
    "lastcol()": "ite(len(L0) == 1, len_fn(initial_indent), len_fn(subsequent_indent))",
}


def v_setup(ex):
    w_setup(ex)


def w_callee_len_fn(ex, env, bound):
    """line_wrap_by_sentence calls wrap_paragraph_lines with its *default* len_fn (builtin len) while it
    measures the lines with the wrapper's own len_fn; every wrapper flowmark builds uses len for both.
    Assumption (reported): the two coincide."""
    from vfcore.values import VFunc
    w_setup(ex)
    bound["len_fn"] = VFunc("len_fn", "callee", Callee("uf", ret="int", sig=["s"]))
    env["len_fn"] = bound["len_fn"]


contract(Contract(
    target=M + ":line_wrap_by_sentence.<locals>.line_wrapper",
    props=["C11", "C05", "C03"],
    params={"text": "str", "initial_indent": "str", "subsequent_indent": "str"},
    free={"width": "int", "len_fn": "callable", "is_markdown": "bool", "min_line_len": "int",
          "split_sentences": "callable"},
    types={"lines": "list[str]", "wrapped": "list[str]", "L0": "list[str]", "w0": "list[str]", "first0": "bool",
           "first_line": "bool", "current_column": "int", "sentence": "str", "pre": "list[str]"},
    setup=v_setup,
    calls={
        "len_fn": Callee("uf", ret="int", sig=["s"]),
        "split_sentences": Callee("uf", ret="list[str]", sig=["text"]),
        "wrap_paragraph_lines": Callee("contract", ret="list[str]", target=TW + ":wrap_paragraph_lines"),
        "denormalize_adjacent_tags": Callee("uf", ret="str", sig=["text"]),
        "re.sub": Callee("uf", ret="str", sig=["pattern", "repl", "string"]),
    },
    at_call={"wrap_paragraph_lines": {
        # each sentence is wrapped on its own, at the configured width, continuing in the column where a
        # short previous line ends (C11 "each sentence wrapped on its own; short last line merged")
        "text": Clause("arg_text == sentence", props=["C11"]),
        "width": Clause("arg_width == width", props=["C05", "C11"]),
        # from the property: the sentence continues in the column where it would really stand if merged
        # (indent of the short last line + its text + the joining space), else at the line's own indent.
        # Known finding on this tree (joining space and first-line indent are not accounted for).
        "initial_column": Clause("arg_initial_column == ite(carry(), lastcol() + len_fn(L0[len(L0) - 1]) + 1, base_col())",
                                 props=["C05", "C11"], finding="C11-carry-column"),
        "initial_column.residual": Clause("implies(not carry(), arg_initial_column == base_col())", props=["C05", "C11"]),
        "initial_column.as_coded": Clause("arg_initial_column == base_col() + ite(carry(), len_fn(L0[len(L0) - 1]), 0)", props=["C11"]),
        "subsequent_offset": Clause("arg_subsequent_offset == len_fn(subsequent_indent)", props=["C05"]),
        "is_markdown": Clause("arg_is_markdown == is_markdown", props=["C01", "C05"]),
    }},
    ghost={"L0": "[]", "w0": "[]", "first0": "True", "pre": "[]"},
    hooks=[
        ("before", "assign:current_column@loop", "L0 = list(lines); first0 = first_line"),
        ("after", "assign:wrapped", "w0 = list(wrapped)"),
        ("before", "if initial_indent and len(lines) > 0", "pre = list(lines)"),
    ],
    defs=V_DEFS,
    loops={0: Loop(
        inv={"first": "first_line == (_i == 0)", "first_empty": "implies(_i == 0, len(lines) == 0)"},
        modifies=["L0", "w0", "first0"],
        body_ensures={
            # strongest per-iteration postcondition: either the sentence's first wrapped line is merged into a
            # short last line (and only then), or the wrapped lines are appended; nothing before the last line moves
            "structure.merge": Clause(
                "implies(merge(), len(lines) == len(L0) + len(w0) - 1"
                " and lines[len(L0) - 1] == L0[len(L0) - 1] + ' ' + w0[0]"
                " and all(implies(k >= 1, lines[len(L0) - 1 + k] == w0[k]) for k in range(len(w0)))"
                " and all(implies(j < len(L0) - 1, lines[j] == L0[j]) for j in range(len(L0))))", props=["C11", "C05"]),
            "structure.append": Clause(
                "implies(not merge(), len(lines) == len(L0) + len(w0)"
                " and all(lines[len(L0) + k] == w0[k] for k in range(len(w0)))"
                " and all(lines[j] == L0[j] for j in range(len(L0))))", props=["C11", "C05"]),
            # C05 width bound of a merged line, indent included.  Known finding on this tree: the merge test
            # ignores the indent; the residual (no indent) is proved.
            "merged.fits": Clause("implies(merge(), lastcol() + len_fn(lines[len(L0) - 1]) <= width)",
                                  props=["C05"], finding="C05-semantic-merge-indent"),
            "merged.fits.residual": Clause("implies(merge() and lastcol() == 0, lastcol() + len_fn(lines[len(L0) - 1]) <= width)",
                                           props=["C05"]),
            # C11 locality premises: V.prefix_stable and V.carry_only
            "prefix_stable": Clause("len(lines) >= len(L0) and all(implies(j < len(L0) - 1, lines[j] == L0[j]) for j in range(len(L0)))",
                                    props=["C11"]),
            "break_after_sentence": Clause(
                "implies(len(L0) > 0 and len_fn(L0[len(L0) - 1]) >= min_line_len,"
                " len(lines) == len(L0) + len(w0) and all(lines[j] == L0[j] for j in range(len(L0))))", props=["C11"]),
        },
        decreases="len(sentences) - _i")},
    ensures={
        # C05/C03: no wrapping = one line, whitespace runs collapsed exactly as in fill mode
        "no_wrap": Clause("implies(width <= 0, result == initial_indent + strip(call('re.sub', '\\\\s+', ' ', replace(old('text'), '\\n', ' '))))",
                          props=["C05", "C03"]),
        "joined": Clause("implies(width > 0, result == call('denormalize_adjacent_tags', joinr('\\n', lines, 0, len(lines))))",
                         props=["C05"]),
        # C05: every line carries the configured first-line or continuation indent
        "indents": Clause("implies(width > 0, len(lines) == len(pre) and all(lines[k] == prefix(k) + pre[k] for k in range(len(lines))))",
                          props=["C05"]),
    },
    canaries=[
        ("length(lines[-1]) < min_line_len\n                and length", "length(lines[-1]) <= min_line_len\n                and length", None, ["iter-ensures"]),
        ("                wrapped.pop(0)\n", "", None, ["iter-ensures"]),
        ("subsequent_offset=subsequent_indent_len,", "subsequent_offset=initial_indent_len,", None, ["call["]),
        ("current_column = initial_indent_len if first_line else subsequent_indent_len", "current_column = initial_indent_len", None, ["call["]),
        ("            first_line = False\n", "", None, ["inv-preserve", "call["]),
    ],
))
