"""Contracts on file_resolver/gitignore.py: which lines of an ignore file reach pathspec (C18: git's meaning of a line
depends on every character of it, so the lines are handed over verbatim; only blank lines and comment lines are dropped), and
which ignore file applies (C17: the nearest .flowmarkignore walking up, C18: the .gitignore of exactly that directory)."""
import z3

from vfcore.contracts import Callee, Clause, Contract, Loop, contract
from vfcore.theory import Ref

M = "flowmark.file_resolver.gitignore"

R_DEFS = {
    "L()": "call('Path.read_text', old('path')).splitlines()",
    # git: a blank line matches nothing; a line starting with # is a comment (flowmark also drops an indented '#' line, which
    # git would treat as a pattern -- part of the documented 'stripping comments and blanks')
    "keep(l)": "strip(l) != '' and not strip(l).startswith('#')",
}

def _some_line_invalid(ex, bound):
    """assumed of pathspec: from_lines raises only if one of the lines is no valid pattern on its own (Skolem witness)"""
    from vfcore.theory import Int
    lines = ex.as_vlist(bound["lines"], "str")
    w = z3.FreshConst(Int, "badline")
    valid = ex.th.uf("call__is_valid_pattern", ex.th.Str, z3.BoolSort())
    return z3.And(0 <= w, w < ex.z(lines.length), z3.Not(valid(ex.z(ex.list_get(lines, w)))))


def _compiles(ex):
    return [e for e in ex.log if e[0] == "COMPILE"]


def _returned_is_last_compile(ex):
    """a spec that is returned is what pathspec made of the LAST line list handed to it: all rule lines, or -- only after
    pathspec rejected those -- the rule lines that are valid patterns one by one"""
    res = ex.envs[0]["result"]
    cs = _compiles(ex)
    if res is None:
        return True
    if not cs or len(cs) > 2:
        return False
    from vfcore.values import VOpt
    if isinstance(res, VOpt):
        return z3.And(z3.Not(res.is_none), ex.z(res.val) == ex.z(cs[-1][2]))
    return ex.z(res) == ex.z(cs[-1][2])


def _none_only_without_valid_rules(ex):
    """None (for a readable file) only if there is no rule line, or pathspec rejected the rule lines and none of them is a
    valid pattern on its own"""
    res = ex.envs[0]["result"]
    if res is not None:
        return True
    return len(_compiles(ex)) <= 1


contract(Contract(
    target=M + ":_read_ignore_file",
    props=["C18", "C17", "C12"],
    assumes=["Path.read_text returns the file's text or raises OSError / UnicodeDecodeError; str.splitlines is an uninterpreted "
             "function of the text; pathspec.PathSpec.from_lines('gitignore', lines) is git's meaning of those lines (bounded layer of C18) "
             "or raises ValueError, which it does only if one of the lines is no valid pattern on its own (what _is_valid_pattern tests)"],
    params={"path": "ref:Path"},
    types={"text": "str", "lines": "list[str]", "valid": "list[str]"},
    calls={"Path.read_text": Callee("uf", ret="str", sig=["self"], raises=("OSError", "UnicodeDecodeError")),
           "pathspec.PathSpec.from_lines": Callee("effect", ret="ref:PathSpec", effect="COMPILE", sig=["style", "lines"], raises=("ValueError",),
                                                  raise_guard=_some_line_invalid),
           "_is_valid_pattern": Callee("uf", ret="bool", sig=["line"])},
    at_call={
        "pathspec.PathSpec.from_lines": {"gitignore_syntax": "arg_style == 'gitignore'"},
        "pathspec.PathSpec.from_lines#0": {
            # every line handed to pathspec is a line of the file, verbatim and in file order ...
            "lines_verbatim_in_order": "all(0 <= srcidx(arg_lines, k) and srcidx(arg_lines, k) < len(L()) and arg_lines[k] == L()[srcidx(arg_lines, k)]"
                                       " and keep(L()[srcidx(arg_lines, k)]) and implies(k > 0, srcidx(arg_lines, k - 1) < srcidx(arg_lines, k))"
                                       " for k in range(len(arg_lines)))",
            # ... and every line that is neither blank nor a comment is handed over
            "no_rule_dropped": "all(implies(keep(L()[j]), 0 <= keptat(arg_lines, j) and keptat(arg_lines, j) < len(arg_lines)"
                               " and arg_lines[keptat(arg_lines, j)] == L()[j]) for j in range(len(L())))",
        },
        "pathspec.PathSpec.from_lines#1": {
            # the second attempt (after pathspec rejected the rule lines): the same lines, verbatim and in order, minus exactly
            # those that are no valid pattern on their own
            "valid_lines_verbatim_in_order": "all(0 <= srcidx(arg_lines, k) and srcidx(arg_lines, k) < len(lines) and arg_lines[k] == lines[srcidx(arg_lines, k)]"
                                             " and call('_is_valid_pattern', arg_lines[k]) and implies(k > 0, srcidx(arg_lines, k - 1) < srcidx(arg_lines, k))"
                                             " for k in range(len(arg_lines)))",
            "no_valid_rule_dropped": "all(implies(call('_is_valid_pattern', lines[j]), 0 <= keptat(arg_lines, j) and keptat(arg_lines, j) < len(arg_lines)"
                                     " and arg_lines[keptat(arg_lines, j)] == lines[j]) for j in range(len(lines)))",
        },
    },
    defs=R_DEFS,
    ghost={"got_text": "False"},
    hooks=[("after", "assign:text", "got_text = True")],
    raises=(),
    ensures={
        "returned_is_last_compile": Clause(_returned_is_last_compile),
        "none_only_without_valid_rules": Clause(_none_only_without_valid_rules),
        # a readable file whose rule lines pathspec accepts always yields a spec (its rules are never silently dropped)
        "rules_mean_spec": "implies(got_text and isnone(result) and logcount('COMPILE') == 0, all(not keep(L()[j]) for j in range(len(L()))))",
        "unreadable_is_none": "implies(not got_text, isnone(result))",
    },
    canaries=[
        ('line for line in text.splitlines() if line.strip() and not line.strip().startswith("#")',
         'line for line in text.splitlines() if line.strip() and not line.startswith("#")', None, ["lines_verbatim_in_order", "no_rule_dropped"]),
        ('    if not lines:\n        return None', '    if len(lines) < 2:\n        return None', None, ["rules_mean_spec"]),
        ("        valid = [line for line in lines if _is_valid_pattern(line)]", "        valid = [line for line in lines[1:] if _is_valid_pattern(line)]", None, ["no_valid_rule_dropped", "valid_lines_verbatim"]),
    ],
))


# --------------------------------------------------------------------------- load_gitignore
contract(Contract(
    target=M + ":load_gitignore",
    props=["C18"],
    params={"directory": "ref:Path"},
    types={"gitignore": "ref:Path"},
    calls={"Path.is_file": Callee("uf", ret="bool", sig=["self"]),
           "_read_ignore_file": Callee("uf", ret="opt[ref:PathSpec]", sig=["path"])},
    ensures={
        # the rules of a directory are exactly what its own .gitignore says: whatever _read_ignore_file makes of that file
        # (in particular a file of negations only is a rule file like any other)
        "own_file_or_none": "result == ite(call('Path.is_file', (directory / '.gitignore')),"
                            " call('_read_ignore_file', (directory / '.gitignore')), None)",
    },
    canaries=[
        ('gitignore = directory / ".gitignore"', 'gitignore = directory / ".ignore"', None, ["own_file_or_none"]),
        ("    return _read_ignore_file(gitignore)", "    return None", None, ["own_file_or_none"]),
    ],
))


# --------------------------------------------------------------------------- load_tool_ignore
contract(Contract(
    target=M + ":load_tool_ignore",
    props=["C17"],
    assumes=["Path.resolve / Path.parent are uninterpreted; termination of the upward walk rests on Path.parent reaching a fixed "
             "point (the file-system root), which is not proved"],
    params={"tool_name": "str", "start_dir": "ref:Path"},
    types={"ignore_name": "str", "current": "ref:Path", "candidate": "ref:Path", "parent": "ref:Path", "visited": "list[ref:Path]"},
    calls={"Path.is_file": Callee("uf", ret="bool", sig=["self"]),
           "Path.resolve": Callee("uf", ret="ref:Path", sig=["self"]),
           "Path.parent": Callee("attr", ret="ref:Path"),
           "_read_ignore_file": Callee("uf", ret="opt[ref:PathSpec]", sig=["path"])},
    ghost={"visited": "[]"},
    hooks=[("after", "assign:candidate", "visited.append(current)")],
    defs={"cand(d)": "d / ('.' + tool_name + 'ignore')",
          "up(d)": "d.parent"},
    loops={0: Loop(inv={
        # the directories looked at so far are start_dir.resolve() and its successive parents, none of which has the file
        "chain": "ite(len(visited) == 0, current == call('Path.resolve', start_dir),"
                 " visited[0] == call('Path.resolve', start_dir) and current == up(visited[len(visited) - 1])"
                 " and all(implies(k > 0, visited[k] == up(visited[k - 1])) for k in range(len(visited))))",
        "none_had_it": "all(not call('Path.is_file', cand(visited[k])) for k in range(len(visited)))",
        "name": "ignore_name == '.' + tool_name + 'ignore'",
    }, modifies=["visited"])},
    ensures={
        # the NEAREST ignore file walking up decides, whatever it contains: the result is what _read_ignore_file makes of the
        # first candidate that exists ...
        "nearest_file_decides": "implies(len(visited) > 0 and call('Path.is_file', cand(visited[len(visited) - 1])),"
                                " result == call('_read_ignore_file', cand(visited[len(visited) - 1])))",
        "walk_is_the_parent_chain": "len(visited) > 0 and visited[0] == call('Path.resolve', start_dir)"
                                    " and all(implies(k > 0, visited[k] == up(visited[k - 1])) for k in range(len(visited)))"
                                    " and all(implies(k + 1 < len(visited), not call('Path.is_file', cand(visited[k]))) for k in range(len(visited)))",
        # ... and None only when the walk reached the top without finding one
        "none_only_at_the_top": "implies(not call('Path.is_file', cand(visited[len(visited) - 1])),"
                                " isnone(result) and up(visited[len(visited) - 1]) == visited[len(visited) - 1])",
    },
    canaries=[
        ("        current = parent", "        current = parent.parent", None, ["chain"]),
        ("            return _read_ignore_file(candidate)", "            return None", None, ["nearest_file_decides"]),
        ("    current = start_dir.resolve()", "    current = start_dir.resolve().parent", None, ["chain", "walk_is_the_parent_chain"]),
    ],
))
