"""Contracts on the inline leaf methods of MarkdownNormalizer and on the table / footnote / alert block methods.

C04: literal fields (code span text, footnote labels) are copied verbatim.  C01/C02: an escape is kept or dropped exactly as
the escape context says; a hard break resets that context and a soft break does not; table cells escape their pipes; every
table line carries the container prefix.  C12: no raise."""
import z3

from vfcore.contracts import Callee, Clause, Contract, Loop, contract

from contracts.renderer_blocks import render_inline
from contracts.renderer_lists import SELF_FIELDS, render_child, self_setup

M = "flowmark.formats.flowmark_markdown"
N = M + ":MarkdownNormalizer."

contract(Contract(
    target=N + "render_literal",
    props=["C01", "C02", "C12"],
    params={"element": "ref:LiteralEl"},
    self_cls="MarkdownNormalizer",
    setup=self_setup,
    calls={"LiteralEl.children": Callee("attr", ret="str")},
    types={"char": "str", "stripped": "str"},
    defs={"ch()": "element.children", "ctx()": "lstrip(old(self._current_inline_text))"},
    ensures={
        # the escape is dropped only for a period, and then only inside a heading or when the text before it on the line
        # is not a bare digit run (where it would otherwise become an ordered-list marker); every other escape is kept
        "kept_unless_period": "implies(ch() != '.', result == '\\\\' + ch())",
        "period_in_heading": "implies(ch() == '.' and old(self._in_heading), result == '.')",
        "period_after_digits_kept": "implies(ch() == '.' and not old(self._in_heading) and ctx() != '' and ctx().isdigit(),"
                                    " result == '\\\\' + ch())",
        "period_elsewhere": "implies(ch() == '.' and not old(self._in_heading) and not (ctx() != '' and ctx().isdigit()),"
                            " result == '.')",
        # what was emitted is appended to the escape context
        "context_extended": "self._current_inline_text == old(self._current_inline_text) + result",
        "frame": "self._prefix == old(self._prefix) and self._second_prefix == old(self._second_prefix)"
                 " and self._in_heading == old(self._in_heading)",
    },
    canaries=[
        ("if stripped and stripped.isdigit():", "if stripped.isdigit() and False:", None, ["post[period_after_digits_kept"]),
        ("        if self._in_heading:\n", "        if not self._in_heading:\n", None, ["post[period_in_heading"]),
        ('            self._current_inline_text += f"\\\\{char}"\n            return f"\\\\{char}"\n\n        # For periods: remove',
         '            return f"\\\\{char}"\n\n        # For periods: remove', None, ["post[context_extended"]),
    ],
))

contract(Contract(
    target=N + "render_raw_text",
    props=["C01", "C02", "C12"],
    params={"element": "ref:RawTextEl"},
    self_cls="MarkdownNormalizer",
    setup=self_setup,
    calls={"RawTextEl.children": Callee("attr", ret="str"),
           "re.sub": Callee("uf", ret="str", sig=["pattern", "repl", "string"])},
    ensures={"context_extended": "self._current_inline_text == old(self._current_inline_text) + result",
             "frame": "self._prefix == old(self._prefix) and self._second_prefix == old(self._second_prefix)"},
))

contract(Contract(
    target=N + "render_line_break",
    props=["C01", "C02", "C03", "C12"],
    params={"element": "ref:LineBreakEl"},
    self_cls="MarkdownNormalizer",
    setup=self_setup,
    calls={"LineBreakEl.soft": Callee("attr", ret="bool")},
    ensures={
        "soft_is_newline": "implies(element.soft, result == '\\n')",
        "hard_is_backslash_newline": "implies(not element.soft, result == '\\\\\\n')",
        # only a hard break starts a new output line for certain: it resets the escape context; a soft break (which the
        # wrapper may re-flow into the middle of a line) keeps it, recording the break as a word separator
        "context_reset_iff_hard": "implies(element.soft, self._current_inline_text == old(self._current_inline_text) + '\\n')"
                                  " and implies(not element.soft, self._current_inline_text == '')",
    },
    canaries=[("        if not element.soft:\n", "        if True:\n", None, ["post[context_reset_iff_hard"]),
              ('return "\\n" if element.soft else "\\\\\\n"', 'return "\\n"', None, ["post[hard_is"])],
))

contract(Contract(
    target=N + "render_code_span",
    props=["C04", "C01", "C12"],
    params={"element": "ref:CodeSpanEl"},
    self_cls="MarkdownNormalizer",
    setup=self_setup,
    calls={"CodeSpanEl.children": Callee("attr", ret="str"),
           "re.findall": Callee("uf", ret="list[str]", sig=["pattern", "string"])},
    types={"text": "str", "n": "int", "delim": "str"},
    assumes=["re.findall('`+', text) is uninterpreted: that it yields exactly the backtick runs of the text is checked by the "
             "function-level code-span sweep of the bounded layer"],
    loops={0: Loop(inv={"shortest_so_far": "n >= 1 and all(implies(m >= 1, m in runs) for m in range(n))"}, decreases=None)},
    ensures={
        # the span's text is copied verbatim between two equal runs of n backticks (padded with one blank each side when the text
        # starts or ends with a backtick), where n is the SHORTEST length that no backtick run of the text has: the span
        # cannot end early when read back (C01 / C04), and the delimiter is not longer than needed
        "text_verbatim": "result == '`' * n + element.children + '`' * n or result == '`' * n + ' ' + element.children + ' ' + '`' * n",
        "delimiter_differs_from_every_inner_run": Clause("n >= 1 and not (n in runs)", props=["C01", "C04"]),
        "delimiter_is_the_shortest_such": Clause("all(implies(m >= 1, m in runs) for m in range(n))", props=["C04"]),
    },
    canaries=[('        return f"{delim}{text}{delim}"', '        return f"{delim}{text.strip()}{delim}"', None, ["post[text_verbatim"]),
              ("        while n in runs:", "        while n + 1 in runs:", None, ["post[delimiter_differs", "inv-"]),
              ("            n += 1\n", "            n += 2\n", None, ["inv-", "shortest"]),
              ("        n = 1\n", "        n = 2\n", None, ["shortest", "inv-"])],
))

contract(Contract(
    target=N + "render_footnote_ref",
    props=["C04", "C12"],
    params={"element": "ref:FootnoteRefEl"},
    self_cls="MarkdownNormalizer",
    setup=self_setup,
    calls={"FootnoteRefEl.label": Callee("attr", ret="str")},
    ensures={"label_verbatim": "result == '[^' + element.label + ']'"},
))

contract(Contract(
    target=N + "render_strikethrough",
    props=["C01", "C12"],
    params={"element": "ref:Element"},
    self_cls="MarkdownNormalizer",
    setup=self_setup,
    calls={"self.render_children": render_inline("RENDER_CHILDREN")},
    ensures={"delimiters": "result == '~~' + logres('RENDER_CHILDREN') + '~~'"},
))

contract(Contract(
    target=N + "render_table_cell",
    props=["C01", "C04", "C12"],
    params={"element": "ref:Element"},
    self_cls="MarkdownNormalizer",
    setup=self_setup,
    calls={"self.render_children": render_inline("RENDER_CHILDREN")},
    ensures={
        # every pipe of the rendered cell content -- whatever inline element it came from -- is escaped
        "pipes_escaped": "result == replace(logres('RENDER_CHILDREN'), '|', '\\\\|')",
    },
    canaries=[('.replace("|", "\\\\|")', "", None, ["post[pipes_escaped"])],
))


def _footnote_children_in_container(ex):
    calls = [e for e in ex.log if e[0] == "RENDER_CHILDREN"]
    if len(calls) != 1:
        return False
    old = ex.old_envs[0]["self"].fields
    at = calls[0][1]
    label = ex.unit.ref_attr(ex, ex.envs[0]["element"], "label")
    return z3.And(ex.b(ex.truth(ex.eq(at["prefix"], ex.concat([old["_prefix"], "[^", label, "]: "])))),
                  ex.b(ex.truth(ex.eq(at["second"], ex.concat([old["_second_prefix"], "    "])))))


contract(Contract(
    target=N + "render_footnote_def",
    props=["C01", "C04", "C10", "C12"],
    params={"element": "ref:FootnoteDefEl"},
    self_cls="MarkdownNormalizer",
    setup=self_setup,
    calls={"self.render_children": render_child("RENDER_CHILDREN"),
           "self.container": Callee("ctxgen", target=M + ":MarkdownNormalizer.container"),
           "FootnoteDefEl.label": Callee("attr", ret="str")},
    ensures={
        "children_in_container": Clause(_footnote_children_in_container, props=["C01", "C04"]),
        # (the flags decide where blank lines go on THIS pass; a blank line written here becomes a child of the definition on the
        # next pass, so a wrong flag shows as a second-pass difference: the clause also carries C02)
        "state": Clause("self._prefix == self._second_prefix and self._second_prefix == old(self._second_prefix)"
                        " and self._suppress_item_break", props=["C01", "C10", "C02"]),
    },
    canaries=[('with self.container(label_part, "    "):', 'with self.container(label_part, "  "):', None, ["post[children_in_container"])],
))


def _alert_children_in_container(ex):
    calls = [e for e in ex.log if e[0] == "RENDER_CHILDREN"]
    if len(calls) != 1:
        return False
    old = ex.old_envs[0]["self"].fields
    at = calls[0][1]
    return z3.And(ex.b(ex.truth(ex.eq(at["prefix"], ex.concat([old["_second_prefix"], "> "])))),
                  ex.b(ex.truth(ex.eq(at["second"], ex.concat([old["_second_prefix"], "> "])))))


contract(Contract(
    target=N + "render_alert",
    props=["C01", "C10", "C12"],
    params={"element": "ref:AlertEl"},
    self_cls="MarkdownNormalizer",
    setup=self_setup,
    calls={"self.render_children": render_child("RENDER_CHILDREN"),
           "self.container": Callee("ctxgen", target=M + ":MarkdownNormalizer.container"),
           "AlertEl.alert_type": Callee("attr", ret="str")},
    types={"alert_type": "str", "alert_header": "str", "result": "str"},
    ensures={
        # header on the first-line prefix, content on continuation lines inside the quote container
        "header": "startswith(result, old(self._prefix) + '> [!' + element.alert_type + ']\\n')",
        "children_in_container": Clause(_alert_children_in_container, props=["C01"]),
        "state": "self._prefix == self._second_prefix and self._second_prefix == old(self._second_prefix)"
                 " and not self._suppress_item_break",
    },
    canaries=[('alert_header = f"{self._prefix}> [!{alert_type}]\\n"', 'alert_header = f"> [!{alert_type}]\\n"', None, ["post[header"]),
              ("        self._prefix = self._second_prefix\n\n        with self.container", "        with self.container", None, ["post[children_in_container"])],
))


# ---- tables
def render_row(ex, node, args, kwargs):
    s, child = args[0], args[1]
    res = ex.fresh("str", "rendered_row")
    ex.log.append(("RENDER", {"child": child, "prefix": s.fields["_prefix"], "second": s.fields["_second_prefix"]}, res))
    return res


TABLE_DEFS = {
    "norm(d)": "ite(startswith(d, ':') and endswith(d, ':'), ':---:', ite(startswith(d, ':'), ':---',"
               " ite(endswith(d, ':'), '---:', '---')))",
}

contract(Contract(
    target=N + "render_table",
    props=["C01", "C12"],
    params={"element": "ref:TableEl"},
    self_cls="MarkdownNormalizer",
    setup=self_setup,
    calls={"self.render": Callee("custom", handler=render_row),
           "TableEl.children": Callee("attr", ret="list[ref:Element]"),
           "TableEl.delimiters": Callee("attr", ret="list[str]")},
    requires={"marko_table_has_header": "len(element.children) >= 1"},
    types={"lines": "list[str]", "normalized_delimiters": "list[str]", "normalized_delimiter": "str", "delimiter": "str",
           "body": "list[ref:Element]", "head": "ref:Element", "row": "ref:Element"},
    defs=TABLE_DEFS,
    loops={
        0: Loop(inv={"count": "len(normalized_delimiters) == _i",
                     "aligned": "all(normalized_delimiters[j] == norm(element.delimiters[j]) for j in range(_i))",
                     "frame": "len(lines) == 1 and self._prefix == old(self._second_prefix) and self._second_prefix == old(self._second_prefix)"},
                decreases="len(element.delimiters) - _i"),
        1: Loop(inv={"count": "len(lines) == 2 + _i1",
                     "frame": "self._prefix == old(self._second_prefix) and self._second_prefix == old(self._second_prefix)"
                              " and len(normalized_delimiters) == len(element.delimiters)"},
                body_ensures={"row_prefixed": Clause(lambda ex: _row_prefixed(ex))},
                decreases="len(body) - _i1"),
    },
    ensures={
        # one delimiter cell per column, alignment kept, normalised to three dashes
        "alignment_kept": "len(normalized_delimiters) == len(element.delimiters)"
                          " and all(normalized_delimiters[j] == norm(element.delimiters[j]) for j in range(len(element.delimiters)))",
        "line_count": "len(lines) == 1 + len(element.children)",
        "prefix_consumed": "self._prefix == self._second_prefix and self._second_prefix == old(self._second_prefix)",
        "flags": "not self._skip_next_blank_line",
        # C10: the item after a table gets its separator (no suppression left over from a blank line before the table)
        "item_break_not_suppressed": Clause("not self._suppress_item_break", props=["C10", "C01"]),
    },
    canaries=[
        ('normalized_delimiter = "---:"', 'normalized_delimiter = ":---"', None, ["inv-preserve[loop0.aligned"]),
        ('lines.append(f"{self._prefix}{self.render(row)}")', 'lines.append(f"{self.render(row)}")', None, ["row_prefixed"]),
    ],
))


def _row_prefixed(ex):
    """each body row is emitted once, behind the continuation prefix of the container"""
    it = [e for e in ex.log[ex.iter_log_start:] if e[0] == "RENDER"]
    if len(it) != 1:
        return False
    env = ex.envs[0]
    old = ex.old_envs[0]["self"].fields
    lines = env["lines"]
    last = ex.list_get(lines, ex.z(ex.length(lines)) - 1)
    return ex.b(ex.truth(ex.eq(last, ex.concat([old["_second_prefix"], it[0][2]]))))


# ---- images
contract(Contract(
    target=N + "render_image",
    props=["C04", "C01", "C12"],
    params={"element": "ref:ImageEl"},
    self_cls="MarkdownNormalizer",
    setup=self_setup,
    types={"template": "str", "title": "str"},
    calls={"self.render_children": render_inline("RENDER_CHILDREN"),
           "ImageEl.dest": Callee("attr", ret="str"), "ImageEl.title": Callee("attr", ret="opt[str]"),
           "_normalize_title_quotes": Callee("uf", ret="str", sig=["title"]),
           "_link_destination": Callee("uf", ret="str", sig=["dest", "has_title"])},
    assumes=["_normalize_title_quotes is uninterpreted (what it does to quotes inside a title is the recorded finding C01-title-quotes)",
             "_link_destination is uninterpreted here: that it writes a destination which reads back as itself (plain when possible, "
             "<...> otherwise) is the function-level sweep link_destination_roundtrip of the bounded layer"],
    ensures={
        # alt text = the rendered children, the destination through _link_destination only, the title only through _normalize_title_quotes
        "no_title": "implies(isnone(element.title) or val(element.title) == '',"
                    " result == '![' + logres('RENDER_CHILDREN') + '](' + call('_link_destination', element.dest, False) + ')')",
        "with_title": "implies(not isnone(element.title) and val(element.title) != '',"
                      " result == '![' + logres('RENDER_CHILDREN') + '](' + call('_link_destination', element.dest, True) + ' '"
                      " + call('_normalize_title_quotes', val(element.title)) + ')')",
    },
    canaries=[('template = "![{}]({}{})"', 'template = "![{}]({} {})"', None, ["post[no_title"]),
              ('dest = _link_destination(element.dest, bool(element.title))', 'dest = _link_destination(element.dest.strip(), bool(element.title))', None, ["post["])],
))


# ---- links
def next_label(ex, node, args, kwargs):
    """the reference-label lookup `next((k for k, v in defs.items() if v == (dest, title)), None)` is abstracted to an
    optional label (which definitions match is not decided here: bounded layers of C01 / C04)"""
    from vfcore.values import VOpt
    return VOpt(z3.FreshConst(z3.BoolSort(), "label?none"), ex.fresh("str", "label"))


contract(Contract(
    target=N + "render_link",
    props=["C04", "C01", "C12"],
    params={"element": "ref:LinkEl"},
    self_cls="MarkdownNormalizer",
    setup=lambda ex: (self_setup(ex), ex.envs[0]["self"].fields.__setitem__("root_node", ex.mk("ref:Document", "root_node"))),
    types={"link_text": "str", "link_title": "opt[str]", "label": "opt[str]", "title": "str"},
    calls={"self.render_children": render_inline("RENDER_CHILDREN"),
           "LinkEl.dest": Callee("attr", ret="str"), "LinkEl.title": Callee("attr", ret="opt[str]"),
           "_normalize_title_quotes": Callee("uf", ret="str", sig=["title"]),
           "_link_destination": Callee("uf", ret="str", sig=["dest", "has_title"]),
           "next": Callee("custom", handler=next_label, lazy=True)},
    assumes=["which link definition matches (destination, title) is abstracted: the label is an arbitrary optional string",
             "_link_destination is uninterpreted here (function-level sweep link_destination_roundtrip of the bounded layer)"],
    ensures={
        # inline form: text, destination verbatim, the title only through _normalize_title_quotes
        "inline_form": "implies(isnone(label) and (isnone(element.title) or val(element.title) == ''),"
                       " result == '[' + logres('RENDER_CHILDREN') + '](' + call('_link_destination', element.dest, False) + ')')"
                       " and implies(isnone(label) and not isnone(element.title) and val(element.title) != '',"
                       " result == '[' + logres('RENDER_CHILDREN') + '](' + call('_link_destination', element.dest, True) + ' '"
                       " + call('_normalize_title_quotes', val(element.title)) + ')')",
        "reference_form": "implies(not isnone(label), result == '[' + val(label) + ']' or"
                          " result == '[' + logres('RENDER_CHILDREN') + '][' + val(label) + ']')",
    },
    canaries=[('dest = _link_destination(element.dest, link_title is not None)', 'dest = _link_destination(element.dest.strip(), link_title is not None)', None, ["post[inline_form"]),
              ('return f"[{link_text}][{label}]"', 'return f"[{label}][{link_text}]"', None, ["post[reference_form"])],
))


# ---- table rows (round 12): every cell of the row is written, once, in order, between the pipes
def _render_cell_uf(ex, node, args, kwargs):
    """self.render(cell) as an uninterpreted function of the cell (the renderer object itself is not an argument of it)"""
    cell = ex.z(args[-1])       # the code's call carries the bound renderer first; a clause's call('self.render', cell) only the cell
    f = ex.th.uf("uf!rendered_cell", cell.sort(), ex.th.Str)
    return ex.wrap(f(cell), "str")


contract(Contract(
    target=N + "render_table_row",
    props=["C01", "C02", "C12"],
    assumes=["self.render(cell) is an uninterpreted function of the cell here (its own contract is render_table_cell); "
             "TableRowEl.children is Marko's list of the row's cells"],
    params={"element": "ref:TableRowEl"},
    self_cls="MarkdownNormalizer",
    setup=self_setup,
    calls={"self.render": Callee("custom", handler=_render_cell_uf),
           "TableRowEl.children": Callee("attr", ret="list[ref:Element]")},
    ensures={
        # the strings joined (`_comp0`: the list the code's generator expression produced) are the rendered cells: one per
        # cell of the row, in the row's order, none dropped ...
        "all_cells_in_order": "len(_comp0) == len(element.children)"
                              " and all(_comp0[k] == call('self.render', element.children[k]) for k in range(len(element.children)))",
        # ... and the row is exactly those, ' | ' between them, inside one pipe at either end
        "row_is_the_joined_cells_between_pipes": "result == '| ' + joinr(' | ', _comp0, 0, len(_comp0)) + ' |\\n'",
    },
    canaries=[
        ("for cell in element.children)", "for cell in element.children[:-1])", None, ["all_cells_in_order"]),
        ("' | '.join(", "'|'.join(", None, ["post[row_is"]),
        ('} |\\n"', '}|\\n"', None, ["post[row_is"]),
    ],
))
