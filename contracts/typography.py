"""Contracts for the typography callbacks (C08 relation Q, C09 relation D).

The group structure of a match is *derived from the live pattern* with re._parser (the pattern must be a
concatenation of capture groups / literal alternatives of the expected shape, otherwise: contract drift)."""
import re
import re._parser as sre_parse

import z3

from vfcore import extract
from vfcore.contracts import Callee, Clause, Contract, contract
from vfcore.sx_base import GenError
from vfcore.values import Sym, VOpt

SQ = "flowmark.typography.smartquotes"
EL = "flowmark.typography.ellipses"

PAIRS = {('"', "“"), ('"', "”"), ("'", "‘"), ("'", "’")}


def quote_pattern_shape():
    """(double quote char, single quote char): QUOTE_PATTERN == G1 (?: q G2 q | q' G3 q' ) G4"""
    pat = extract.live_module(SQ).QUOTE_PATTERN
    tree = sre_parse.parse(pat.pattern, pat.flags)
    items = list(tree)
    ops = [str(op) for op, _ in items]
    if ops != ["SUBPATTERN", "BRANCH", "SUBPATTERN"] or pat.groups != 4:
        raise GenError("contract drift: QUOTE_PATTERN no longer has the shape G1 (?:qG2q|q'G3q') G4: %s" % ops)
    alts = items[1][1][1]
    quotes = []
    for alt in alts:
        seq = list(alt)
        kinds = [str(op) for op, _ in seq]
        if kinds != ["LITERAL", "SUBPATTERN", "LITERAL"] or seq[0][1] != seq[2][1]:
            raise GenError("contract drift: QUOTE_PATTERN alternative is not  q (group) q")
        quotes.append((chr(seq[0][1]), seq[1][1][0]))
    if sorted(g for _, g in quotes) != [2, 3]:
        raise GenError("contract drift: QUOTE_PATTERN groups")
    return dict((g, q) for q, g in quotes)


def sq_setup(ex):
    q = quote_pattern_shape()
    g1, g4 = ex.fresh("str", "g1"), ex.fresh("str", "g4")
    which = ex.choose(2, "alternative")
    inner = ex.fresh("str", "content")
    groups = {1: g1, 4: g4, 2: None, 3: None}
    groups[2 + which] = inner
    groups[0] = ex.concat([g1, q[2 + which], inner, q[2 + which], g4])
    ex.match_groups = groups


def match_group(ex, node, args, kwargs):
    i = args[1] if len(args) > 1 else 0
    if not isinstance(i, int):
        raise GenError("match.group with symbolic index")
    return ex.match_groups[i]


def atoms_of(ex, v):
    """flatten a string value into characters of literals and opaque atoms"""
    t = ex.z(v)
    out = []
    for a in ex.th.atoms(t):
        lv = ex.th.litval(a)
        if lv is not None:
            out.extend(("c", ch) for ch in lv)
        else:
            out.append(("a", a.get_id()))
    return out


def Q(ex, a, b):
    """relation Q of C08 decided structurally (sound by L-congruence: Q is reflexive and preserved by
    concatenation): same atoms position by position, except a straight quote may become the matching curly one"""
    xa, xb = atoms_of(ex, a), atoms_of(ex, b)
    if len(xa) != len(xb):
        return False
    for x, y in zip(xa, xb):
        if x == y:
            continue
        if x[0] == "c" and y[0] == "c" and (x[1], y[1]) in PAIRS:
            continue
        return False
    return True


contract(Contract(
    target=SQ + ":_apply_smart_quotes_to_text.<locals>.replace_quotes",
    props=["C08"],
    params={"match": "ref:Match"},
    setup=sq_setup,
    calls={"Match.group": Callee("custom", handler=match_group),
           "is_multi_paragraph": Callee("uf", ret="bool", sig=["text"])},
    ensures={
        # C08: the replacement differs from the matched text only at the two quote positions, where the straight
        # quote becomes the matching curly one (same length, position by position)
        "Q": Clause(lambda ex: Q(ex, ex.match_groups[0], ex.envs[0]["result"])),
        "content_defined": Clause(lambda ex: ex.envs[0]["content"] is not None),
    },
    canaries=[
        ('return prefix + "\\u201c" + double_content + "\\u201d" + suffix', 'return prefix + "\\u201c" + double_content + "\\u201d"'),
        ('return prefix + "\\u2018" + single_content + "\\u2019" + suffix', 'return prefix + "\\u2018" + single_content + "\\u2018\\u2019" + suffix'),
        ('return prefix + "\\u201c" + double_content + "\\u201d" + suffix', 'return prefix + "\\u201c" + double_content.strip() + "\\u201d" + suffix'),
    ],
))


# --------------------------------------------------------------------------- ellipses.replace_match
def ellipsis_pattern_shape():
    """ELLIPSIS_PATTERN is five consecutive capture groups and the language of group 3 is exactly {'...'} (C09: only
    three-dot runs are touched).  Stated on the language, not the spelling; the same fact is the ST obligation of
    props/C09.py, which reports its failure as a violation with a searched input."""
    from vfcore import relang
    pat = extract.live_module(EL).ELLIPSIS_PATTERN
    groups = relang.top_groups(pat)
    if [g for g, _ in groups] != [1, 2, 3, 4, 5] or pat.groups != 5:
        raise GenError("contract drift: ELLIPSIS_PATTERN is no longer five consecutive groups: %s" % [g for g, _ in groups])
    lang = relang.finite_language(groups[2][1])
    if lang != {"..."}:
        raise GenError("precondition of the callback contract fails: group 3 of ELLIPSIS_PATTERN matches %r, not exactly '...'"
                       % (sorted(lang) if lang is not None else "an unbounded language"))


def el_setup(ex):
    ellipsis_pattern_shape()
    g = {i: ex.fresh("str", "g%d" % i) for i in (1, 2, 4, 5)}
    g[3] = "..."
    g[0] = ex.concat([g[1], g[2], g[3], g[4], g[5]])
    ex.match_groups = g


def D_shape(ex):
    """C09: the callback returns the match unchanged, or prefix + (space | the spaces before) + '…' + punctuation +
    (space | the spaces after): only the three dots and the spaces directly around them change"""
    g = ex.match_groups
    res = ex.envs[0]["result"]
    opts = [g[0]]
    for before in (" ", g[2]):
        for after in (" ", g[5]):
            opts.append(ex.concat([g[1], before, "…", g[4], after]))
    return z3.Or(*[ex.b(ex.truth(ex.eq(res, o))) for o in opts])


contract(Contract(
    target=EL + ":ellipses.<locals>.replace_match",
    props=["C09"],
    params={"match": "ref:Match"},
    free={"text": "str", "tag_spans": "list[tuple[int,int]]"},
    setup=el_setup,
    calls={"Match.group": Callee("custom", handler=match_group),
           "Match.end": Callee("uf", ret="int", sig=["self"],
                               post=lambda ex, b, r: ex.z(r) >= 0),
           "Match.start": Callee("uf", ret="int", sig=["self", "group"], post=lambda ex, b, r: ex.z(r) >= 0),
           "re.match": Callee("uf", ret="bool", sig=["pattern", "string"])},
    ensures={"D": Clause(D_shape),
             # C09 / C04 / C06: a dot run that lies inside a template tag is returned as matched
             "inside_a_tag_untouched": Clause("all(implies(tag_spans[k][0] <= call('Match.start', match, 3) and call('Match.start', match, 3) < tag_spans[k][1],"
                                              " result == match.group(0)) for k in range(len(tag_spans)))", props=["C09", "C04", "C06"])},
    canaries=[
        ("        if any(start <= dots < end for start, end in tag_spans):\n            return match.group(0)\n", "", None, ["post[inside_a_tag_untouched"]),
        ('result += "…" + punct', 'result += "…"'),
        ("            result += spaces_after", '            result += ""'),
        ("        result = prefix\n", '        result = ""\n'),
    ],
))


# --------------------------------------------------------------------------- smart_quotes (tags are copied verbatim)
from vfcore.contracts import Loop  # noqa: E402
from vfcore.theory import Int, Ref  # noqa: E402
from vfcore.values import FAll, FT, VList  # noqa: E402


def finditer_model(ex, node, args, kwargs):
    """assumed contract of re.Pattern.finditer(text): a finite sequence of match objects whose spans are well-formed,
    non-overlapping and increasing inside the text, and group(0) is the matched slice"""
    text = args[-1]
    t = ex.z(text)
    n = ex.th.uf("finditer#len", ex.th.Str, Int)(t)
    arr = ex.th.uf("finditer#arr", ex.th.Str, z3.ArraySort(Int, Ref))(t)
    ex.pc.append(n >= 0)
    st, en = ex.th.uf("match_start", Ref, Int), ex.th.uf("match_end", Ref, Int)
    L = ex.th.length(t)
    ex.hyps.append(FAll("k", 0, n, lambda c: FT(z3.And(
        0 <= st(z3.Select(arr, c)), st(z3.Select(arr, c)) <= en(z3.Select(arr, c)), en(z3.Select(arr, c)) <= L,
        z3.Implies(c > 0, en(z3.Select(arr, c - 1)) <= st(z3.Select(arr, c))))), "finditer spans"))
    ex.finditer_text = text
    return VList(n, arr, "ref:Match")


def match_span(ex, node, args, kwargs):
    m = args[0]
    st, en = ex.th.uf("match_start", Ref, Int), ex.th.uf("match_end", Ref, Int)
    return (ex.wrap(st(m.t), "int"), ex.wrap(en(m.t), "int"))


def match_group0(ex, node, args, kwargs):
    m = args[0]
    st, en = ex.th.uf("match_start", Ref, Int), ex.th.uf("match_end", Ref, Int)
    return ex.str_slice(ex.finditer_text, ex.wrap(st(m.t), "int"), ex.wrap(en(m.t), "int"))


contract(Contract(
    target=SQ + ":smart_quotes",
    props=["C08", "C04"],
    unfold_depth=4,
    params={"text": "str"},
    types={"segments": "list[str]", "last_end": "int", "start": "int", "end": "int", "before_text": "str", "remaining": "str",
           "match": "ref:Match", "srcs": "list[str]", "istag": "list[bool]"},
    assumes=["re.Pattern.finditer yields matches with well-formed, non-overlapping, increasing spans inside the text and "
             "group(0) == text[start:end]", "which stretches TEMPLATE_TAG_PATTERN matches is uninterpreted (bounded layer of C06)",
             "_apply_smart_quotes_to_text is an uninterpreted function here (its callback carries relation Q; lifted by the "
             "unchecked congruence lemma)"],
    calls={
        "Pattern.finditer": Callee("custom", handler=finditer_model),
        "Match.span": Callee("custom", handler=match_span),
        "Match.group": Callee("custom", handler=match_group0),
        "Match.end": Callee("custom", handler=lambda ex, node, args, kwargs: ex.wrap(ex.th.uf("match_end", Ref, Int)(args[0].t), "int")),
        "_apply_smart_quotes_to_text": Callee("uf", ret="str", sig=["text"]),
    },
    ghost={"srcs": "[]", "istag": "[]"},
    hooks=[
        ("after", "call:segments.append#0", "srcs.append(before_text); istag.append(False)"),
        ("after", "call:segments.append#1", "srcs.append(text[start:end]); istag.append(True)"),
        ("after", "call:segments.append#2", "srcs.append(remaining); istag.append(False)"),
    ],
    defs={"mend(m)": "call('Match.end', m)",
          "piece_ok(k)": "ite(istag[k], segments[k] == srcs[k], segments[k] == call('_apply_smart_quotes_to_text', srcs[k]))"},
    loops={0: Loop(inv={
        "lens": "len(srcs) == len(segments) and len(istag) == len(segments)",
        "cursor": "0 <= last_end and last_end <= len(text) and implies(_i > 0, last_end == mend(_it0[_i - 1]))"
                  " and implies(_i == 0, last_end == 0)",
        # the source pieces tile the text up to the cursor, in order
        "tiling": "joinr('', srcs, 0, len(srcs)) == text[0:last_end]",
        # every piece is either a tag copied verbatim or the rewrite of the prose between two tags
        "pieces": "all(piece_ok(k) for k in range(len(segments)))",
    }, modifies=["srcs", "istag"], decreases="len(_it0) - _i")},
    ensures={
        "tiles_whole_text": "joinr('', srcs, 0, len(srcs)) == old('text') and len(srcs) == len(segments)",
        "tags_verbatim_prose_rewritten": "all(piece_ok(k) for k in range(len(segments)))",
        "joined": "result == joinr('', segments, 0, len(segments))",
    },
    canaries=[
        ("        segments.append(match.group(0))\n", "        segments.append(_apply_smart_quotes_to_text(match.group(0)))\n", None, ["pieces", "tags_verbatim"]),
        ("            before_text = text[last_end:start]", "            before_text = text[last_end:end]", None, ["tiling"]),
        ("    if last_end < len(text):\n", "    if last_end < len(text) - 1:\n", None, ["tiles_whole_text"]),
    ],
))


# --------------------------------------------------------------------------- _apply_smart_quotes_to_text (apostrophe pass)
contract(Contract(
    target=SQ + ":_apply_smart_quotes_to_text",
    props=["C08"],
    params={"text": "str"},
    types={"words": "list[str]", "w0": "list[str]", "word": "str", "quote_count": "int", "result": "str", "apostrophe_pattern": "str", "paired": "str"},
    assumes=["re.split(r'(\\s+)', s) returns pieces that concatenate to s (capturing split tiles the string)",
             "re.sub(r\"\\'\", '\\u2019', w) replaces single characters by single characters (relation Q, character level: "
             "covered by the exhaustive short-string layer)", "QUOTE_PATTERN.sub(replace_quotes, .) by the callback contract and the "
             "unchecked congruence lemma"],
    calls={
        "Pattern.sub": Callee("uf", ret="str", sig=["self", "repl", "string"]),
        "re.split": Callee("uf", ret="list[str]", sig=["pattern", "string"],
                           post=lambda ex, b, r: ex.mk_joinr(ex.th.empty, r.arr, z3.IntVal(0), ex.z(r.length)) == ex.z(b["string"])),
        "re.search": Callee("uf", ret="bool", sig=["pattern", "string"]),
        "re.match": Callee("uf", ret="bool", sig=["pattern", "string"]),
        "re.sub": Callee("uf", ret="str", sig=["pattern", "repl", "string"]),
    },
    ghost={"w0": "[]", "paired": "''"},
    hooks=[("after", "assign:words", "w0 = list(words)"), ("after", "assign:result", "paired = result")],
    defs={"apos(w)": "call('re.sub', \"\\\\'\", '\\u2019', w)"},
    loops={0: Loop(inv={
        "len": "len(words) == len(w0)",
        # a word is left alone or has its straight single quote replaced by the apostrophe; nothing else is touched
        "done": "all(words[j] == w0[j] or words[j] == apos(w0[j]) for j in range(_i))",
        "rest": "all(implies(j >= _i, words[j] == w0[j]) for j in range(len(words)))",
    }, modifies=[], decreases="len(w0) - _i")},
    ensures={
        "pieces_tile_the_paired_result": "joinr('', w0, 0, len(w0)) == paired",
        "joined": "result == joinr('', words, 0, len(words))",
        "only_per_word_apostrophes": "len(words) == len(w0) and all(words[j] == w0[j] or words[j] == apos(w0[j]) for j in range(len(w0)))",
    },
    canaries=[
        ('words[i] = re.sub(r"\\\'", "\\u2019", word)\n            # Check if it\'s a possessive', 'words[i] = word.strip()\n            # Check if it\'s a possessive', None, ["done", "only_per_word"]),
    ],
))
