"""Contracts on flowmark.transforms.doc_transforms (C04 / C08 / C09: typography rewrites are mapped back into RawText nodes
only, each node receiving exactly the slice of the rewritten composite that lies at its own position)."""
import z3

from vfcore.contracts import Callee, Clause, Contract, Loop, contract
from vfcore.theory import NONE_REF, Bool, Int, Ref
from vfcore.values import FAll, FT, Sym

M = "flowmark.transforms.doc_transforms"


def _rawtext_ids(ex):
    import marko.inline
    uni = ex.unit.class_universe()
    return [i for i, c in enumerate(uni) if issubclass(c, marko.inline.RawText)]


def is_rawtext(ex, t):
    tf = ex.th.uf("type_of", Ref, Int)
    return z3.Or(*[tf(t) == i for i in _rawtext_ids(ex)])


def rd(a, c):
    """read of a (possibly lambda-defined) list array, beta-reduced"""
    t = z3.Select(a, c)
    return z3.simplify(t) if z3.is_quantifier(a) and a.is_lambda() else t


def segments_post(ex, bound, result):
    """contract of _collect_inline_segments (proved for its own body below): a segment carries a node only if that node is
    a RawText, and then its text is that node's text"""
    texts, nodes = result.arr
    h = ex.unit.heap_arrays(ex, "RawTextEl.children")
    return FAll("k", 0, result.length, lambda c: FT(z3.Implies(
        z3.Select(nodes, c) != NONE_REF,
        z3.And(is_rawtext(ex, z3.Select(nodes, c)), z3.Select(texts, c) == z3.Select(h, z3.Select(nodes, c))))), "segments")


def len_preserving(ex, bound, result):
    """required of the rewrite function (smart_quotes: relation Q, proved for the callback in contracts/typography.py)"""
    return ex.th.length(ex.z(result)) == ex.th.length(ex.z(bound["s"]))


def true_(ex, node, args, kwargs):
    return True


def _store_clause(ex):
    """the only store of the iteration (if any) goes into a RawText node and is the slice of the rewritten composite at
    the segment's own offset"""
    env = ex.envs[0]
    node, text = env["node"], env["text"]
    pos0 = ex.iter_envs[0]["pos"]
    h = ex.unit.heap_arrays(ex, "RawTextEl.children")
    h0 = ex.iter_heap["RawTextEl.children"] if getattr(ex, "iter_heap", None) and "RawTextEl.children" in ex.iter_heap else h
    sl = ex.str_slice(env["converted"], pos0, ex.wrap(ex.zi(pos0) + ex.th.length(ex.z(text)), "int"))
    wrote = z3.And(is_rawtext(ex, node.t), z3.Select(h, node.t) == ex.z(sl))
    return z3.And(z3.Implies(node.t != NONE_REF, wrote),
                  z3.Implies(node.t == NONE_REF, h == h0))


contract(Contract(
    target=M + ":rewrite_text_across_inlines.<locals>.transformer",
    props=["C04", "C08", "C12"],
    assumes=['the rewrite function is length-preserving (smart_quotes: relation Q, discharged for the callback, lifted by the unchecked congruence lemma)', '_collect_inline_segments by its own contract (discharged separately)', 'Marko element records: children of RawText / CodeSpan / Literal / InlineHTML is a str'],
    params={"element": "ref:Element"},
    free={"rewrite_func": "callable"},
    heap={"RawTextEl.children": "str"},
    types={"segments": "list[tuple[str,nref:RawTextEl]]", "composite": "str", "converted": "str", "pos": "int", "text": "str",
           "node": "nref:RawTextEl", "segment_len": "int", "child": "ref:Element", "offs": "list[int]"},
    calls={
        "hasattr": Callee("custom", handler=true_),
        "Element.children": Callee("attr", ret="list[ref:Element]"),
        "_collect_inline_segments": Callee("uf", ret="list[tuple[str,nref:RawTextEl]]", sig=["element"], post=segments_post),
        "rewrite_func": Callee("uf", ret="str", sig=["s"], post=len_preserving),
    },
    ghost={"offs": "[]"},
    hooks=[("before", "segment_len = len(text)", "offs.append(pos)")],
    defs={"seg_ok(k)": "implies(not isnone(segments[k][1]), isinst(segments[k][1], 'marko.inline.RawText'))"},
    loops={
        0: Loop(inv={"segs": "all(seg_ok(k) for k in range(len(segments)))"}),
        1: Loop(inv={"offsets": "len(offs) == _i1 and implies(_i1 > 0, pos == offs[_i1 - 1] + len(segments[_i1 - 1][0]))"
                                " and implies(_i1 == 0, pos == 0)",
                     "in_range": "0 <= pos"},
                body_ensures={"store_only_into_rawtext_own_slice": Clause(_store_clause)},
                modifies=["offs"]),
    },
    ensures={},
    canaries=[
        ("            if node is not None:\n                node.children = converted[pos : pos + segment_len]\n            pos += segment_len",
         "            if node is not None:\n                node.children = converted[pos : pos + segment_len]\n                pos += segment_len",
         None, ["inv-preserve[loop1.offsets"]),
        ("node.children = converted[pos : pos + segment_len]", "node.children = converted[pos:]", None, ["store_only_into"]),
        ("node.children = converted[pos : pos + segment_len]", "node.children = composite[pos : pos + segment_len].upper()", None, ["store_only_into"]),
    ],
))


# --------------------------------------------------------------------------- _collect_inline_segments
def _ids(ex, *classes):
    uni = ex.unit.class_universe()
    return [i for i, c in enumerate(uni) if issubclass(c, classes)]


def children_attr(ex, node, args, kwargs):
    """Marko's element records (assumed): RawText / CodeSpan / Literal / InlineHTML hold their text in `children` (a str);
    an element's `children` is otherwise a list of elements or a str.  The text of a str-holding node is read from the same
    heap field the rewrite stores into."""
    import marko.inline as I
    el = args[0]
    tf = ex.th.uf("type_of", Ref, Int)(el.t)
    holds_str = z3.Or(*[tf == i for i in _ids(ex, I.RawText, I.CodeSpan, I.Literal, I.InlineHTML)])
    is_list = ex.th.uf("children_is_list", Ref, Bool)(el.t)
    ex.pc.append(z3.Implies(holds_str, z3.Not(is_list)))
    if ex.branch(is_list, "children_is_list"):
        from vfcore.values import VList
        ln = ex.th.uf("children#len", Ref, Int)(el.t)
        ex.pc.append(ln >= 0)
        return VList(ln, ex.th.uf("children#arr", Ref, z3.ArraySort(Int, Ref))(el.t), "ref:Element")
    return Sym(z3.Select(ex.unit.heap_arrays(ex, "RawTextEl.children"), el.t), "str")


def _segments_ok(ex, lst):
    texts, nodes = lst.arr
    h = ex.unit.heap_arrays(ex, "RawTextEl.children")
    return FAll("k", 0, lst.length, lambda c: FT(z3.Implies(
        rd(nodes, c) != NONE_REF,
        z3.And(is_rawtext(ex, rd(nodes, c)), rd(texts, c) == z3.Select(h, rd(nodes, c))))), "segments ok")


contract(Contract(
    target=M + ":_collect_inline_segments",
    props=["C04", "C08", "C09", "C12"],
    assumes=['Marko element records: children of RawText / CodeSpan / Literal / InlineHTML is a str; every element has a children attribute', "recursive calls by the function's own contract (partial correctness; termination by the finite tree)"],
    params={"element": "ref:Element"},
    heap={"RawTextEl.children": "str"},
    types={"segments": "list[tuple[str,nref:RawTextEl]]", "child": "ref:Element", "children": "list[ref:Element]"},
    calls={
        "hasattr": Callee("custom", handler=true_),
        "Element.children": Callee("attrfn", handler=children_attr),
        "_collect_inline_segments": Callee("uf", ret="list[tuple[str,nref:RawTextEl]]", sig=["element"], post=segments_post),
    },
    loops={0: Loop(inv={"segs": Clause(lambda ex: _segments_ok(ex, ex.as_vlist(ex.envs[0]["segments"], ("str", "nref:RawTextEl"))))})},
    ensures={
        # only a RawText node is ever handed out as a mutable segment (code spans, escaped characters, inline HTML, line
        # breaks and any other text are context: node None), and a mutable segment's text is that node's own text
        "mutable_only_rawtext": Clause(lambda ex: _segments_ok(ex, ex.as_vlist(ex.envs[0]["result"], ("str", "nref:RawTextEl")))),
    },
    canaries=[
        ("        segments.append((element.children, None))\n    elif isinstance(element, inline.LineBreak):",
         "        segments.append((element.children, element))\n    elif isinstance(element, inline.LineBreak):", None, ["post[mutable_only_rawtext"]),
        ("        segments.append((element.children, element))\n    elif isinstance(element, inline.CodeSpan):",
         "        segments.append((element.children.strip(), element))\n    elif isinstance(element, inline.CodeSpan):", None, ["post[mutable_only_rawtext"]),
    ],
))


# --------------------------------------------------------------------------- rewrite_text_content.<locals>.transformer
def plain_children(ex, node, args, kwargs):
    """`children` read as the text field (only reached behind isinstance(element, RawText))"""
    return Sym(z3.Select(ex.unit.heap_arrays(ex, "RawTextEl.children"), args[0].t), "str")


def _rtc_post(ex):
    el = ex.envs[0]["element"]
    h1 = ex.unit.heap_arrays(ex, "RawTextEl.children")
    h0 = ex.heap_old["RawTextEl.children"] if ex.heap_old and "RawTextEl.children" in ex.heap_old else z3.Array("heap0!RawTextEl.children", Ref, ex.th.Str)
    f = ex.th.uf("call_rewrite_func", ex.th.Str, ex.th.Str)
    raw = is_rawtext(ex, el.t)
    return z3.And(z3.Implies(raw, h1 == z3.Store(h0, el.t, f(z3.Select(h0, el.t)))),
                  z3.Implies(z3.Not(raw), h1 == h0))


contract(Contract(
    target=M + ":rewrite_text_content.<locals>.transformer",
    props=["C04", "C09", "C12"],
    params={"element": "ref:RawTextEl"},
    free={"rewrite_func": "callable"},
    heap={"RawTextEl.children": "str"},
    calls={"rewrite_func": Callee("uf", ret="str", sig=["s"])},
    ensures={
        # the text of a RawText node becomes rewrite_func(its text); no other node, and nothing else, is written
        "only_rawtext_rewritten": Clause(_rtc_post),
    },
    canaries=[("        if isinstance(element, inline.RawText):\n", "        if True:\n", None, ["post[only_rawtext"]),
              ("element.children = rewrite_func(element.children)", "element.children = rewrite_func(element.children.strip())", None, ["post[only_rawtext"])],
))


# --------------------------------------------------------------------------- transform_tree
CODE_CLASSES = ("'marko.block.FencedCode', 'marko.block.CodeBlock', 'marko.inline.CodeSpan', 'marko.block.HTMLBlock', "
                "'marko.inline.InlineHTML', 'marko.block.LinkRefDef', 'marko.inline.AutoLink', 'marko.inline.Image'")


def _each_child_once(ex):
    it = [e for e in ex.log[ex.iter_log_start:] if e[0] == "RECURSE"]
    if len(it) != 1:
        return False
    env = ex.envs[0]
    child = ex.list_get(env["_it0"], ex.z(env["_i"]) - 1)
    return ex.b(ex.truth(ex.eq(it[0][1]["element"], child)))


contract(Contract(
    target=M + ":transform_tree",
    props=["C04", "C08", "C09", "C12"],
    params={"element": "ref:Element", "transformer": "callable"},
    heap={"RawTextEl.children": "str"},
    types={"current_children": "list[ref:Element]", "child": "ref:Element"},
    calls={
        "Element.children": Callee("attrfn", handler=children_attr),
        "transformer": Callee("effect", ret="none", effect="APPLY", sig=["element"]),
        "transform_tree": Callee("effect", ret="none", effect="RECURSE", sig=["element", "transformer"]),
    },
    loops={0: Loop(inv={}, body_ensures={"each_child_once": Clause(_each_child_once)})},
    at_call={"transform_tree": {
        # C04: the traversal never enters a node that holds literal content (code block / code span text, raw HTML, link
        # definitions, autolinks, images): their RawText children are out of reach of every rewrite.  (Checked at every
        # recursive call, i.e. inside the loop: effects of loop iterations are not visible to a postcondition.)
        "never_descends_into_literal_nodes": "not isinst(element, %s)" % CODE_CLASSES,
    }},
    ensures={
        "applied_to_element_once": "logcount('APPLY') == 1 and logarg('APPLY', 'element') == element",
    },
    canaries=[
        ("    if isinstance(element, ContainerElement):\n", "    if not isinstance(element, inline.RawText):\n", None, ["never_descends"]),
        ("    transformer(element)\n", "", None, ["post[applied_to_element_once"]),
    ],
))


# --------------------------------------------------------------------------- coalesce_raw_text_nodes.<locals>.transformer
def _set_children(ex, node, args, kwargs):
    """`x.children = v`: a str goes into the text field of x (the heap field the rewrites read); a list replaces the child
    list of x and is logged (SET_CHILDREN) so that the postcondition can speak about it"""
    from vfcore.values import VList
    base, v = args
    if isinstance(v, (VList, list)):
        ex.log.append(("SET_CHILDREN", {"element": base, "children": v}, None))
        return None
    # C04/C08/C09: a text is only ever written into a RawText node (never into a code span, literal, inline HTML ...)
    ex.prove("call", "set_text.only_into_rawtext", FT(is_rawtext(ex, base.t)), ["C04", "C08", "C09"], None, src="x.children = <str> only for RawText x")
    h = ex.unit.heap_arrays(ex, "RawTextEl.children")
    ex.heap["RawTextEl.children"] = z3.Store(h, base.t, ex.z(v))
    ex.log.append(("SET_TEXT", {"element": base, "text": v}, None))
    return None


def _stored_once(ex):
    sets = [e for e in ex.log if e[0] == "SET_CHILDREN"]
    built = ex.envs[0].get("new_children")
    if not sets:
        return built is None          # no list was built (the element has no child list), none is stored
    if len(sets) != 1 or built is None:
        return False
    stored = sets[0][1]["children"]
    same_list = stored is built or (getattr(stored, "arr", 0) is getattr(built, "arr", 1) and getattr(stored, "length", 0) is getattr(built, "length", 1))
    return ex.b(ex.truth(ex.eq(sets[0][1]["element"], ex.envs[0]["element"]))) if same_list else False


C_DEFS = {
    "raw(x)": "isinst(x, 'marko.inline.RawText')",
    "softbreak(x)": "isinst(x, 'marko.inline.LineBreak') and x.soft",
    # what is known about source position m once it has been consumed: role 0 = kept as an output element of its own,
    # role 1 = a soft break swallowed by the RawText run before it, role 2 = a RawText merged into that run
    "consumed_ok(m)": "0 <= pos[m] and ite(role[m] == 0, implies(m > 0, pos[m] == pos[m - 1] + 1) and implies(m == 0, pos[m] == 0),"
                      " m > 0 and pos[m] == pos[m - 1] and ite(role[m] == 1, softbreak(children[m]) and (role[m - 1] == 0 or role[m - 1] == 2)"
                      " and raw(children[m - 1]), role[m] == 2 and raw(children[m]) and role[m - 1] == 1))",
}

contract(Contract(
    target=M + ":coalesce_raw_text_nodes.<locals>.transformer",
    props=["C08", "C09", "C04", "C12"],
    assumes=["Marko element records (children list / text field as in the other doc_transforms contracts); that the nodes of one "
             "children list are distinct objects (a tree) is not needed for the clauses stated here",
             "the text written into the head of a run (its own text and the followers' texts joined by newline) is checked by the "
             "function-level sweep coalesce_spec_sweep, not here"],
    params={"element": "ref:Element"},
    heap={"RawTextEl.children": "str"},
    types={"new_children": "list[ref:Element]", "children": "list[ref:Element]", "child": "ref:Element", "coalesced_text": "str",
           "i": "int", "j": "int", "next_elem": "ref:Element", "following_elem": "ref:Element", "role": "list[int]", "pos": "list[int]"},
    calls={
        "hasattr": Callee("custom", handler=true_),
        "Element.children": Callee("attrfn", handler=children_attr),
        "Element.soft": Callee("attr", ret="bool"),
        "set:Element.children": Callee("custom", handler=_set_children),
    },
    ghost={"role": "[]", "pos": "[]"},
    hooks=[
        ("after", "coalesced_text = child.children", "role.append(0); pos.append(len(new_children))"),
        ("after", "j += 2", "role.append(1); pos.append(len(new_children)); role.append(2); pos.append(len(new_children))"),
        ("before", "call:new_children.append#2", "role.append(0); pos.append(len(new_children))"),
    ],
    defs=C_DEFS,
    loops={
        0: Loop(inv={
            "range": "0 <= i and i <= len(children) and len(role) == i and len(pos) == i",
            "count": "len(new_children) == ite(i == 0, 0, pos[i - 1] + 1)",
            "consumed": "all(consumed_ok(m) for m in range(i))",
            # every output element is the source element at the start of its run, the very same object
            "kept_objects": "all(implies(role[m] == 0, pos[m] < len(new_children) and new_children[pos[m]] == children[m]) for m in range(i))",
        }, modifies=["role", "pos"], decreases="len(children) - i"),
        1: Loop(inv={
            "range": "i + 1 <= j and j <= len(children) and len(role) == j and len(pos) == j and i < len(children) and raw(children[i]) and child == children[i]",
            "head": "role[i] == 0 and pos[i] == len(new_children) and all(implies(m > i, pos[m] == len(new_children) and role[m] != 0) for m in range(j))",
            "consumed": "all(consumed_ok(m) for m in range(j))",
            "kept_objects": "all(implies(role[m] == 0, pos[m] < len(new_children) and new_children[pos[m]] == children[m]) for m in range(i))",
            "count": "len(new_children) == ite(i == 0, 0, pos[i - 1] + 1)",
            "ends_on_rawtext": "(role[j - 1] == 0 or role[j - 1] == 2) and raw(children[j - 1]) and pos[j - 1] == len(new_children)",
        }, modifies=["role", "pos"], decreases="len(children) - j"),
    },
    ensures={
        # C04/C08/C09: the new child list is the old one with, in every maximal run RawText (soft-break RawText)*, everything
        # behind the first RawText removed -- nothing else is removed, nothing is added or reordered, hard breaks, code
        # spans and every other node stay where they are
        "only_merged_nodes_removed": "implies(len(role) > 0, len(role) == len(children) and all(consumed_ok(m) for m in range(len(children)))"
                                     " and all(implies(role[m] == 0, new_children[pos[m]] == children[m]) for m in range(len(children)))"
                                     " and len(new_children) == pos[len(children) - 1] + 1)",
        # ... and that list (the very object built in the loop) becomes the element's child list, once
        "stored_once": Clause(_stored_once),
    },
    canaries=[
        ("                            and next_elem.soft\n", "", None, ["consumed"]),
        ("                        i = j  # Skip all the nodes we coalesced", "                        i = j + 1", None, ["inv-preserve[loop0"]),
        ("                            and isinstance(following_elem, inline.RawText)", "                            and isinstance(following_elem, (inline.RawText, inline.CodeSpan))", None, ["consumed"]),
        ("            element.children = new_children", "            element.children = children", None, ["post[stored_once"]),
        ("                if isinstance(child, inline.RawText):", "                if isinstance(child, (inline.RawText, inline.CodeSpan)):", None, ["set_text.only_into_rawtext", "inv-"]),
    ],
))
