"""Contracts for flowmark.cli (C15 option correspondence, C16 explicit-flag table, C14/C15 usage errors)."""
import dataclasses

import z3

from vfcore import extract
from vfcore.contracts import Callee, Clause, Contract, Loop, contract
from vfcore.lib_argparse import CALLS as ARGPARSE, given_sym
from vfcore.sx_base import GenError, RaiseSig
from vfcore.theory import Int
from vfcore.values import Sym, VExc, VList, VObj, VOpt, VSet

M = "flowmark.cli"

# ---- the documented command-line interface (README "Usage" / `flowmark --help`): which option
# strings set which setting, and the built-in default.  This table is the *specification*; the
# argparse calls in _parse_args are checked against it.
FLAGS = {
    "output": (("-o", "--output"), "-"),
    "width": (("-w", "--width"), 88),
    "plaintext": (("-p", "--plaintext"), False),
    "semantic": (("-s", "--semantic"), False),
    "cleanups": (("-c", "--cleanups"), False),
    "smartquotes": (("--smartquotes",), False),
    "ellipses": (("--ellipses",), False),
    "list_spacing": (("--list-spacing",), "preserve"),
    "inplace": (("-i", "--inplace"), False),
    "nobackup": (("--nobackup",), False),
    "extend_include": (("--extend-include",), []),
    "exclude": (("--exclude",), None),
    "extend_exclude": (("--extend-exclude",), []),
    "respect_gitignore": (("--no-respect-gitignore",), True),      # negative flag
    "force_exclude": (("--force-exclude",), False),
    "list_files": (("--list-files",), False),
    "files_max_size": (("--files-max-size",), 1_048_576),
    "version": (("--version",), False),
    "skill_instructions": (("--skill",), False),
    "install_skill": (("--install-skill",), False),
    "agent_base": (("--agent-base",), None),
    "docs": (("--docs",), False),
}
AUTO = ("--auto",)
AUTO_SETS = ("inplace", "nobackup", "semantic", "cleanups", "smartquotes", "ellipses")
# settings that exist both as a flag and as a config key (C16)
CONFIGURABLE = ("width", "semantic", "cleanups", "smartquotes", "ellipses", "list_spacing", "extend_include",
                "exclude", "extend_exclude", "respect_gitignore", "force_exclude", "files_max_size")


def dataclass_ctor(modname, clsname):
    def handler(ex, node, args, kwargs):
        cls = getattr(extract.live_module(modname), clsname)
        names = [f.name for f in dataclasses.fields(cls)]
        fields = dict(zip(names, args))
        for k, v in kwargs.items():
            if k in fields or k not in names:
                raise RaiseSig(VExc("TypeError"), "%s(%s=)" % (clsname, k))
            fields[k] = v
        for f in dataclasses.fields(cls):
            if f.name not in fields:
                if f.default is not dataclasses.MISSING:
                    fields[f.name] = f.default
                elif f.default_factory is not dataclasses.MISSING:
                    fields[f.name] = f.default_factory()
                else:
                    raise RaiseSig(VExc("TypeError"), "%s missing %s" % (clsname, f.name))
        return VObj(clsname, fields)
    return Callee("custom", handler=handler)


def token_of(ex):
    args = ex.old_envs[0]["args"]
    return z3.If(args.is_none, 0, 1)


def given(ex, names):
    """`one of these option strings occurs on the command line that is being parsed`"""
    args = ex.old_envs[0]["args"]
    return z3.If(args.is_none, given_sym("argv[1:None]", names), given_sym("ARGS", names))


def val(ex, names, kind):
    args = ex.old_envs[0]["args"]
    S = ex.th.Str
    mk = (lambda tok: z3.Int("val!%s!%s" % (tok, "/".join(sorted(names))))) if kind == "int" else \
        (lambda tok: z3.Const("val!%s!%s" % (tok, "/".join(sorted(names))), S))
    return z3.If(args.is_none, mk("argv[1:None]"), mk("ARGS"))


def lval(ex, names):
    """the list value of an `append` option / the positionals, as (len, arr)"""
    args = ex.old_envs[0]["args"]
    S = ex.th.Str
    key = lambda tok: "%s!%s" % (tok, "/".join(sorted(names)))
    ln = z3.If(args.is_none, z3.Int("val!%s#len" % key("argv[1:None]")), z3.Int("val!%s#len" % key("ARGS")))
    arr = z3.If(args.is_none, z3.Array("val!" + key("argv[1:None]"), Int, S), z3.Array("val!" + key("ARGS"), Int, S))
    return ln, arr


def option_field(field):
    """C15: Options.<field> is the value of its documented flag when given, else the default; the
    --auto preset forces its six switches on and touches nothing else."""
    names, default = FLAGS[field]

    def clause(ex):
        opts, explicit, is_auto = ex.envs[0]["result"]
        v = opts.fields[field]
        g = given(ex, names)
        auto = given(ex, AUTO)
        if field == "respect_gitignore":
            return ex.b(ex.truth(v)) == z3.Not(g)
        if field == "list_spacing":
            want = z3.If(g, val(ex, names, "str"), ex.th.lit(default))
            f = ex.th.uf("enum_of_ListSpacing", ex.th.Str, ex.enum_sort("ListSpacing")[0])
            return ex.z(v) == f(want)
        if isinstance(default, bool):
            want = g if default is False else z3.Not(g)
            if field in AUTO_SETS:
                want = z3.Or(want, auto)
            return ex.b(ex.truth(v)) == want
        if isinstance(default, int):
            return ex.z(v) == z3.If(g, val(ex, names, "int"), default)
        if isinstance(default, str):
            return ex.z(v) == z3.If(g, val(ex, names, "str"), ex.th.lit(default))
        if default is None and field == "agent_base":
            return z3.And(v.is_none == z3.Not(g), z3.Implies(g, ex.z(v.val) == val(ex, names, "str")))
        # list options
        ln, arr = lval(ex, names)
        if default is None:
            k = z3.FreshConst(Int, "k")
            return z3.And(v.is_none == z3.Not(g),
                          z3.Implies(g, z3.And(ex.z(v.val.length) == ln, v.val.arr == arr)))
        return z3.And(ex.z(v.length) == z3.If(g, ln, 0), z3.Implies(g, v.arr == arr))
    return clause


def files_field(ex):
    opts = ex.envs[0]["result"][0]
    ln, arr = lval(ex, ("files",))
    v = opts.fields["files"]
    return z3.And(ex.z(v.length) == ln, v.arr == arr)


def explicit_iff_given(field):
    """C16: a setting counts as explicitly given iff one of its documented option strings occurs on
    the command line (also when it is passed with its default value)."""
    def clause(ex):
        explicit = ex.envs[0]["result"][1]
        m = explicit.members.get(field, False)
        return ex.b(m) == given(ex, FLAGS[field][0])
    return clause


def explicit_inv(ex):
    """members of explicit_flags after _k items of the real _tracked_flags table"""
    env = ex.envs[0]
    k = env["_k"]
    items = list(env["_tracked_flags"].items())
    explicit = env["explicit_flags"]
    done = {f for _, f in items[:k]}
    conds = []
    for f in set(explicit.members) | {f for _, f in items}:
        m = ex.b(explicit.members.get(f, False))
        if f in done and f in FLAGS:
            conds.append(m == given(ex, FLAGS[f][0]))
        elif f not in done:
            conds.append(z3.Not(m))
    return z3.And(*conds) if conds else True


def tracked_covers_configurable(ex):
    """every configurable setting is a value of the real _tracked_flags table, and nothing else is"""
    tracked = set(ex.envs[0]["_tracked_flags"].values())
    return tracked == set(CONFIGURABLE)


contract(Contract(
    target=M + ":_parse_args",
    props=["C15", "C16"],
    params={"args": "opt[list[str]]"},
    types={"explicit_flags": "set:" + ",".join(CONFIGURABLE)},
    calls={**ARGPARSE,
           "Options": dataclass_ctor(M, "Options"),
           },
    loops={0: Loop(per_iteration=True, inv={"explicit": Clause(explicit_inv, props=["C16"])})},
    ensures={
        **{"options." + f: Clause(option_field(f), props=["C15", "C16"] if f in CONFIGURABLE else ["C15"]) for f in FLAGS},
        "options.files": Clause(files_field, props=["C15"]),
        **{"explicit." + f: Clause(explicit_iff_given(f), props=["C16"]) for f in CONFIGURABLE},
        "explicit.table": Clause(tracked_covers_configurable, props=["C16"]),
        "is_auto": Clause(lambda ex: ex.b(ex.truth(ex.envs[0]["result"][2])) == given(ex, AUTO), props=["C15", "C16"]),
    },
    canaries=[
        ("        opts.ellipses = True\n", "", ["C15"]),
        ('        "cleanups": "cleanups",\n', "", ["C16"]),
        ("semantic=opts.semantic,", "semantic=opts.cleanups,", ["C15"]),
        ('sentinel_parser.add_argument("-w", "--width", type=int, default=_SENTINEL)',
         'sentinel_parser.add_argument("--width", type=int, default=_SENTINEL)', ["C16"]),
        ("respect_gitignore=not opts.no_respect_gitignore", "respect_gitignore=opts.no_respect_gitignore", ["C15", "C16"]),
        ('sentinel_parser.add_argument("--smartquotes", action="store_true", default=_SENTINEL)',
         'sentinel_parser.add_argument("--smartquotes", action="store_true", default=False)', ["C16"]),
        ("elif val is not _SENTINEL:", "elif val is _SENTINEL:", ["C16"]),
        ("sentinel_parser.parse_known_args(args if args is not None else sys.argv[1:])",
         "sentinel_parser.parse_known_args(sys.argv[1:])", ["C16"]),
    ],
))
