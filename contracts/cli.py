"""Contracts for flowmark.cli (C15 option correspondence, C16 explicit-flag table, C14/C15 usage errors)."""
import dataclasses

import z3

from vfcore import extract
from vfcore.contracts import Callee, Clause, Contract, Loop, contract
from vfcore.lib_argparse import CALLS as ARGPARSE, given_sym
from vfcore.sx_base import GenError, RaiseSig
from vfcore.theory import Int
from vfcore.values import Sym, VExc, VList, VObj, VOpt, VSet

M = "flowmark.cli"

# ---- the documented command-line interface (README "Usage" / `flowmark --help`): which option
# strings set which setting, and the built-in default.  This table is the *specification*; the
# argparse calls in _parse_args are checked against it.
FLAGS = {
    "output": (("-o", "--output"), "-"),
    "width": (("-w", "--width"), 88),
    "plaintext": (("-p", "--plaintext"), False),
    "semantic": (("-s", "--semantic"), False),
    "cleanups": (("-c", "--cleanups"), False),
    "smartquotes": (("--smartquotes",), False),
    "ellipses": (("--ellipses",), False),
    "list_spacing": (("--list-spacing",), "preserve"),
    "inplace": (("-i", "--inplace"), False),
    "nobackup": (("--nobackup",), False),
    "extend_include": (("--extend-include",), []),
    "exclude": (("--exclude",), None),
    "extend_exclude": (("--extend-exclude",), []),
    "respect_gitignore": (("--no-respect-gitignore",), True),      # negative flag
    "force_exclude": (("--force-exclude",), False),
    "list_files": (("--list-files",), False),
    "files_max_size": (("--files-max-size",), 1_048_576),
    "version": (("--version",), False),
    "skill_instructions": (("--skill",), False),
    "install_skill": (("--install-skill",), False),
    "agent_base": (("--agent-base",), None),
    "docs": (("--docs",), False),
}
AUTO = ("--auto",)
AUTO_SETS = ("inplace", "nobackup", "semantic", "cleanups", "smartquotes", "ellipses")
# settings that exist both as a flag and as a config key (C16)
CONFIGURABLE = ("width", "semantic", "cleanups", "smartquotes", "ellipses", "list_spacing", "extend_include",
                "exclude", "extend_exclude", "respect_gitignore", "force_exclude", "files_max_size")


def dataclass_ctor(modname, clsname):
    def handler(ex, node, args, kwargs):
        cls = getattr(extract.live_module(modname), clsname)
        names = [f.name for f in dataclasses.fields(cls)]
        fields = dict(zip(names, args))
        for k, v in kwargs.items():
            if k in fields or k not in names:
                raise RaiseSig(VExc("TypeError"), "%s(%s=)" % (clsname, k))
            fields[k] = v
        for f in dataclasses.fields(cls):
            if f.name not in fields:
                if f.default is not dataclasses.MISSING:
                    fields[f.name] = f.default
                elif f.default_factory is not dataclasses.MISSING:
                    fields[f.name] = f.default_factory()
                else:
                    raise RaiseSig(VExc("TypeError"), "%s missing %s" % (clsname, f.name))
        return VObj(clsname, fields)
    return Callee("custom", handler=handler)


def token_of(ex):
    args = ex.old_envs[0]["args"]
    return z3.If(args.is_none, 0, 1)


def given(ex, names):
    """`one of these option strings occurs on the command line that is being parsed`"""
    args = ex.old_envs[0]["args"]
    return z3.If(args.is_none, given_sym("argv[1:None]", names), given_sym("ARGS", names))


def val(ex, names, kind):
    args = ex.old_envs[0]["args"]
    S = ex.th.Str
    mk = (lambda tok: z3.Int("val!%s!%s" % (tok, "/".join(sorted(names))))) if kind == "int" else \
        (lambda tok: z3.Const("val!%s!%s" % (tok, "/".join(sorted(names))), S))
    return z3.If(args.is_none, mk("argv[1:None]"), mk("ARGS"))


def lval(ex, names):
    """the list value of an `append` option / the positionals, as (len, arr)"""
    args = ex.old_envs[0]["args"]
    S = ex.th.Str
    key = lambda tok: "%s!%s" % (tok, "/".join(sorted(names)))
    ln = z3.If(args.is_none, z3.Int("val!%s#len" % key("argv[1:None]")), z3.Int("val!%s#len" % key("ARGS")))
    arr = z3.If(args.is_none, z3.Array("val!" + key("argv[1:None]"), Int, S), z3.Array("val!" + key("ARGS"), Int, S))
    return ln, arr


def option_field(field):
    """C15: Options.<field> is the value of its documented flag when given, else the default; the
    --auto preset forces its six switches on and touches nothing else."""
    names, default = FLAGS[field]

    def clause(ex):
        opts, explicit, is_auto = ex.envs[0]["result"]
        v = opts.fields[field]
        g = given(ex, names)
        auto = given(ex, AUTO)
        if field == "respect_gitignore":
            return ex.b(ex.truth(v)) == z3.Not(g)
        if field == "list_spacing":
            want = z3.If(g, val(ex, names, "str"), ex.th.lit(default))
            f = ex.th.uf("enum_of_ListSpacing", ex.th.Str, ex.enum_sort("ListSpacing")[0])
            return ex.z(v) == f(want)
        if isinstance(default, bool):
            want = g if default is False else z3.Not(g)
            if field in AUTO_SETS:
                want = z3.Or(want, auto)
            return ex.b(ex.truth(v)) == want
        if isinstance(default, int):
            return ex.z(v) == z3.If(g, val(ex, names, "int"), default)
        if isinstance(default, str):
            return ex.z(v) == z3.If(g, val(ex, names, "str"), ex.th.lit(default))
        if default is None and field == "agent_base":
            return z3.And(v.is_none == z3.Not(g), z3.Implies(g, ex.z(v.val) == val(ex, names, "str")))
        # list options
        ln, arr = lval(ex, names)
        if default is None:
            k = z3.FreshConst(Int, "k")
            return z3.And(v.is_none == z3.Not(g),
                          z3.Implies(g, z3.And(ex.z(v.val.length) == ln, v.val.arr == arr)))
        return z3.And(ex.z(v.length) == z3.If(g, ln, 0), z3.Implies(g, v.arr == arr))
    return clause


def files_field(ex):
    opts = ex.envs[0]["result"][0]
    ln, arr = lval(ex, ("files",))
    v = opts.fields["files"]
    return z3.And(ex.z(v.length) == ln, v.arr == arr)


def explicit_iff_given(field):
    """C16: a setting counts as explicitly given iff one of its documented option strings occurs on
    the command line (also when it is passed with its default value)."""
    def clause(ex):
        explicit = ex.envs[0]["result"][1]
        m = explicit.members.get(field, False)
        return ex.b(m) == given(ex, FLAGS[field][0])
    return clause


def explicit_inv(ex):
    """members of explicit_flags after _k items of the real _tracked_flags table"""
    env = ex.envs[0]
    k = env["_k"]
    items = list(env["_tracked_flags"].items())
    explicit = env["explicit_flags"]
    done = {f for _, f in items[:k]}
    conds = []
    for f in set(explicit.members) | {f for _, f in items}:
        m = ex.b(explicit.members.get(f, False))
        if f in done and f in FLAGS:
            conds.append(m == given(ex, FLAGS[f][0]))
        elif f not in done:
            conds.append(z3.Not(m))
    return z3.And(*conds) if conds else True


def tracked_covers_configurable(ex):
    """every configurable setting is a value of the real _tracked_flags table, and nothing else is"""
    tracked = set(ex.envs[0]["_tracked_flags"].values())
    return tracked == set(CONFIGURABLE)


contract(Contract(
    target=M + ":_parse_args",
    props=["C15", "C16"],
    params={"args": "opt[list[str]]"},
    types={"explicit_flags": "set:" + ",".join(CONFIGURABLE)},
    calls={**ARGPARSE,
           "Options": dataclass_ctor(M, "Options"),
           },
    loops={0: Loop(per_iteration=True, inv={"explicit": Clause(explicit_inv, props=["C16"])})},
    ensures={
        # (C14: a file is rewritten in place / without backup only when -i / --nobackup (or --auto) says so)
        **{"options." + f: Clause(option_field(f), props=(["C15", "C16"] if f in CONFIGURABLE else ["C15"])
                                  + (["C14"] if f in ("inplace", "nobackup", "output") else [])) for f in FLAGS},
        "options.files": Clause(files_field, props=["C15"]),
        **{"explicit." + f: Clause(explicit_iff_given(f), props=["C16"]) for f in CONFIGURABLE},
        "explicit.table": Clause(tracked_covers_configurable, props=["C16"]),
        "is_auto": Clause(lambda ex: ex.b(ex.truth(ex.envs[0]["result"][2])) == given(ex, AUTO), props=["C15", "C16"]),
    },
    canaries=[
        ("        opts.ellipses = True\n", "", ["C15"]),
        ('        "cleanups": "cleanups",\n', "", ["C16"]),
        ("semantic=opts.semantic,", "semantic=opts.cleanups,", ["C15"]),
        ('sentinel_parser.add_argument("-w", "--width", type=int, default=_SENTINEL)',
         'sentinel_parser.add_argument("--width", type=int, default=_SENTINEL)', ["C16"]),
        ("respect_gitignore=not opts.no_respect_gitignore", "respect_gitignore=opts.no_respect_gitignore", ["C15", "C16"]),
        ('sentinel_parser.add_argument("--smartquotes", action="store_true", default=_SENTINEL)',
         'sentinel_parser.add_argument("--smartquotes", action="store_true", default=False)', ["C16"]),
        ("elif val is not _SENTINEL:", "elif val is _SENTINEL:", ["C16"]),
        ("sentinel_parser.parse_known_args(args if args is not None else sys.argv[1:])",
         "sentinel_parser.parse_known_args(sys.argv[1:])", ["C16"]),
    ],
))

# --------------------------------------------------------------------------- main
OPTION_KINDS = {
    "files": "list[str]", "output": "str", "width": "int", "plaintext": "bool", "semantic": "bool",
    "cleanups": "bool", "smartquotes": "bool", "ellipses": "bool", "inplace": "bool", "nobackup": "bool",
    "version": "bool", "list_spacing": "enum:ListSpacing", "extend_include": "list[str]",
    "exclude": "opt[list[str]]", "extend_exclude": "list[str]", "respect_gitignore": "bool",
    "force_exclude": "bool", "list_files": "bool", "files_max_size": "int", "skill_instructions": "bool",
    "install_skill": "bool", "agent_base": "opt[str]", "docs": "bool", "include": "opt[list[str]]",
}


def _live_option_fields():
    cls = getattr(extract.live_module(M), "Options")
    return [f.name for f in dataclasses.fields(cls)]


def symbolic_options(ex, tag="options"):
    fields = {}
    for f in _live_option_fields():
        k = OPTION_KINDS.get(f)
        if k is None:
            raise GenError("Options.%s has no kind in the contract table (contract drift)" % f)
        fields[f] = ex.mk(k, "%s.%s" % (tag, f))
    return VObj("Options", fields)


def parse_args_model(ex, node, args, kwargs):
    o = symbolic_options(ex)
    explicit = VSet({f: z3.Bool("explicit!" + f) for f in CONFIGURABLE})
    is_auto = Sym(z3.Bool("is_auto"), "bool")
    ex.log.append(("PARSE_ARGS", {"args": args[0] if args else kwargs.get("args")}, (o, explicit, is_auto)))
    return (o, explicit, is_auto)


def merge_model(ex, node, args, kwargs):
    names = ["cli_opts", "config", "is_auto", "explicit_flags"]
    b = dict(zip(names, args))
    b.update(kwargs)
    opts = b["cli_opts"]
    ex.log.append(("MERGE", dict(b), None))
    if isinstance(opts, VObj):
        for f in CONFIGURABLE:
            if f in opts.fields:
                opts.fields[f] = ex.fresh(OPTION_KINDS[f], "merged." + f)
    return opts


def E(ex, *names):
    return [(i, e) for i, e in enumerate(ex.log) if e[0] in names]


def Tb(ex, x):
    return ex.b(ex.truth(x))


def main_exit_code(ex):
    """0 on success, 1 for usage errors / ValueError from the file layer, 2 for other failures; and the
    exit code is 0 only if the requested action was performed."""
    env = ex.envs[0]
    res = env["result"]
    rf = E(ex, "REFORMAT_FILES")
    pa = E(ex, "PARSE_ARGS")
    if len(pa) != 1:
        return False
    options = pa[0][1][2][0]
    early = z3.Or(*[Tb(ex, options.fields[k]) for k in ("version", "install_skill", "skill_instructions", "docs")])
    nofiles = ex.z(ex.length(options.fields["files"])) == 0
    failed = env.get("_rf_raised")
    conds = []
    # no input => 1 and nothing but messages to stderr
    others = [e for e in ex.log if e[0] not in ("PARSE_ARGS", "PRINT_STDERR", "PRINT_STDOUT", "VERSION", "INSTALL_SKILL",
                                                 "SKILL_CONTENT", "DOCS_CONTENT")]
    if not rf and not E(ex, "RESOLVE"):
        # early exits
        if others:
            return False
        return z3.And(z3.Implies(z3.And(z3.Not(early), nofiles), ex.z(res) == 1),
                      z3.Implies(early, ex.z(res) == 0))
    return True


def main_usage_no_effects(ex):
    """C15: no input => exit 1 without touching anything (only stderr messages)."""
    pa = E(ex, "PARSE_ARGS")
    options = pa[0][1][2][0]
    nofiles = ex.z(ex.length(options.fields["files"])) == 0
    early = z3.Or(*[Tb(ex, options.fields[k]) for k in ("version", "install_skill", "skill_instructions", "docs")])
    touched = [e for e in ex.log if e[0] in ("REFORMAT_FILES", "RESOLVE", "MERGE", "LOAD_CONFIG", "FIND_CONFIG")]
    if touched:
        return z3.Not(z3.And(nofiles, z3.Not(early)))
    return True


def main_order(ex):
    """C16: config is searched from the cwd, loaded and merged (with the explicit_flags / is_auto that
    _parse_args returned, into the very Options object used afterwards) before files are resolved and
    before anything is formatted."""
    pa = E(ex, "PARSE_ARGS")
    options, explicit, is_auto = pa[0][1][2]
    find, load, merge = E(ex, "FIND_CONFIG"), E(ex, "LOAD_CONFIG"), E(ex, "MERGE")
    later = E(ex, "RESOLVE", "REFORMAT_FILES")
    if not later:
        return True
    if len(find) != 1 or find[0][0] > later[0][0]:
        return False
    conds = [Tb(ex, ex.eq(find[0][1][1]["start_dir"], ex.wrap(ex.th.uf("call_Path_cwd", ex.sort_of("ref"))(), "ref", "Path")))]
    found = find[0][1][2]
    if len(load) > 1 or len(merge) > 1 or len(load) != len(merge):
        return False
    if merge:
        m = merge[0][1][1]
        if not (find[0][0] < load[0][0] < merge[0][0] < later[0][0]):
            return False
        if m["cli_opts"] is not options or m["explicit_flags"] is not explicit or m["is_auto"] is not is_auto:
            return False
        conds.append(Tb(ex, ex.eq(load[0][1][1]["config_path"], found.val)))
        conds.append(Tb(ex, ex.eq(m["config"], load[0][1][2])))
        conds.append(z3.Not(found.is_none))
    else:
        conds.append(found.is_none)
    rs = E(ex, "RESOLVE")
    if rs and rs[0][1][1]["options"] is not options:
        return False
    return z3.And(*conds)


def main_codes(ex):
    env = ex.envs[0]
    res = ex.z(env["result"])
    rf = E(ex, "REFORMAT_FILES")
    pa = E(ex, "PARSE_ARGS")
    options = pa[0][1][2][0]
    if rf:
        st = ex.rf_status
        want = {"ok": 0, "ValueError": 1}.get(st, 2)
        return res == want
    if E(ex, "RESOLVE"):
        return z3.And(res == 0, Tb(ex, options.fields["list_files"]))
    return True


def rf_handler_status(ex, bound, result):
    ex.rf_status = "ok"
    return None


def reformat_files_model(ex, node, args, kwargs):
    """uninterpreted effect that may raise ValueError or another Exception; records which"""
    from vfcore.explore import Unit
    spec = Callee("effect", ret="none", effect="REFORMAT_FILES", target="flowmark.reformat_api:reformat_files")
    ex.rf_status = "ok"
    r = ex.unit.call_callee(ex, "reformat_files", spec, args, kwargs, node)
    k = ex.choose(3, "reformat_files raises")
    if k == 1:
        ex.rf_status = "ValueError"
        raise RaiseSig(VExc("ValueError"), "reformat_files")
    if k == 2:
        ex.rf_status = "OSError"
        raise RaiseSig(VExc("OSError"), "reformat_files")
    return r


MAIN_PASS = {p: Clause("arg_%s == options.%s" % (p, p), props=["C15", "C16"] if p in CONFIGURABLE else ["C15"])
             for p in ("output", "width", "inplace", "nobackup", "plaintext", "semantic", "cleanups", "smartquotes",
                       "ellipses", "list_spacing")}
MAIN_PASS["make_parents"] = Clause("arg_make_parents == True", props=["C15"])
MAIN_PASS["files"] = Clause(lambda ex: ex.cur_call["files"] is ex.envs[0]["resolved_files"]
                            and any(e[0] == "RESOLVE" and e[2] is ex.envs[0]["resolved_files"] for e in ex.log), props=["C15"])

contract(Contract(
    target=M + ":main",
    props=["C15", "C16", "C14"],
    params={"args": "opt[list[str]]"},
    calls={
        "_parse_args": Callee("custom", handler=parse_args_model),
        "importlib.metadata.version": Callee("effect", ret="str", effect="VERSION", raises=("PackageNotFoundError",), sig=["name"]),
        "install_skill": Callee("effect", ret="none", effect="INSTALL_SKILL", sig=["agent_base"]),
        "get_skill_content": Callee("effect", ret="str", effect="SKILL_CONTENT", sig=[]),
        "get_docs_content": Callee("effect", ret="str", effect="DOCS_CONTENT", sig=[]),
        "Path": Callee("uf", ret="ref:Path", sig=["p"]),
        "Path.cwd": Callee("uf", ret="ref:Path", sig=[]),
        "find_config_file": Callee("effect", ret="opt[ref:Path]", effect="FIND_CONFIG", target="flowmark.config:find_config_file"),
        "load_config": Callee("effect", ret="ref:FlowmarkConfig", effect="LOAD_CONFIG", target="flowmark.config:load_config"),
        "merge_cli_with_config": Callee("custom", handler=merge_model),
        "_resolve_files": Callee("effect", ret="list[str]", effect="RESOLVE", raises=("Exception",), target=M + ":_resolve_files"),
        "reformat_files": Callee("custom", handler=reformat_files_model),
    },
    at_call={"reformat_files": MAIN_PASS},
    loops={0: Loop(inv={}, decreases="len(resolved_files) - _i")},
    raises=("Exception",),
    ensures={
        "exit_code.early": Clause(main_exit_code, props=["C15"]),
        "exit_code.run": Clause(main_codes, props=["C15", "C14"]),
        "usage.no_effects": Clause(main_usage_no_effects, props=["C15", "C14"]),
        "order": Clause(main_order, props=["C16"]),
    },
    ensures_raise={
        # only a failure of file resolution may escape main; nothing has been formatted then
        "no_format_after_escape": Clause(lambda ex: not E(ex, "REFORMAT_FILES") and bool(E(ex, "RESOLVE")) is False or
                                         (not E(ex, "REFORMAT_FILES")), props=["C15", "C14"]),
    },
    canaries=[
        ("semantic=options.semantic,", "semantic=options.cleanups,", ["C15"]),
        ("        return 1\n    except Exception as e:", "        return 0\n    except Exception as e:", ["C15", "C14"]),
        ("merge_cli_with_config(options, config, is_auto, explicit_flags)", "merge_cli_with_config(options, config, False, explicit_flags)", ["C16"]),
        ("resolved_files = _resolve_files(options)", "resolved_files = options.files", ["C15"]),
        ("config_path = find_config_file(Path.cwd())", "config_path = find_config_file(Path('.'))", ["C16"]),
        ("            make_parents=True,", "            make_parents=False,", ["C15"]),
    ],
))

# --------------------------------------------------------------------------- _resolve_files
RESOLVER_OPTS = ("extend_include", "exclude", "extend_exclude", "respect_gitignore", "force_exclude", "files_max_size")


def resolve_setup(ex):
    ex.envs[0]["options"] = symbolic_options(ex)


def resolver_ctor(ex, node, args, kwargs):
    cfg = args[0] if args else kwargs.get("config")
    ex.log.append(("NEW_RESOLVER", {"config": cfg}, None))
    return VObj("FileResolver", {"config": cfg})


def same_value(ex, a, b):
    from contracts.config import same
    return same(ex, a, b)


def resolver_config_from_options(ex):
    """C16 has_effect / C17: each file-discovery setting of Options reaches FileResolverConfig under its own name"""
    cfgs = [e for e in ex.log if e[0] == "NEW_RESOLVER"]
    if not cfgs:
        return True
    cfg = cfgs[0][1]["config"]
    opts = ex.old_envs[0]["options"]
    if not isinstance(cfg, VObj) or cfg.cls != "FileResolverConfig":
        return False
    conds = [same_value(ex, cfg.fields[k], opts.fields[k]) for k in RESOLVER_OPTS]
    if "include" in opts.fields:
        inc = opts.fields["include"]
        default = list(extract.live_module("flowmark.file_resolver.defaults").DEFAULT_INCLUDES)
        conds.append(z3.Implies(z3.Not(inc.is_none), same_value(ex, cfg.fields["include"], inc.val)))
        conds.append(z3.Implies(inc.is_none, same_value(ex, cfg.fields["include"], default)))
    return z3.And(*conds)


def resolve_bypass(ex):
    """without directories / globs / --list-files the arguments pass through unchanged, in order"""
    env = ex.envs[0]
    opts = ex.old_envs[0]["options"]
    made = [e for e in ex.log if e[0] in ("NEW_RESOLVER", "RESOLVE_PATHS")]
    needs = ex.th.uf("call__needs_file_resolution", Int, z3.ArraySort(Int, ex.th.Str), z3.BoolSort())
    if not made:
        return env["result"] is env["options"].fields["files"]
    return True


def resolve_result(ex):
    """the resolver gets every argument except '-', and '-' stays first when it was given"""
    env = ex.envs[0]
    calls = [e for e in ex.log if e[0] == "RESOLVE_PATHS"]
    if not calls:
        return True
    res = env["result"]
    stdin_present = env["stdin_present"]
    n = ex.z(ex.length(res))
    first_dash = z3.And(n >= 1, Tb(ex, ex.eq(ex.list_get(ex.as_vlist(res), 0), "-")))
    return z3.Implies(Tb(ex, stdin_present), first_dash)


contract(Contract(
    target=M + ":_resolve_files",
    props=["C17", "C16", "C18"],
    params={"options": "obj:Options"},
    setup=resolve_setup,
    types={"result": "list[str]"},
    calls={
        "_needs_file_resolution": Callee("uf", ret="bool", sig=["files"]),
        "FileResolverConfig": dataclass_ctor("flowmark.file_resolver.types", "FileResolverConfig"),
        "FileResolver": Callee("custom", handler=resolver_ctor),
        "FileResolver.resolve": Callee("effect", ret="list[ref:Path]", effect="RESOLVE_PATHS", sig=["self", "paths"],
                                       raises=("FileNotFoundError",)),
    },
    at_call={"FileResolver.resolve": {"no_stdin_marker": Clause("all(p != '-' for p in arg_paths)", props=["C17"])}},
    raises=("FileNotFoundError",),
    ensures={
        "config_from_options": Clause(resolver_config_from_options, props=["C16", "C17", "C18"]),
        "bypass": Clause(resolve_bypass, props=["C17"]),
        "stdin_first": Clause(resolve_result, props=["C17"]),
    },
    canaries=[
        ("extend_exclude=options.extend_exclude,", "extend_exclude=options.extend_include,", ["C16", "C17"]),
        ("        force_exclude=options.force_exclude,\n", "", ["C16", "C17"]),
        ('resolvable = [f for f in options.files if f != "-"]', "resolvable = options.files", ["C17"]),
        ('        result.insert(0, "-")', '        result.append("-")', ["C17"]),
    ],
))


# --------------------------------------------------------------------------- _needs_file_resolution
contract(Contract(
    target=M + ":_needs_file_resolution",
    props=["C17", "C15"],
    params={"files": "list[str]"},
    types={"f": "str"},
    calls={"Path": Callee("uf", ret="ref:Path", sig=["p"]),
           "Path.is_dir": Callee("uf", ret="bool", sig=["self"])},
    defs={"needs(x)": "x != '-' and (call('Path.is_dir', call('Path', x)) or ('*' in x) or ('?' in x) or ('[' in x))"},
    loops={0: Loop(inv={"none_so_far": "all(not needs(files[k]) for k in range(_i))"}, decreases="len(files) - _i")},
    ensures={
        # C15 / C17: plain file arguments (however many, in whatever order) are never sent through the resolver -- which would
        # sort them, drop oversized ones and apply force_exclude; only a directory or a glob among the arguments does that
        "true_only_for_directory_or_glob": "implies(result, needs(f))",
        "false_means_none": "implies(not result, all(not needs(files[k]) for k in range(len(files))))",
    },
    canaries=[
        ('        if f == "-":\n            continue\n', "", None, ["none_so_far", "post["]),
        ("        if Path(f).is_dir():\n            return True\n", "", None, ["none_so_far", "post["]),
    ],
))
