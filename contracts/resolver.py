"""Contracts for flowmark.file_resolver.resolver (C17, C18)."""
import z3

from vfcore.contracts import Callee, Clause, Contract, Loop, contract
from vfcore.theory import Bool, Int, Ref
from vfcore.values import FAll, FAnd, FT, Sym, VObj, VOpt

M = "flowmark.file_resolver.resolver"


# --------------------------------------------------------------------------- _gitignored  (C18 chain precedence)
def rel_of(ex, path, base, is_dir):
    """the path as the .gitignore in `base` must see it: relative to base, posix, trailing '/' for directories"""
    r = ex.th.uf("call_Path_relative_to", Ref, Ref, Ref)(ex.z(path), ex.z(base))
    s = ex.th.uf("call_Path_as_posix", Ref, ex.th.Str)(r)
    return z3.If(ex.b(ex.truth(is_dir)), ex.th.cat(s, ex.th.lit("/")), s)


def inc(ex, k):
    """(no pattern of the k-th .gitignore matches, its decision otherwise)"""
    env = ex.old_envs[0]
    chain = env["chain"]
    base, spec = chain.arr[0], chain.arr[1]
    res = ex.th.uf("call_PathSpec_check_file", Ref, ex.th.Str, Ref)(z3.Select(spec, k), rel_of(ex, env["path"], Sym(z3.Select(base, k), "ref"), env["is_dir"]))
    return ex.th.uf("attr?_CheckResult.include", Ref, Bool)(res), ex.th.uf("attr_CheckResult.include", Ref, Bool)(res)


def dec(ex, k):
    return ex.th.uf("spec_decision", Int, Bool)(ex.zi(k))


def gi_inv(ex):
    """ignored == decision of the last .gitignore (root -> leaf) among the first _i that has a matching pattern"""
    i = ex.zi(ex.envs[0]["_i"])
    none_i, val_i = inc(ex, i)
    ex.pc.append(dec(ex, 0) == False)                                        # noqa: E712  (definition of the decision)
    ex.pc.append(dec(ex, i + 1) == z3.If(none_i, dec(ex, i), val_i))
    return ex.b(ex.truth(ex.envs[0]["ignored"])) == dec(ex, i)


contract(Contract(
    target=M + ":FileResolver._gitignored",
    props=["C18"],
    params={"path": "ref:Path", "is_dir": "bool", "chain": "list[tuple[ref:Path,ref:PathSpec]]"},
    types={"ignored": "bool", "rel": "str", "include": "opt[bool]", "base": "ref:Path", "spec": "ref:PathSpec"},
    calls={
        "Path.relative_to": Callee("uf", ret="ref:Path", sig=["self", "other"]),
        "Path.as_posix": Callee("uf", ret="str", sig=["self"]),
        "PathSpec.check_file": Callee("uf", ret="ref:CheckResult", sig=["self", "file"]),
        "CheckResult.include": Callee("attr", ret="opt[bool]"),
    },
    at_call={"PathSpec.check_file": {
        # C18: each .gitignore is asked about the path relative to ITS directory, directories with a trailing slash
        # (stated over the chain and the iteration index, not over the loop's local names)
        "relative_to_own_directory": Clause(lambda ex: ex.z(ex.cur_call["file"]) == rel_of(
            ex, ex.old_envs[0]["path"],
            Sym(z3.Select(ex.old_envs[0]["chain"].arr[0], ex.zi(ex.envs[0]["_i"])), "ref"), ex.old_envs[0]["is_dir"])
            if "_i" in ex.envs[0] else False),
    }},
    loops={0: Loop(inv={"decision": Clause(gi_inv)}, decreases="len(chain) - _i")},
    ensures={
        # C18: the last matching pattern along the chain root -> leaf decides (a deeper !pattern re-includes)
        "last_match_decides": Clause(lambda ex: (ex.pc.append(dec(ex, 0) == False) or True) and  # noqa: E712
                                     ex.b(ex.truth(ex.envs[0]["result"])) == dec(ex, ex.length(ex.old_envs[0]["chain"]))),
    },
    canaries=[
        ("            if include is not None:\n                ignored = include", "            if include:\n                ignored = True"),
        ('rel = path.relative_to(base).as_posix() + ("/" if is_dir else "")', 'rel = path.as_posix() + ("/" if is_dir else "")'),
        ("        ignored = False\n        for base", "        ignored = True\n        for base"),
    ],
))


# --------------------------------------------------------------------------- _exceeds_max_size
def size_setup(ex):
    s = ex.envs[0]["self"]
    cfg = VObj("FileResolverConfig", {"files_max_size": ex.mk("int", "files_max_size")})
    s.fields["_config"] = cfg
    ex.stat_failed = False


def stat_model(ex, node, args, kwargs):
    from vfcore.sx_base import RaiseSig
    from vfcore.values import VExc
    if ex.choose(2, "stat raises"):
        ex.stat_failed = True
        raise RaiseSig(VExc("OSError"), "stat")
    return Sym(ex.th.uf("call_Path_stat", Ref, Ref)(ex.z(args[0])), "ref", "StatResult")


contract(Contract(
    target=M + ":FileResolver._exceeds_max_size",
    props=["C17"],
    params={"path": "ref:Path"},
    self_cls="FileResolver",
    setup=size_setup,
    calls={"Path.stat": Callee("custom", handler=stat_model), "StatResult.st_size": Callee("attr", ret="int")},
    ensures={
        # 0 = unlimited; otherwise strictly larger than the limit; an unreadable size never excludes
        "size_rule": Clause(lambda ex: ex.b(ex.truth(ex.envs[0]["result"])) == (
            z3.BoolVal(False) if ex.stat_failed else z3.And(
                ex.z(ex.envs[0]["self"].fields["_config"].fields["files_max_size"]) != 0,
                ex.th.uf("attr_StatResult.st_size", Ref, Int)(ex.th.uf("call_Path_stat", Ref, Ref)(ex.z(ex.envs[0]["path"])))
                > ex.z(ex.envs[0]["self"].fields["_config"].fields["files_max_size"])))),
    },
    canaries=[("st_size > self._config.files_max_size", "st_size >= self._config.files_max_size"),
              ("if self._config.files_max_size == 0:\n            return False", "if self._config.files_max_size < 0:\n            return False")],
))


# --------------------------------------------------------------------------- _walk_directory
from vfcore.values import VFunc, VList  # noqa: E402
from vfcore.sx_base import GenError  # noqa: E402


def walk_setup(ex):
    s = ex.envs[0]["self"]
    s.fields["_config"] = VObj("FileResolverConfig", {"respect_gitignore": ex.mk("bool", "respect_gitignore")})
    s.fields["_include_spec"] = ex.mk("ref:PathSpec", "include_spec")


def os_walk(ex, node, args, kwargs):
    """assumed contract of os.walk(top) WITHOUT followlinks: a top-down sequence of (dirpath, dirnames, filenames);
    it descends exactly into the names left in the very `dirnames` list object it yielded and never into
    symlinked directories"""
    ex.log.append(("OS_WALK", {"top": args[0] if args else kwargs.get("top"), "kwargs": dict(kwargs), "nargs": len(args)}, None))
    top = ex.z(args[0])
    S = ex.th.Str
    n = ex.th.uf("walk#len", Ref, Int)(top)
    ex.pc.append(n >= 0)
    k = z3.Int("k!walk")
    seq = VList(n, z3.Lambda([k], k), "int")

    def entry(i, _x):
        iz = ex.zi(i)
        dp = Sym(ex.th.uf("walk_dirpath", Ref, Int, S)(top, iz), "str")
        dn = VList(ex.th.uf("walk_ndirs", Ref, Int, Int)(top, iz), ex.th.uf("walk_dirs", Ref, Int, z3.ArraySort(Int, S))(top, iz), "str")
        fn = VList(ex.th.uf("walk_nfiles", Ref, Int, Int)(top, iz), ex.th.uf("walk_files", Ref, Int, z3.ArraySort(Int, S))(top, iz), "str")
        ex.pc.append(z3.And(ex.z(dn.length) >= 0, ex.z(fn.length) >= 0))
        ex.walk_objects = {"dirnames": dn, "filenames": fn}
        return (dp, dn, fn)
    v = VFunc("os.walk", "iterview", ("custom", (seq, entry)))
    return v


def gitignored_uf(ex, node, args, kwargs):
    path, is_dir, chain = args[-3], args[-2], args[-1]
    chain = ex.as_vlist(chain, ("ref:Path", "ref:PathSpec"))
    f = ex.th.uf("spec_gitignored", Ref, Bool, Int, chain.arr[0].sort(), chain.arr[1].sort(), Bool)
    r = f(ex.z(path), ex.b(ex.truth(is_dir)), ex.z(chain.length), chain.arr[0], chain.arr[1])
    # from the contract proved for _gitignored (decision(0) == False): an empty chain ignores nothing
    ex.pc.append(z3.Implies(ex.z(chain.length) == 0, z3.Not(r)))
    return Sym(r, "bool")


def chain_uf(ex, node, args, kwargs):
    d, root = args[-2], args[-1]
    S = ex.sort_of("ref")
    ln = ex.th.uf("chain#len", Ref, Ref, Int)(ex.z(d), ex.z(root))
    a0 = ex.th.uf("chain#dirs", Ref, Ref, z3.ArraySort(Int, Ref))(ex.z(d), ex.z(root))
    a1 = ex.th.uf("chain#specs", Ref, Ref, z3.ArraySort(Int, Ref))(ex.z(d), ex.z(root))
    ex.pc.append(ln >= 0)
    return VList(ln, (a0, a1), ("ref:Path", "ref:PathSpec"))


def yield_iff(ex):
    """C17 walk.filter: a file of the directory is yielded iff it is not a symbolic link, matches an include pattern, is
    not too big, is not git-ignored (chain root -> this directory; only with respect_gitignore) and is not matched by the
    tool ignore file (path relative to the walk root); the yielded path is directory / name"""
    env = ex.envs[0]
    ys = [e for e in ex.log[ex.iter_log_start:] if e[0] == "YIELD"]
    if len(ys) > 1:
        return False
    s = env["self"]
    filename = env["filename"]
    current, root = env["current"], ex.old_envs[0]["root"]
    fp = ex.unit.path_join(ex, current, filename)
    is_link = ex.th.uf("call_Path_is_symlink", Ref, Bool)(fp.t)
    inc_ok = ex.th.uf("call_PathSpec_match_file", Ref, ex.th.Str, Bool)(ex.z(s.fields["_include_spec"]), ex.z(filename))
    too_big = ex.th.uf("spec_exceeds", Ref, Bool)(fp.t)
    rc = Sym(ex.th.uf("call_Path_resolve", Ref, Ref)(ex.z(current)), "ref", "Path")
    chain = ex.ite(ex.b(ex.truth(s.fields["_config"].fields["respect_gitignore"])),
                   chain_uf(ex, None, [current, root], {}), VList(0, (z3.K(Int, z3.Const("nil!ref", Ref)), z3.K(Int, z3.Const("nil!ref", Ref))), ("ref:Path", "ref:PathSpec")))
    git = gitignored_uf(ex, None, [ex.unit.path_join(ex, rc, filename), False, chain], {}).t
    if not ex.truth(s.fields["_config"].fields["respect_gitignore"]) is True:
        pass
    ti = env["tool_ignore"]
    rel = ex.th.uf("call_Path_relative_to", Ref, Ref, Ref)(ex.z(current), ex.z(root))
    relp = ex.th.uf("call_Path_as_posix", Ref, ex.th.Str)(ex.unit.path_join(ex, Sym(rel, "ref", "Path"), filename).t)
    tool = z3.And(z3.Not(ti.is_none), ex.th.uf("call_PathSpec_match_file", Ref, ex.th.Str, Bool)(ex.z(ti.val), relp))
    respect = ex.b(ex.truth(s.fields["_config"].fields["respect_gitignore"]))
    want = z3.And(z3.Not(is_link), inc_ok, z3.Not(too_big), z3.Not(z3.And(respect, git)), z3.Not(tool))
    if ys:
        return z3.And(want, ex.z(ys[0][1]["value"]) == fp.t)
    return z3.Not(want)


def prune_in_place(ex):
    """C17 walk.prune_in_place: the pruned names are written into the very list object os.walk yielded (a rebinding
    would prune nothing) and every name kept is one that _is_dir_excluded rejects as 'excluded'"""
    env = ex.envs[0]
    return env.get("dirnames") is ex.walk_objects["dirnames"]


def dirx_uf(ex, node, args, kwargs):
    """self._is_dir_excluded(dirname, rel_path, current_dir, tool_ignore, walk_root) as a function of its arguments (its own
    contract says which function: exclude / gitignore / tool-ignore match of name/ or path/)"""
    d, rel, cur, ti, root = args[-5:]
    f = ex.th.uf("spec_dir_excluded", ex.th.Str, Ref, Ref, Bool, Ref, Ref, Bool)
    tin = ti.is_none if isinstance(ti, VOpt) else z3.BoolVal(ti is None)
    tiv = ex.z(ti.val) if isinstance(ti, VOpt) else (z3.Const("nil!ref", Ref) if ti is None else ex.z(ti))
    return Sym(f(ex.z(d), ex.z(rel), ex.z(cur), tin, tiv, ex.z(root)), "bool")


def pruned_names_only(ex):
    """C17 walk.prune: when the iteration is over, every name still in the list object os.walk yielded (= every directory
    os.walk will descend into) is one that _is_dir_excluded does NOT exclude, judged with the name, its path relative to the
    walk root, the current directory, the tool ignore file and the walk root -- whatever else the iteration did or skipped"""
    env = ex.envs[0]
    dn = ex.walk_objects["dirnames"]
    s = env["self"]
    root = ex.old_envs[0]["root"]
    dirpath = env.get("dirpath")
    if dirpath is None:
        return False
    cur = Sym(ex.th.uf("call_Path", ex.th.Str, Ref)(ex.z(dirpath)), "ref", "Path")
    rel = Sym(ex.th.uf("call_Path_relative_to", Ref, Ref, Ref)(cur.t, ex.z(root)), "ref", "Path")
    ti = env.get("tool_ignore")
    if ti is None:
        return False
    def excluded(c):
        d = ex.list_get(dn, c)
        r = dirx_uf(ex, None, [d, ex.unit.path_join(ex, rel, d), cur, ti, root], {})
        return FT(z3.Not(ex.b(ex.truth(r))))
    return FAll("k", 0, dn.length, excluded, "pruned")


def no_unexcluded_name_dropped(ex):
    """C17 walk.prune_complete: the pruning drops nothing else -- every name of the list the pruning comprehension filters
    (the names os.walk yielded for this directory) that _is_dir_excluded does NOT exclude is still in the list object os.walk
    descends from, so no directory (hidden or not) is skipped for a reason other than the exclusions"""
    env = ex.envs[0]
    dn = ex.walk_objects["dirnames"]
    comp = getattr(ex, "last_comp", None)
    fo = getattr(comp, "filter_of", None)
    if fo is None:
        return False
    src, idx, inv = fo
    root = ex.old_envs[0]["root"]
    dirpath = env.get("dirpath")
    ti = env.get("tool_ignore")
    if dirpath is None or ti is None:
        return False
    cur = Sym(ex.th.uf("call_Path", ex.th.Str, Ref)(ex.z(dirpath)), "ref", "Path")
    rel = Sym(ex.th.uf("call_Path_relative_to", Ref, Ref, Ref)(cur.t, ex.z(root)), "ref", "Path")
    def kept(c):
        d = ex.list_get(src, c)
        r = dirx_uf(ex, None, [d, ex.unit.path_join(ex, rel, d), cur, ti, root], {})
        at = inv(c)
        return FT(z3.Implies(z3.Not(ex.b(ex.truth(r))),
                             z3.And(0 <= at, at < ex.z(dn.length), ex.b(ex.truth(ex.eq(ex.list_get(dn, at), d))))))
    return FAll("j", 0, src.length, kept, "prune-complete")


def no_followlinks(ex):
    w = [e for e in ex.log if e[0] == "OS_WALK"]
    return len(w) == 1 and w[0][1]["nargs"] == 1 and not w[0][1]["kwargs"] and ex.eq(w[0][1]["top"], ex.old_envs[0]["root"]) is not False


def exceeds_uf(ex, node, args, kwargs):
    return Sym(ex.th.uf("spec_exceeds", Ref, Bool)(ex.z(args[-1])), "bool")


contract(Contract(
    target=M + ":FileResolver._walk_directory",
    props=["C17", "C18"],
    params={"root": "ref:Path"},
    self_cls="FileResolver",
    setup=walk_setup,
    types={"current": "ref:Path", "rel_to_root": "ref:Path", "gitignore_specs": "list[tuple[ref:Path,ref:PathSpec]]",
           "resolved_current": "ref:Path", "filepath": "ref:Path", "filename": "str", "dirpath": "str",
           "dirnames": "list[str]", "filenames": "list[str]", "d": "str"},
    calls={
        "self._get_tool_ignore": Callee("uf", ret="opt[ref:PathSpec]", sig=["self_", "start_dir"]),
        "os.walk": Callee("custom", handler=os_walk),
        "Path": Callee("uf", ret="ref:Path", sig=["p"]),
        "Path.relative_to": Callee("uf", ret="ref:Path", sig=["self", "other"]),
        "Path.resolve": Callee("uf", ret="ref:Path", sig=["self"]),
        "Path.is_symlink": Callee("uf", ret="bool", sig=["self"]),
        "Path.as_posix": Callee("uf", ret="str", sig=["self"]),
        "PathSpec.match_file": Callee("uf", ret="bool", sig=["self", "file"]),
        "self._is_dir_excluded": Callee("custom", handler=dirx_uf),
        "self._get_gitignore_chain": Callee("custom", handler=chain_uf),
        "self._gitignored": Callee("custom", handler=gitignored_uf),
        "self._exceeds_max_size": Callee("custom", handler=exceeds_uf),
    },
    loops={
        0: Loop(inv={}, body_ensures={"prune_in_place": Clause(prune_in_place, props=["C17"]),
                                      "only_unexcluded_names_left": Clause(pruned_names_only, props=["C17", "C18"]),
                                      "no_unexcluded_name_dropped": Clause(no_unexcluded_name_dropped, props=["C17"])}),
        1: Loop(inv={}, body_ensures={"yield_iff": Clause(yield_iff, props=["C17", "C18"])}),
    },
    ensures={"no_followlinks": Clause(no_followlinks, props=["C17"])},
    canaries=[
        ("            dirnames[:] = [", "            dirnames = [", ["C17"], ["iter-ensures[loop0"]),
        ("                if not self._is_dir_excluded(d, rel_to_root / d, current, tool_ignore, root)",
         "                if not d.startswith('.') and not self._is_dir_excluded(d, rel_to_root / d, current, tool_ignore, root)", ["C17"], ["no_unexcluded_name_dropped"]),
        ("for dirpath, dirnames, filenames in os.walk(root):", "for dirpath, dirnames, filenames in os.walk(root, followlinks=True):", ["C17"], ["post[no_followlinks"]),
        ("                if filepath.is_symlink():\n", "                if False:\n", ["C17"], ["iter-ensures[loop1"]),
        ("            if self._config.respect_gitignore:\n                gitignore_specs", "            if True:\n                gitignore_specs", ["C18"], ["iter-ensures[loop1"]),
        ("tool_ignore.match_file((rel_to_root / filename).as_posix())", "tool_ignore.match_file(filename)", ["C17"], ["iter-ensures[loop1"]),
    ],
))


# --------------------------------------------------------------------------- _is_dir_excluded
def dirx_setup(ex):
    s = ex.envs[0]["self"]
    s.fields["_config"] = VObj("FileResolverConfig", {"respect_gitignore": ex.mk("bool", "respect_gitignore")})
    s.fields["_exclude_spec"] = ex.mk("ref:PathSpec", "exclude_spec")


def dir_excluded_iff(ex):
    """C17 dir_excluded.iff: a directory is pruned iff an exclude pattern matches its name/ or its path/ (relative to
    the walk root), or (gitignore on) the .gitignore chain of its parent ignores it as a directory, or the tool ignore
    file matches name/ or path/"""
    env = ex.old_envs[0]
    s = ex.envs[0]["self"]
    mf = ex.th.uf("call_PathSpec_match_file", Ref, ex.th.Str, Bool)
    name_s = ex.th.cat(ex.z(env["dirname"]), ex.th.lit("/"))
    rel_s = ex.th.cat(ex.z(ex.to_str(env["rel_path"])), ex.th.lit("/"))
    exc = ex.z(s.fields["_exclude_spec"])
    by_exclude = z3.Or(mf(exc, name_s), mf(exc, rel_s))
    wr = env["walk_root"]
    root = ex.ite(wr.is_none, env["current_dir"], wr.val)
    chain = chain_uf(ex, None, [env["current_dir"], root], {})
    rc = Sym(ex.th.uf("call_Path_resolve", Ref, Ref)(ex.z(env["current_dir"])), "ref", "Path")
    git = z3.And(ex.b(ex.truth(s.fields["_config"].fields["respect_gitignore"])),
                 gitignored_uf(ex, None, [ex.unit.path_join(ex, rc, env["dirname"]), True, chain], {}).t)
    ti = env["tool_ignore"]
    by_tool = z3.And(z3.Not(ti.is_none), z3.Or(mf(ex.z(ti.val), name_s), mf(ex.z(ti.val), rel_s)))
    return ex.b(ex.truth(ex.envs[0]["result"])) == z3.Or(by_exclude, git, by_tool)


contract(Contract(
    target=M + ":FileResolver._is_dir_excluded",
    props=["C17", "C18"],
    params={"dirname": "str", "rel_path": "ref:Path", "current_dir": "ref:Path", "tool_ignore": "opt[ref:PathSpec]",
            "walk_root": "opt[ref:Path]"},
    self_cls="FileResolver",
    setup=dirx_setup,
    calls={
        "PathSpec.match_file": Callee("uf", ret="bool", sig=["self", "file"]),
        "Path.resolve": Callee("uf", ret="ref:Path", sig=["self"]),
        "self._get_gitignore_chain": Callee("custom", handler=chain_uf),
        "self._gitignored": Callee("custom", handler=gitignored_uf),
    },
    ensures={"iff": Clause(dir_excluded_iff)},
    canaries=[
        ("        if self._config.respect_gitignore:\n            root = walk_root", "        if True:\n            root = walk_root", ["C18"]),
        ("        if self._exclude_spec.match_file(rel_with_slash):\n            return True\n", "", ["C17"]),
        ('dir_with_slash = dirname + "/"', "dir_with_slash = dirname", ["C17"]),
        ("self._gitignored(current_dir.resolve() / dirname, True, chain)", "self._gitignored(current_dir.resolve() / dirname, False, chain)", ["C18"]),
    ],
))


# --------------------------------------------------------------------------- _get_gitignore_chain  (C18 chain extent)
def chain_setup(ex):
    env = ex.envs[0]
    root = ex.th.uf("call_Path_resolve", Ref, Ref)(ex.z(env["walk_root"]))
    ex.pc.append(desc(ex, 0) == root)


def desc(ex, k):
    """k-th directory on the way from the resolved walk root down to the resolved target directory"""
    return ex.th.uf("spec_desc", Int, Ref)(ex.zi(k))


def step(ex, cur, target):
    rel = ex.th.uf("call_Path_relative_to", Ref, Ref, Ref)(target, cur)
    part0 = ex.th.uf("attr#arr_Path.parts", Ref, z3.ArraySort(Int, ex.th.Str))(rel)
    return ex.th.uf("path_join", Ref, ex.th.Str, Ref)(cur, z3.Select(part0, 0))


def gi_of(ex, d):
    """(no .gitignore rules in d, the spec)"""
    return ex.th.uf("call?_self__get_gitignore", Ref, Bool)(d), ex.th.uf("call_self__get_gitignore", Ref, Ref)(d)


def chain_inv(ex):
    env = ex.envs[0]
    depth = env["depth"]
    d = ex.zi(depth)
    target = ex.th.uf("call_Path_resolve", Ref, Ref)(ex.z(ex.old_envs[0]["directory"]))
    ex.pc.append(desc(ex, d + 1) == step(ex, desc(ex, d), target))
    specs = env["specs"]
    cnt = ex.th.uf("spec_count", Int, Int)
    none_d, spec_d = gi_of(ex, desc(ex, d))
    ex.pc.append(cnt(0) == 0)
    ex.pc.append(cnt(d + 1) == cnt(d) + z3.If(none_d, 0, 1))
    return FAnd([FT(z3.And(d >= 0, ex.z(env["current"]) == desc(ex, d), ex.z(ex.length(specs)) == cnt(d))),
                 # every collected entry is (some directory on the path, that directory's own .gitignore)
                 FAll("j", 0, specs.length, lambda c: FT(z3.And(
                     z3.Select(env["idx"].arr, c) >= 0, z3.Select(env["idx"].arr, c) < d,
                     z3.Select(specs.arr[0], c) == desc(ex, z3.Select(env["idx"].arr, c)),
                     z3.Not(gi_of(ex, desc(ex, z3.Select(env["idx"].arr, c)))[0]),
                     z3.Select(specs.arr[1], c) == gi_of(ex, desc(ex, z3.Select(env["idx"].arr, c)))[1],
                     z3.Implies(c > 0, z3.Select(env["idx"].arr, c - 1) < z3.Select(env["idx"].arr, c)))), "entries in path order")])


def chain_post(ex):
    """C18 chain.extent: the chain holds, in path order root -> directory, exactly the directories on that path that have
    .gitignore rules, each paired with its own spec; when the directory lies under the root the path is followed to it"""
    env = ex.envs[0]
    d = ex.zi(env["depth"])
    res = env["result"]
    cnt = ex.th.uf("spec_count", Int, Int)
    none_d, _ = gi_of(ex, desc(ex, d))
    ex.pc.append(cnt(0) == 0)
    ex.pc.append(cnt(d + 1) == cnt(d) + z3.If(none_d, 0, 1))
    idx = env["idx"]
    return FAnd([FT(ex.z(ex.length(res)) == cnt(d + 1)),
                 FAll("j", 0, res.length, lambda c: FT(z3.And(
                     z3.Select(idx.arr, c) >= 0, z3.Select(idx.arr, c) <= d,
                     z3.Select(res.arr[0], c) == desc(ex, z3.Select(idx.arr, c)),
                     z3.Not(gi_of(ex, desc(ex, z3.Select(idx.arr, c)))[0]),
                     z3.Select(res.arr[1], c) == gi_of(ex, desc(ex, z3.Select(idx.arr, c)))[1],
                     z3.Implies(c > 0, z3.Select(idx.arr, c - 1) < z3.Select(idx.arr, c)))), "entries in path order")])


contract(Contract(
    target=M + ":FileResolver._get_gitignore_chain",
    props=["C18"],
    params={"directory": "ref:Path", "walk_root": "ref:Path"},
    self_cls="FileResolver",
    setup=chain_setup,
    types={"specs": "list[tuple[ref:Path,ref:PathSpec]]", "current": "ref:Path", "spec": "opt[ref:PathSpec]", "next_part": "str",
           "depth": "int", "idx": "list[int]"},
    ghost={"depth": "0", "idx": "[]"},
    hooks=[("after", "assign:current@loop", "depth = depth + 1"),
           ("after", "call:specs.append", "idx.append(depth)")],
    calls={
        "Path.resolve": Callee("uf", ret="ref:Path", sig=["self"]),
        "Path.relative_to": Callee("uf", ret="ref:Path", sig=["self", "other"], raises=("ValueError",)),
        "Path.parts": Callee("attr", ret="list[str]"),
        "Path.parent": Callee("attr", ret="ref:Path"),
        "self._get_gitignore": Callee("custom", handler=lambda ex, node, args, kwargs: VOpt(
            gi_of(ex, ex.z(args[-1]))[0], Sym(gi_of(ex, ex.z(args[-1]))[1], "ref", "PathSpec"))),
    },
    loops={0: Loop(inv={"on_path": Clause(chain_inv), "idx_len": "len(idx) == len(specs)"}, modifies=["depth", "idx"])},
    ensures={"extent": Clause(chain_post),
             # the descent stops only at the target directory itself (or when the target is not under the root)
             "reaches_directory": Clause(lambda ex: True if ex.handled else
                                         ex.z(ex.envs[0]["current"]) == ex.th.uf("call_Path_resolve", Ref, Ref)(ex.z(ex.old_envs[0]["directory"])))},
    canaries=[
        ("            if current == resolved_dir:\n                break\n", "            if current.parent == resolved_dir:\n                break\n"),
        ("            if spec is not None:\n                specs.append((current, spec))", "            if spec is not None and not specs:\n                specs.append((current, spec))"),
        ("                specs.append((current, spec))", "                specs.append((resolved_root, spec))"),
    ],
    note="termination of the descent relies on the path having finitely many components (assumed)",
))


# --------------------------------------------------------------------------- resolve (C17 sorted / duplicate-free / order-free)
def resolve_setup(ex):
    pass


def strictly_sorted(ex):
    """C17: the result is sorted and duplicate-free (no later element is smaller than or equal to an earlier one)"""
    res = ex.envs[0]["result"]
    lt = ex.th.uf("ref_lt", Ref, Ref, Bool)
    n = ex.z(res.length)
    return FAll("k", 0, res.length, lambda c: FT(z3.Implies(c + 1 < n, z3.And(
        z3.Not(lt(z3.Select(res.arr, c + 1), z3.Select(res.arr, c))), z3.Select(res.arr, c) != z3.Select(res.arr, c + 1)))), "sorted, distinct")


def _resolved_post(ex, bound, r):
    """assumed contract of pathlib: what Path.resolve() returns is canonical (absolute, no '..', no symlink component);
    Path.absolute() promises no such thing"""
    from vfcore.theory import Bool, Ref
    return ex.th.uf("spec_is_resolved", Ref, Bool)(ex.z(r))


R_INV = {
    # every listed path is canonical: two spellings of one file cannot both be listed (C17: duplicate-free, absolute)
    "canonical": "all(uf('is_resolved', 'bool', result[k]) for k in range(len(result)))",
    "in_seen": "all(result[k] in seen for k in range(len(result)))",
    "distinct": "all(pos[result[k]] == k for k in range(len(result)))",
    # a path is remembered as seen only when it is listed: an argument that is filtered out must not hide the same file from
    # a later argument that legitimately yields it (C17: independent of argument order, nothing that passes is missed)
    "seen_only_listed": "nseen == len(result)",
}

def every_directory_walked(ex):
    """C17 (nothing is missed): a directory argument is traversed -- exactly one walk, rooted at that argument -- whatever was
    resolved before it; file and glob arguments trigger none"""
    walks = [e for e in ex.log[ex.iter_log_start:] if e[0] == "WALK"]
    env = ex.envs[0]
    raw = ex.list_get(env["_it0"], ex.z(env["_i"]) - 1)
    p = ex.th.uf("call_Path", ex.th.Str, Ref)(ex.z(raw))
    is_file = ex.th.uf("call_Path_is_file", Ref, Bool)(p)
    is_dir = ex.th.uf("call_Path_is_dir", Ref, Bool)(p)
    want = z3.And(z3.Not(is_file), is_dir)
    if len(walks) > 1:
        return False
    if walks:
        return z3.And(want, ex.z(walks[0][1]["root"]) == p)
    return z3.Not(want)


contract(Contract(
    target=M + ":FileResolver.resolve",
    props=["C17"],
    params={"paths": "list[str]"},
    self_cls="FileResolver",
    setup=resolve_setup,
    types={"seen": "refset", "pos": "refmap:int", "nseen": "int", "result": "list[ref:Path]", "p": "ref:Path", "resolved": "ref:Path",
           "found": "ref:Path", "raw_path": "str"},
    ghost={"pos": "{}", "nseen": "0"},
    # (the appended value itself, not the local it happens to be called by)
    hooks=[("after", "call:result.append", "pos[result[len(result) - 1]] = len(result) - 1"),
           ("after", "call:seen.add", "nseen = nseen + 1")],
    calls={
        "Path": Callee("uf", ret="ref:Path", sig=["p"]),
        "Path.is_file": Callee("uf", ret="bool", sig=["self"]),
        "Path.is_dir": Callee("uf", ret="bool", sig=["self"]),
        "Path.resolve": Callee("uf", ret="ref:Path", sig=["self"], post=_resolved_post),
        "Path.absolute": Callee("uf", ret="ref:Path", sig=["self"]),
        "Path.is_relative_to": Callee("uf", ret="bool", sig=["self", "other"]),
        "self._should_include_explicit": Callee("uf", ret="bool", sig=["self_", "path"]),
        "self._walk_directory": Callee("effect", ret="list[ref:Path]", effect="WALK", sig=["self_", "root"]),
        "self._expand_glob": Callee("effect", ret="list[ref:Path]", effect="GLOB", sig=["self_", "pattern"]),
    },
    loops={0: Loop(inv=R_INV, modifies=["pos", "nseen"], decreases="len(paths) - _i",
                   body_ensures={"every_directory_walked": Clause(every_directory_walked)}),
           1: Loop(inv=R_INV, modifies=["pos", "nseen"]), 2: Loop(inv=R_INV, modifies=["pos", "nseen"])},
    raises=("FileNotFoundError",),
    ensures={"sorted_distinct": Clause(strictly_sorted),
             "canonical": "all(uf('is_resolved', 'bool', result[k]) for k in range(len(result)))"},
    canaries=[
        ("                resolved = p.resolve()\n", "                resolved = p.absolute()\n", None, ["inv-preserve[loop0.canonical"]),
        ("        result.sort()\n", "", None, ["post["]),
        ("                    if resolved not in seen:\n                        seen.add(resolved)\n                        result.append(resolved)\n            elif any",
         "                    if True:\n                        seen.add(resolved)\n                        result.append(resolved)\n            elif any", None, ["inv-preserve"]),
        ("                    seen.add(resolved)\n                    result.append(resolved)\n            elif p.is_dir():",
         "                    result.append(resolved)\n            elif p.is_dir():", None, ["inv-preserve"]),
    ],
))


# --------------------------------------------------------------------------- _expand_glob (soundness of the filters)
def glob_setup(ex):
    s = ex.envs[0]["self"]
    s.fields["_include_spec"] = ex.mk("ref:PathSpec", "include_spec")
    s.fields["_exclude_spec"] = ex.mk("ref:PathSpec", "exclude_spec")


def glob_yield_sound(ex):
    """C17 glob.filtered: whatever a glob yields is a file whose name matches an include pattern, that is not too big, is
    not matched by the tool ignore file (path relative to the glob root) and none of whose ancestor directories below the glob
    root is excluded, by its bare name or by its relative path (the two forms _is_dir_excluded tests during traversal)"""
    env = ex.envs[0]
    ys = [e for e in ex.log[ex.iter_log_start:] if e[0] == "YIELD"]
    if len(ys) > 1:
        return False
    if not ys:
        return True
    s = env["self"]
    it0 = env["_it1"]
    path = ex.list_get(it0, ex.z(env["_i1"] if "_i1" in env else env["_i"]) - 1)
    if ex.eq(ys[0][1]["value"], path) is False:
        return False
    S = ex.th.Str
    match = ex.th.uf("call_PathSpec_match_file", Ref, S, Bool)
    root = ex.iter_envs[0]["root"] if "root" in ex.iter_envs[0] else env["root"]
    rel = ex.th.uf("call_Path_relative_to", Ref, Ref, Ref)(path.t, ex.z(root))
    name = ex.th.uf("attr_Path.name", Ref, S)(path.t)
    parts_len = ex.th.uf("attr#len_Path.parts", Ref, Int)(rel)
    parts_arr = ex.th.uf("attr#arr_Path.parts", Ref, z3.ArraySort(Int, S))(rel)
    exc = ex.z(s.fields["_exclude_spec"])
    ti = env["tool_ignore"]
    posix = ex.th.uf("call_Path_as_posix", Ref, S)(rel)
    base = z3.And(ex.th.uf("call_Path_is_file", Ref, Bool)(path.t),
                  match(ex.z(s.fields["_include_spec"]), name),
                  z3.Not(ex.th.uf("spec_exceeds", Ref, Bool)(path.t)),
                  z3.Not(z3.And(z3.Not(ti.is_none), match(ex.z(ti.val), posix))),
                  ex.z(ys[0][1]["value"]) == path.t)
    slash = ex.th.lit("/")

    def not_excluded(k):
        byname = match(exc, ex.th.cat(z3.Select(parts_arr, k), slash))
        bypath = match(exc, ex.th.cat(ex.mk_joinr(slash, parts_arr, z3.IntVal(0), k + 1), slash))
        return FT(z3.And(z3.Not(byname), z3.Not(bypath)))
    from vfcore.values import FAnd
    return FAnd([FT(base), FAll("k", 0, ex.wrap(parts_len - 1, "int"), not_excluded, "no ancestor directory excluded")])


contract(Contract(
    target=M + ":FileResolver._expand_glob",
    props=["C17"],
    assumes=['pathlib: Path.glob / relative_to / parts / name / is_file as uninterpreted functions', 'only soundness of the filters is discharged (completeness and the glob-root computation: bounded reference walk)'],
    params={"pattern": "str"},
    self_cls="FileResolver",
    setup=glob_setup,
    unknown_calls="effect",
    types={"root": "ref:Path", "glob_part": "str", "path": "ref:Path", "rel": "ref:Path", "dirs": "list[str]",
           "tool_ignore": "opt[ref:PathSpec]", "parts": "list[str]"},
    calls={
        "self._get_tool_ignore": Callee("uf", ret="opt[ref:PathSpec]", sig=["self_", "start_dir"]),
        "Path": Callee("uf", ret="ref:Path", sig=["p"]),
        "Path.parts": Callee("attr", ret="list[str]"),
        "Path.name": Callee("attr", ret="str"),
        "Path.glob": Callee("uf", ret="list[ref:Path]", sig=["self", "pattern"]),
        "Path.is_file": Callee("uf", ret="bool", sig=["self"]),
        "Path.relative_to": Callee("uf", ret="ref:Path", sig=["self", "other"]),
        "Path.as_posix": Callee("uf", ret="str", sig=["self"]),
        "PathSpec.match_file": Callee("uf", ret="bool", sig=["self", "file"]),
        "self._exceeds_max_size": Callee("custom", handler=exceeds_uf),
    },
    loops={
        0: Loop(inv={}),
        1: Loop(inv={}, body_ensures={"glob_yield_sound": Clause(glob_yield_sound, props=["C17"])}),
    },
    canaries=[
        ("                if not self._exceeds_max_size(path):\n                    yield path", "                yield path", ["C17"], ["glob_yield_sound"]),
        ("                if tool_ignore and tool_ignore.match_file(rel.as_posix()):\n                    continue\n", "", ["C17"], ["glob_yield_sound"]),
        ('                    or self._exclude_spec.match_file("/".join(dirs[: k + 1]) + "/")\n', "", ["C17"], ["glob_yield_sound"]),
        ('self._exclude_spec.match_file(part + "/")\n                    or ', "", ["C17"], ["glob_yield_sound"]),
    ],
))


# --------------------------------------------------------------------------- _should_include_explicit
def explicit_setup(ex):
    s = ex.envs[0]["self"]
    s.fields["_config"] = VObj("FileResolverConfig", {"force_exclude": ex.mk("bool", "force_exclude")})
    s.fields["_exclude_spec"] = ex.mk("ref:PathSpec", "exclude_spec")


contract(Contract(
    target=M + ":FileResolver._should_include_explicit",
    props=["C17"],
    params={"path": "ref:Path"},
    self_cls="FileResolver",
    setup=explicit_setup,
    types={"rel": "str", "part": "str"},
    calls={
        "Path.name": Callee("attr", ret="str"),
        "Path.parts": Callee("attr", ret="list[str]"),
        "PathSpec.match_file": Callee("uf", ret="bool", sig=["self", "file"]),
        "self._exceeds_max_size": Callee("custom", handler=exceeds_uf),
    },
    loops={0: Loop(inv={"none_excluded_so_far": "all(not call('PathSpec.match_file', self._exclude_spec, path.parts[j] + '/')"
                                               " for j in range(_i))"},
                   decreases="len(path.parts) - 1 - _i")},
    ensures={
        # explicit files bypass the exclusion rules unless force_exclude, but never the size limit
        "size_limit_always": Clause(lambda ex: z3.Implies(ex.b(ex.truth(ex.envs[0]["result"])),
                                                          z3.Not(ex.th.uf("spec_exceeds", Ref, Bool)(ex.z(ex.envs[0]["path"]))))),
        "bypass_unless_forced": Clause(lambda ex: z3.Implies(
            z3.Not(ex.b(ex.truth(ex.old_envs[0]["self"].fields["_config"].fields["force_exclude"]))),
            ex.b(ex.truth(ex.envs[0]["result"])) == z3.Not(ex.th.uf("spec_exceeds", Ref, Bool)(ex.z(ex.envs[0]["path"]))))),
        "forced_name_excluded": "implies(self._config.force_exclude and call('PathSpec.match_file', self._exclude_spec, path.name), not result)",
    },
    canaries=[
        ("        if self._exceeds_max_size(path):\n            return False\n        return True", "        return True", None, ["post[size_limit_always"]),
        ("        if self._config.force_exclude:\n", "        if True:\n", None, ["post[bypass_unless_forced"]),
    ],
))


# --------------------------------------------------------------------------- FileResolverConfig.effective_exclude / _include
TY = "flowmark.file_resolver.types"


def cfg_setup(ex):
    s = ex.envs[0]["self"]
    s.fields["include"] = ex.mk("list[str]", "include")
    s.fields["extend_include"] = ex.mk("list[str]", "extend_include")
    s.fields["exclude"] = ex.mk("opt[list[str]]", "exclude") if False else None
    from vfcore.values import VOpt
    s.fields["exclude"] = VOpt(z3.Bool("exclude?none"), ex.mk("list[str]", "exclude"))
    s.fields["extend_exclude"] = ex.mk("list[str]", "extend_exclude")


def _eff_exclude(ex):
    """the user's exclude list REPLACES the defaults whenever one is given -- also an empty one, which switches the default
    exclusions off; extend_exclude is appended in either case"""
    s = ex.old_envs[0]["self"].fields
    res = ex.as_vlist(ex.envs[0]["result"], "str")
    exc, ext = s["exclude"], s["extend_exclude"]
    n_ext = ex.z(ext.length)
    given = z3.Not(exc.is_none)
    n_exc = ex.z(exc.val.length)
    k = z3.Int("k!eff")
    # given: result == exclude + extend_exclude (elementwise); not given: the tail is extend_exclude and the head has the
    # length of the default list
    from flowmark.file_resolver.defaults import DEFAULT_EXCLUDES
    nd = len(DEFAULT_EXCLUDES)
    head_len = z3.If(given, n_exc, nd)
    return FAnd([FT(ex.z(res.length) == head_len + n_ext),
                 FAll("k", 0, ex.wrap(n_ext, "int"), lambda c: FT(z3.Select(res.arr, head_len + c) == z3.Select(ext.arr, c)), "tail"),
                 FAll("k", 0, ex.wrap(n_exc, "int"), lambda c: FT(z3.Implies(given, z3.Select(res.arr, c) == z3.Select(exc.val.arr, c))), "head")])


from vfcore.values import FAll, FAnd, FT  # noqa: E402

contract(Contract(
    target=TY + ":FileResolverConfig.effective_exclude",
    props=["C17", "C16"],
    params={},
    self_cls="FileResolverConfig",
    setup=cfg_setup,
    types={"base": "list[str]"},
    ensures={"exclude_replaces_defaults_even_when_empty": Clause(_eff_exclude)},
    canaries=[("self.exclude if self.exclude is not None else list(DEFAULT_EXCLUDES)", "self.exclude or list(DEFAULT_EXCLUDES)", None, ["post["])],
))


# --------------------------------------------------------------------------- _get_gitignore / _get_tool_ignore (the caches)
from vfcore.values import VOptRefMap  # noqa: E402


def _cache_setup(field):
    def setup(ex):
        s = ex.envs[0]["self"]
        s.fields[field] = VOptRefMap(z3.Const("cache!present", z3.ArraySort(Ref, Bool)), z3.Const("cache!isnone", z3.ArraySort(Ref, Bool)),
                                      z3.Const("cache!val", z3.ArraySort(Ref, Ref)), "PathSpec")
        s.fields["_config"] = VObj("FileResolverConfig", {"tool_name": ex.mk("str", "tool_name")})
        ex.cache0 = s.fields[field].copy()
    return setup


def _cache_post(field, key_of, loader):
    def post(ex):
        """a hit returns what the cache holds for exactly this key and leaves the cache alone; a miss loads for exactly this
        directory, stores the result under exactly this key (and nothing else) and returns it"""
        env = ex.envs[0]
        c0, c1 = ex.cache0, env["self"].fields[field]
        k = key_of(ex)
        res = env["result"]
        hit = z3.Select(c0.present, k)
        rn = res.is_none if isinstance(res, VOpt) else z3.BoolVal(res is None)
        rv = ex.z(res.val) if isinstance(res, VOpt) else (z3.Const("nil!ref", Ref) if res is None else ex.z(res))
        ln, lv = loader(ex)
        on_hit = z3.And(rn == z3.Select(c0.isnone, k), z3.Implies(z3.Not(rn), rv == z3.Select(c0.val, k)),
                        c1.present == c0.present, c1.isnone == c0.isnone, c1.val == c0.val)
        on_miss = z3.And(rn == ln, z3.Implies(z3.Not(rn), rv == lv),
                         c1.present == z3.Store(c0.present, k, z3.BoolVal(True)),
                         z3.Select(c1.isnone, k) == ln, z3.Implies(z3.Not(ln), z3.Select(c1.val, k) == lv))
        return z3.And(z3.Implies(hit, on_hit), z3.Implies(z3.Not(hit), on_miss))
    return post


def _gi_loader(ex):
    d = ex.z(ex.old_envs[0]["directory"])
    return ex.th.uf("call?_load_gitignore", Ref, Bool)(d), ex.th.uf("call_load_gitignore", Ref, Ref)(d)


contract(Contract(
    target=M + ":FileResolver._get_gitignore",
    props=["C18"],
    params={"directory": "ref:Path"},
    self_cls="FileResolver",
    setup=_cache_setup("_gitignore_cache"),
    calls={"load_gitignore": Callee("uf", ret="opt[ref:PathSpec]", sig=["directory"]),
           "Path.parent": Callee("attr", ret="ref:Path"), "Path.resolve": Callee("uf", ret="ref:Path", sig=["self"])},
    ensures={"cached_per_directory": Clause(_cache_post("_gitignore_cache", lambda ex: ex.z(ex.old_envs[0]["directory"]), _gi_loader))},
    canaries=[
        ("            self._gitignore_cache[directory] = load_gitignore(directory)", "            self._gitignore_cache[directory] = load_gitignore(directory.parent)", None, ["post[cached_per_directory"]),
        ("        if directory not in self._gitignore_cache:", "        if True:", None, ["post[cached_per_directory"]),
    ],
))


def _ti_loader(ex):
    s = ex.envs[0]["self"]
    tn = ex.z(s.fields["_config"].fields["tool_name"])
    d = ex.z(ex.old_envs[0]["start_dir"])
    return (ex.th.uf("call?_load_tool_ignore", ex.th.Str, Ref, Bool)(tn, d), ex.th.uf("call_load_tool_ignore", ex.th.Str, Ref, Ref)(tn, d))


contract(Contract(
    target=M + ":FileResolver._get_tool_ignore",
    props=["C17"],
    params={"start_dir": "ref:Path"},
    self_cls="FileResolver",
    setup=_cache_setup("_tool_ignore_cache"),
    types={"resolved": "ref:Path"},
    calls={"load_tool_ignore": Callee("uf", ret="opt[ref:PathSpec]", sig=["tool_name", "start_dir"]),
           "Path.resolve": Callee("uf", ret="ref:Path", sig=["self"]),
           # (not used by the current body; modelled so that a body that looks at other directories is judged, not rejected)
           "Path.parent": Callee("attr", ret="ref:Path"), "Path.parents": Callee("attr", ret="list[ref:Path]")},
    ensures={
        # the ignore file of a start directory is looked up for THAT directory (its resolved path is the cache key): an entry
        # made for another directory -- an ancestor, a sibling -- is never reused for it
        "cached_per_resolved_start_directory": Clause(_cache_post(
            "_tool_ignore_cache", lambda ex: ex.th.uf("call_Path_resolve", Ref, Ref)(ex.z(ex.old_envs[0]["start_dir"])), _ti_loader)),
    },
    canaries=[
        ("            self._tool_ignore_cache[resolved] = load_tool_ignore(self._config.tool_name, start_dir)",
         "            self._tool_ignore_cache[resolved] = load_tool_ignore(self._config.tool_name, start_dir.parent)", None, ["post[cached_per_resolved"]),
        ("        return self._tool_ignore_cache[resolved]", "        return self._tool_ignore_cache[start_dir]", None, ["post[cached_per_resolved", "noraise"]),
    ],
))


# --------------------------------------------------------------------------- FileResolver.__init__
def _init_setup(ex):
    cfg = VObj("FileResolverConfig", {"effective_exclude": ex.mk("list[str]", "effective_exclude"),
                                      "effective_include": ex.mk("list[str]", "effective_include")})
    ex.envs[0]["config"] = cfg


def _init_post(ex):
    """the exclusion spec is compiled from config.effective_exclude, the inclusion spec from config.effective_include (both in
    gitignore syntax, each list handed over whole), and both caches start empty"""
    s = ex.envs[0]["self"].fields
    cs = [e for e in ex.log if e[0] == "COMPILE"]
    if len(cs) != 2:
        return False
    cfg = ex.old_envs[0]["config"].fields
    by_result = {}
    for e in cs:
        by_result[str(ex.z(e[2]))] = e

    def compiled_from(field, lst):
        e = by_result.get(str(ex.z(s[field])))
        if e is None:
            return False
        got = ex.as_vlist(e[1]["lines"], "str")
        want = ex.as_vlist(lst, "str")
        return (ex.eq(e[1]["style"], "gitignore") is True) and got.arr.eq(want.arr) and ex.z(got.length).eq(ex.z(want.length))
    empty = all(isinstance(s.get(f), dict) and not s[f] for f in ("_tool_ignore_cache", "_gitignore_cache")) \
        and s["_tool_ignore_cache"] is not s["_gitignore_cache"]          # two caches, not one dict under two names
    return bool(compiled_from("_exclude_spec", cfg["effective_exclude"]) and compiled_from("_include_spec", cfg["effective_include"]) and empty
                and s.get("_config") is ex.envs[0]["config"])


contract(Contract(
    target=M + ":FileResolver.__init__",
    props=["C17", "C18"],
    params={"config": "obj:FileResolverConfig"},
    self_cls="FileResolver",
    setup=_init_setup,
    calls={"pathspec.PathSpec.from_lines": Callee("effect", ret="ref:PathSpec", effect="COMPILE", sig=["style", "lines"])},
    ensures={"specs_from_effective_lists_caches_empty": Clause(_init_post)},
    canaries=[
        ('            "gitignore", config.effective_exclude\n', '            "gitignore", config.effective_include\n', None, ["post[specs_from"]),
        ("        self._gitignore_cache: dict[Path, pathspec.PathSpec | None] = {}", "        self._gitignore_cache: dict[Path, pathspec.PathSpec | None] = self._tool_ignore_cache", None, ["post[specs_from"]),
    ],
))
