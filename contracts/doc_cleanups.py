"""Contract for flowmark.transforms.doc_cleanups._unbold_heading_transformer (C10) over a heap model of
Marko element records (children lists as heap arrays, classes from the live Marko hierarchy)."""
import z3

from vfcore.contracts import Callee, Clause, Contract, contract
from vfcore.theory import Int, Ref

M = "flowmark.transforms.doc_cleanups"

D_DEFS = {
    # from the property: "a heading whose entire content is bold" — ATX and setext headings alike
    "is_heading(e)": "isinst(e, 'marko.block.Heading', 'marko.block.SetextHeading')",
    "strong(e)": "isinst(e, 'marko.inline.StrongEmphasis')",
    "emph(e)": "isinst(e, 'marko.inline.Emphasis')",
    "sole_strong()": "is_heading(element) and len(old(element.children)) == 1 and strong(old(element.children)[0])",
    "sole_emph_strong()": "is_heading(element) and len(old(element.children)) == 1 and emph(old(element.children)[0])"
                          " and len(old(old(element.children)[0].children)) == 1"
                          " and strong(old(old(element.children)[0].children)[0])",
}


def frame(which):
    """every element other than the one allowed to change keeps its children (whole heap otherwise untouched)"""
    def clause(ex):
        env = ex.envs[0]
        new_len, new_arr = ex.heap["children"]
        old_len, old_arr = ex.heap_old["children"]
        r = z3.FreshConst(Ref, "r")
        el = env["element"].t
        case1 = ex.b(ex.truth(ex.spec_eval_value("sole_strong()")))
        case2 = ex.b(ex.truth(ex.spec_eval_value("sole_emph_strong()")))
        child0 = z3.Select(z3.Select(old_arr, el), 0)
        same = z3.And(z3.Select(new_len, r) == z3.Select(old_len, r), z3.Select(new_arr, r) == z3.Select(old_arr, r))
        return z3.And(
            z3.Implies(z3.And(case1, r != el), same),
            z3.Implies(z3.And(z3.Not(case1), case2, r != child0), same),
            z3.Implies(z3.And(z3.Not(case1), z3.Not(case2)), same))
    return clause


contract(Contract(
    target=M + ":_unbold_heading_transformer",
    props=["C10"],
    params={"element": "ref:Element"},
    heap={"children": "list[ref:Element]"},
    defs=D_DEFS,
    ensures={
        "unbold.strong": "implies(sole_strong(), len(element.children) == len(old(old(element.children)[0].children))"
                         " and all(element.children[k] == old(old(element.children)[0].children)[k] for k in range(len(element.children))))",
        "unbold.emph_strong": "implies(not sole_strong() and sole_emph_strong(),"
                              " len(old(element.children)[0].children) == len(old(old(old(element.children)[0].children)[0].children))"
                              " and all(old(element.children)[0].children[k] == old(old(old(element.children)[0].children)[0].children)[k]"
                              "         for k in range(len(old(element.children)[0].children))))",
        "frame": Clause(frame("all")),
    },
    canaries=[
        ("if len(element.children) == 1 and isinstance(element.children[0], inline.StrongEmphasis):",
         "if len(element.children) >= 1 and isinstance(element.children[0], inline.StrongEmphasis):"),
        ("if isinstance(element, (block.Heading, block.SetextHeading)):", "if isinstance(element, block.Heading):"),
        ("                emphasis_node.children = strong_node.children", "                element.children = strong_node.children"),
        ("if len(emphasis_node.children) == 1 and isinstance(", "if isinstance("),
    ],
))
