"""Contract on _min_fence_length (C04: the fence chosen for a code block is longer than every fence-like run the pattern
finds in the code; C12: no raise).  The loop arithmetic is proved for every list of matches; what the pattern matches is
a fact about the `re` module (bounded function sweep against an independent spec in props/C04)."""
from vfcore.contracts import Callee, Contract, Loop, contract

M = "flowmark.formats.flowmark_markdown"

contract(Contract(
    target=M + ":_min_fence_length",
    props=["C04", "C12"],
    assumes=["re.finditer(pattern, code, re.MULTILINE) is an uninterpreted finite list of match objects; match.group(1) an "
             "uninterpreted string of each (that the pattern finds exactly the fence-like runs at line starts is compared with an "
             "independent spec on a bounded function sweep in props/C04, not proved)"],
    params={"code_content": "str", "fence_char": "str"},
    types={"max_len": "int", "fence": "str", "pattern": "str", "match": "ref:Match", "w": "int"},
    calls={
        "re.escape": Callee("uf", ret="str", sig=["s"]),
        "re.finditer": Callee("uf", ret="list[ref:Match]", sig=["pattern", "string", "flags"]),
        "Match.group": Callee("uf", ret="str", sig=["self", "n"]),
    },
    ghost={"w": "-1"},
    hooks=[("after", "assign:max_len@loop", "w = ite(len(fence) == max_len, _i, w)")],
    defs={"run(j)": "len(call('Match.group', _it0[j], 1))"},
    loops={0: Loop(inv={"nonneg": "max_len >= 0",
                        "upper": "all(run(j) <= max_len for j in range(_i))",
                        # ghost witness: the index of a match whose run has the current maximum (-1 while it is 0)
                        "witness_range": "-1 <= w and w < _i",
                        "attained": "implies(w < 0, max_len == 0) and implies(w >= 0, run(w) == max_len)"},
                   decreases="len(_it0) - _i", modifies=["w"])},
    ensures={
        "at_least_three": "result >= 3",
        # strictly longer than every run the pattern finds
        "longer_than_every_run": "all(result > run(j) for j in range(len(_it0)))",
        # and no longer than that demands: 3, or one more than a run that was found
        "minimal": "result == 3 or any(result == run(j) + 1 for j in range(len(_it0)))",
    },
    canaries=[
        ("return max(3, max_len + 1)", "return max(3, max_len)", None, ["post[longer_than_every_run"]),
        ("max_len = max(max_len, len(fence))", "max_len = len(fence)", None, ["inv-preserve", "post["]),
        ("return max(3, max_len + 1)", "return max(4, max_len + 1)", None, ["post[minimal"]),
    ],
))
