"""Contracts for flowmark.config (C16): three-way merge, upward search order, load."""
import dataclasses

import z3

from vfcore import extract
from vfcore.contracts import Callee, Clause, Contract, Loop, contract
from vfcore.sx_base import GenError
from vfcore.theory import Bool, Int, Ref
from vfcore.values import Sym, VList, VObj, VOpt, VSet
from contracts.cli import CONFIGURABLE, OPTION_KINDS, dataclass_ctor, symbolic_options

M = "flowmark.config"

# From the property: "With --auto the formatting switches are fixed by the preset regardless of the
# config file while width and file-discovery settings still come from it".
AUTO_LOCKED = ("semantic", "cleanups", "smartquotes", "ellipses")
CFG_KINDS = {"width": "int", "semantic": "bool", "cleanups": "bool", "smartquotes": "bool", "ellipses": "bool",
             "list_spacing": "str", "include": "list[str]", "extend_include": "list[str]", "exclude": "list[str]",
             "extend_exclude": "list[str]", "files_max_size": "int", "respect_gitignore": "bool",
             "force_exclude": "bool"}


def cfg_fields():
    return [f.name for f in dataclasses.fields(getattr(extract.live_module(M), "FlowmarkConfig"))]


def fields_model(ex, node, args, kwargs):
    cls = args[0]
    name = cls.name if hasattr(cls, "name") else str(cls)
    live = getattr(extract.live_module(M), name.split(".")[-1])
    return [VObj("Field", {"name": f.name}) for f in dataclasses.fields(live)]


def merge_setup(ex):
    env = ex.envs[0]
    env["cli_opts"] = symbolic_options(ex, "cli_opts")
    cfg = VObj("FlowmarkConfig")
    for f in cfg_fields():
        k = CFG_KINDS.get(f)
        if k is None:
            raise GenError("FlowmarkConfig.%s has no kind in the contract table (contract drift)" % f)
        cfg.fields[f] = ex.mk("opt[%s]" % k, "config." + f)
    env["config"] = VOpt(z3.Bool("config?none"), cfg)
    universe = set(cfg_fields()) | set(OPTION_KINDS)
    env["explicit_flags"] = VSet({f: z3.Bool("explicit!" + f) for f in sorted(universe)})


def same(ex, a, b):
    """structural equality of two option values (scalars, optionals, lists by (len, arr))"""
    if isinstance(a, VOpt) and isinstance(b, VOpt):
        return z3.And(a.is_none == b.is_none, z3.Implies(z3.Not(a.is_none), same(ex, a.val, b.val)))
    if isinstance(a, VOpt):
        return z3.And(z3.Not(a.is_none), same(ex, a.val, b))
    if isinstance(b, VOpt):
        return z3.And(z3.Not(b.is_none), same(ex, a, b.val))
    if isinstance(a, list) and isinstance(b, list):
        return ex.b(ex.truth(ex.eq(a, b)))
    if isinstance(a, list) or isinstance(b, list):
        c, v = (a, b) if isinstance(a, list) else (b, a)
        return z3.And(ex.z(v.length) == len(c), *[ex.z(ex.list_get(v, i)) == ex.z(x) for i, x in enumerate(c)])
    if isinstance(a, VList) or isinstance(b, VList):
        la, lb = ex.as_vlist(a, "str"), ex.as_vlist(b, "str")
        return z3.And(ex.z(la.length) == ex.z(lb.length), la.arr == lb.arr)
    if ex.kind_of(a).startswith("enum") and ex.kind_of(b) == "str":
        f = ex.th.uf("enum_of_ListSpacing", ex.th.Str, ex.enum_sort("ListSpacing")[0])
        return ex.z(a) == f(ex.z(b))
    if ex.kind_of(b).startswith("enum") and ex.kind_of(a) == "str":
        return same(ex, b, a)
    return ex.b(ex.truth(ex.eq(a, b)))


def expected_field(ex, f, opts_old, cfg, is_auto, explicit):
    """(condition under which the config value is taken, the config value)"""
    cv = cfg.val.fields[f]
    take = z3.And(z3.Not(cfg.is_none), z3.Not(cv.is_none), z3.Not(ex.b(explicit.members[f])))
    if f in AUTO_LOCKED:
        take = z3.And(take, z3.Not(ex.b(ex.truth(is_auto))))
    return take, cv.val


def merge_field(f):
    """C16 for one setting: explicit flag > config file > default; --auto locks the formatting switches."""
    def clause(ex):
        old = ex.old_envs[0]
        opts, cfg = ex.envs[0]["cli_opts"], old["config"]
        if f not in opts.fields:
            return True
        take, cv = expected_field(ex, f, old["cli_opts"], cfg, old["is_auto"], old["explicit_flags"])
        new, was = opts.fields[f], old["cli_opts"].fields[f]
        return z3.And(z3.Implies(take, same(ex, new, cv)), z3.Implies(z3.Not(take), same(ex, new, was)))
    return clause


def merge_frame(ex):
    """fields that are not configurable are untouched; the same object is returned"""
    old = ex.old_envs[0]
    opts = ex.envs[0]["cli_opts"]
    conds = [same(ex, opts.fields[f], old["cli_opts"].fields[f]) for f in opts.fields if f not in cfg_fields()]
    return z3.And(*conds) if ex.envs[0]["result"] is opts else False


def merge_inv(ex):
    env, old = ex.envs[0], ex.old_envs[0]
    k = env["_k"]
    names = cfg_fields()
    opts = env["cli_opts"]
    conds = []
    for i, f in enumerate(names):
        if f not in opts.fields:
            continue
        new, was = opts.fields[f], old["cli_opts"].fields[f]
        if i < k:
            take, cv = expected_field(ex, f, old["cli_opts"], old["config"], old["is_auto"], old["explicit_flags"])
            conds.append(z3.Implies(take, same(ex, new, cv)))
            conds.append(z3.Implies(z3.Not(take), same(ex, new, was)))
        else:
            conds.append(same(ex, new, was))
    for f in opts.fields:
        if f not in names:
            conds.append(same(ex, opts.fields[f], old["cli_opts"].fields[f]))
    conds.append(z3.Not(old["config"].is_none))
    return z3.And(*conds)


def every_key_has_an_options_field(f):
    """C16 'every key a config file accepts without warning has an effect': necessary condition —
    the key must be an attribute of Options, otherwise merge drops it silently."""
    def clause(ex):
        return f in ex.envs[0]["cli_opts"].fields
    return clause


contract(Contract(
    target=M + ":merge_cli_with_config",
    props=["C16"],
    params={"cli_opts": "obj:Options", "config": "obj:FlowmarkConfig", "is_auto": "bool", "explicit_flags": "obj:set"},
    setup=merge_setup,
    calls={"fields": Callee("custom", handler=fields_model)},
    loops={0: Loop(per_iteration=True, inv={"merged": Clause(merge_inv)})},
    ensures={
        **{"merge." + f: Clause(merge_field(f)) for f in CFG_KINDS},
        "frame": Clause(merge_frame),
        **{"has_effect." + f: Clause(every_key_has_an_options_field(f)) for f in CFG_KINDS},
    },
    canaries=[
        ("        if cfg_field.name in explicit_flags:\n            continue\n", ""),
        ('auto_locked = {"semantic", "cleanups", "smartquotes", "ellipses", "inplace", "nobackup"}',
         'auto_locked = {"semantic", "cleanups", "smartquotes", "ellipses", "inplace", "nobackup", "width"}'),
        ("        if cfg_value is None:\n            continue", "        if cfg_value is None:\n            break"),
        ("if is_auto and cfg_field.name in auto_locked:", "if cfg_field.name in auto_locked:"),
    ],
))


# --------------------------------------------------------------------------- find_config_file
def anc(ex, k):
    """k-th ancestor of the resolved start directory: anc(0) = start_dir.resolve(), anc(k+1) = anc(k).parent"""
    f = ex.th.uf("anc", Int, Ref)
    return f(ex.zi(k))


def parent_of(ex, d):
    return ex.th.uf("attr_Path.parent", Ref, Ref)(d)


def is_file(ex, p):
    return ex.th.uf("call_Path_is_file", Ref, Bool)(p)


def join(ex, d, name):
    return ex.th.uf("path_join", Ref, ex.th.Str, Ref)(d, ex.th.lit(name))


def has_section(ex, p):
    return ex.th.uf("call__pyproject_has_flowmark_section", Ref, Bool)(p)


# the documented search order within one directory (README / module docstring)
ORDER = [".flowmark.toml", "flowmark.toml", "pyproject.toml"]


def acceptable(ex, d, name):
    p = join(ex, d, name)
    ok = is_file(ex, p)
    if name == "pyproject.toml":
        ok = z3.And(ok, has_section(ex, p))
    return ok


def dir_choice(ex, d):
    """(some file acceptable in d, the one chosen by the documented order)"""
    oks = [acceptable(ex, d, n) for n in ORDER]
    chosen = join(ex, d, ORDER[-1])
    for n, ok in reversed(list(zip(ORDER[:-1], oks[:-1]))):
        chosen = z3.If(ok, join(ex, d, n), chosen)
    return z3.Or(*oks), chosen


def find_setup(ex):
    env = ex.envs[0]
    start = env["start_dir"]
    r = ex.th.uf("call_Path_resolve", Ref, Ref)(start.t)
    ex.pc.append(anc(ex, 0) == r)


def find_inv(ex):
    env = ex.envs[0]
    depth, cur = env["depth"], env["current"]
    d = ex.zi(depth)
    ex.pc.append(anc(ex, d + 1) == parent_of(ex, anc(ex, d)))      # definitional unfolding of anc at depth
    from vfcore.values import FAll, FAnd, FT
    return FAnd([FT(z3.And(d >= 0, ex.z(cur) == anc(ex, d))),
                 FAll("j", 0, depth, lambda c: FT(z3.Not(dir_choice(ex, anc(ex, c))[0])), "no acceptable file below")])


def find_post(ex):
    """the nearest directory (searching upward from the resolved start) that holds an acceptable file
    wins, and within it the documented order; None only if no directory up to the root has one"""
    env = ex.envs[0]
    res, depth = env["result"], env["depth"]
    d = ex.zi(depth)
    from vfcore.values import FAll, FAnd, FT
    here = anc(ex, d)
    some, chosen = dir_choice(ex, here)
    below = FAll("j", 0, depth, lambda c: FT(z3.Not(dir_choice(ex, anc(ex, c))[0])), "nearest")
    if res is None:
        return FAnd([below, FT(z3.And(z3.Not(some), parent_of(ex, here) == here))])
    return FAnd([below, FT(z3.And(some, ex.z(res) == chosen))])


contract(Contract(
    target=M + ":find_config_file",
    props=["C16"],
    params={"start_dir": "ref:Path"},
    setup=find_setup,
    ghost={"depth": "0"},
    types={"depth": "int", "current": "ref:Path", "candidate": "ref:Path", "parent": "ref:Path", "filename": "str"},
    hooks=[("after", "assign:current@loop", "depth = depth + 1")],
    calls={
        "Path.resolve": Callee("uf", ret="ref:Path", sig=["self"]),
        "Path.is_file": Callee("uf", ret="bool", sig=["self"]),
        "Path.parent": Callee("attr", ret="ref:Path"),
        "_pyproject_has_flowmark_section": Callee("uf", ret="bool", sig=["path"]),
    },
    loops={0: Loop(inv={"chain": Clause(find_inv)}), 1: Loop(unroll=True)},
    ensures={"nearest_then_order": Clause(find_post)},
    canaries=[
        ('if filename == "pyproject.toml":', 'if filename == "flowmark.toml":'),
        ("                    if _pyproject_has_flowmark_section(candidate):\n                        return candidate",
         "                    return candidate"),
        ("        current = parent\n", "        current = parent.parent\n"),
    ],
    note="termination of the upward walk relies on Path.parent reaching a fixed point (assumed: finite path)",
))


# --------------------------------------------------------------------------- load_config
def load_post(ex):
    env = ex.envs[0]
    res = env["result"]
    reads = [e for e in ex.log if e[0] == "READ_CONFIG"]
    parsed = [e for e in ex.log if e[0] == "PARSE_CONFIG"]
    warns = [e for e in ex.log if e[0] == "PRINT_STDERR"]
    if ex.toml_failed:
        # unreadable / malformed => the default config (every field None) and a warning
        return isinstance(res, VObj) and all(v is None for v in res.fields.values()) and len(warns) == 1 and not parsed
    if len(parsed) != 1 or warns:
        return False
    data = parsed[0][1]["data"]
    name = ex.th.uf("attr_Path.name", Ref, ex.th.Str)(env["config_path"].t)
    toml = ex.th.uf("call_tomllib_loads", ex.th.Str, Ref)(reads[0][2].t)
    get = ex.th.uf("call_dict_get", Ref, ex.th.Str, Ref, Ref)
    empty = z3.Const("empty!dict", Ref)
    tool = get(get(toml, ex.th.lit("tool"), empty), ex.th.lit("flowmark"), empty)
    want = z3.If(name == ex.th.lit("pyproject.toml"), tool, toml)
    return z3.And(ex.z(data) == want, ex.z(res) == ex.z(parsed[0][2]))


def toml_loads(ex, node, args, kwargs):
    r = ex.wrap(ex.th.uf("call_tomllib_loads", ex.th.Str, Ref)(ex.z(args[0])), "ref", "dict")
    if ex.choose(2, "toml raises"):
        ex.toml_failed = True
        from vfcore.sx_base import RaiseSig
        from vfcore.values import VExc
        raise RaiseSig(VExc("TOMLDecodeError"), "tomllib.loads")
    return r


def read_text(ex, node, args, kwargs):
    r = ex.fresh("str", "config_text")
    ex.log.append(("READ_CONFIG", {"self": args[0]}, r))
    if ex.choose(2, "read raises"):
        ex.toml_failed = True
        from vfcore.sx_base import RaiseSig
        from vfcore.values import VExc
        raise RaiseSig(VExc("OSError"), "read_text")
    return r


def load_setup(ex):
    ex.toml_failed = False


contract(Contract(
    target=M + ":load_config",
    props=["C16"],
    params={"config_path": "ref:Path"},
    setup=load_setup,
    calls={
        "tomllib.loads": Callee("custom", handler=toml_loads),
        "Path.read_text": Callee("custom", handler=read_text),
        "Path.name": Callee("attr", ret="str"),
        "dict.get": Callee("uf", ret="ref:dict", sig=["self", "key", "default"]),
        "_parse_config_data": Callee("effect", ret="ref:FlowmarkConfig", effect="PARSE_CONFIG", sig=["data"]),
        "FlowmarkConfig": dataclass_ctor(M, "FlowmarkConfig"),
    },
    ensures={"pyproject_section_or_whole_file": Clause(load_post)},
    canaries=[
        ('data = data.get("tool", {}).get("flowmark", {})', 'data = data.get("tool", {})'),
        ('if config_path.name == "pyproject.toml":', 'if config_path.name != "pyproject.toml":'),
    ],
))
