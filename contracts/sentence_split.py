"""Contract S for flowmark.linewrapping.sentence_split_regex.split_sentences_regex (C11, C05, C03)."""
from vfcore.contracts import Callee, Clause, Contract, Loop, contract

M = "flowmark.linewrapping.sentence_split_regex"

S_DEFS = {
    "span(a, b)": "joinr(' ', words, a, b)",
    # a sentence ends after word k iff the heuristic accepts the word and the sentence so far is long enough
    "ends_at(k)": "heuristic(words[k]) and len(span(start_of[k], k + 1)) >= min_length",
    "word_ok(k)": "0 <= start_of[k] and start_of[k] <= k and ended[k] == ends_at(k)"
                  " and implies(k > 0, start_of[k] == ite(ended[k - 1], k, start_of[k - 1]))"
                  " and implies(k == 0, start_of[k] == 0)",
    "sent_ok(j)": "0 <= sst[j] and sst[j] < sen[j] and sen[j] <= len(words) and sentences[j] == span(sst[j], sen[j])"
                  " and implies(j > 0, sst[j] == sen[j - 1]) and implies(j + 1 < len(sentences), sen[j] == sst[j + 1])"
                  " and start_of[sen[j] - 1] == sst[j]",
}

contract(Contract(
    target=M + ":split_sentences_regex",
    props=["C11", "C05", "C03"],
    params={"text": "str", "min_length": "int", "heuristic": "callable"},
    types={"sentences": "list[str]", "sentence": "list[str]", "words_len": "int", "sst": "list[int]",
           "sen": "list[int]", "start_of": "list[int]", "ended": "list[bool]", "ss": "int", "word": "str",
           "sentence_len": "int"},
    calls={"heuristic": Callee("uf", ret="bool", sig=["word"])},
    ghost={"sst": "[]", "sen": "[]", "start_of": "[]", "ended": "[]", "ss": "0"},
    hooks=[
        ("after", "sentence.append(word)", "start_of.append(ss)"),
        ("after", "assign:sentence_len", "ended.append(heuristic(word) and sentence_len >= min_length)"),
        ("after", "sentences.append(' '.join(sentence))", "sst.append(ss); sen.append(len(start_of)); ss = len(start_of)"),
    ],
    defs=S_DEFS,
    loops={0: Loop(
        inv={
            "range": "0 <= ss and ss <= _i and _i <= len(words) and len(start_of) == _i and len(ended) == _i",
            "open_len": "len(sentence) == _i - ss",
            "open_join": "implies(_i > ss, joinr(' ', sentence, 0, len(sentence)) == span(ss, _i))",
            "open_chars": "implies(_i > ss, words_len + (_i - ss) - 1 == len(span(ss, _i))) and implies(_i == ss, words_len == 0)",
            "open_start": "implies(_i > ss, start_of[_i - 1] == ss and not ended[_i - 1])",
            "closed": "implies(_i > 0 and _i == ss, ended[_i - 1])",
            "lens": "len(sst) == len(sentences) and len(sen) == len(sentences)",
            "last": "implies(len(sentences) > 0, sen[len(sentences) - 1] == ss and sst[0] == 0)",
            "none": "implies(len(sentences) == 0, ss == 0)",
            "sent": "all(sent_ok(j) for j in range(len(sentences)))",
            "sent_closed": "all(sen[j] <= ss and ended[sen[j] - 1] for j in range(len(sentences)))",
            "word": "all(word_ok(k) for k in range(_i))",
        },
        modifies=["sst", "sen", "start_of", "ended", "ss"],
        decreases="len(words) - _i")},
    ensures={
        # S.partition: the sentences are the joins of consecutive non-empty spans that tile text.split()
        "partition": "len(sst) == len(result) and len(sen) == len(result)"
                     " and implies(len(result) > 0, sst[0] == 0 and sen[len(result) - 1] == len(words))"
                     " and iff(len(result) == 0, len(words) == 0)"
                     " and all(sent_ok(j) for j in range(len(result)))",
        # S.ends / S.no_early_end: per word, a sentence ends exactly where the heuristic fires on a long-enough
        # sentence; sentence starts follow from that (chain), so no earlier word of a sentence could have ended it
        "ends": "len(start_of) == len(words) and all(word_ok(k) for k in range(len(words)))"
                " and all(implies(sen[j] < len(words), ended[sen[j] - 1]) for j in range(len(result)))",
    },
    canaries=[
        ("sentence_len >= min_length", "sentence_len > min_length", ["C11"], ["inv-preserve[loop0.open_start", "inv-preserve[loop0.closed"]),
        ("sentence_len = words_len + len(sentence) - 1", "sentence_len = words_len + len(sentence)", ["C11"], ["inv-preserve[loop0.word"]),
        ("            words_len = 0\n", "", ["C11"], ["inv-preserve[loop0.open_chars"]),
        ("    if sentence:\n        sentences.append", "    if False:\n        sentences.append", ["C11", "C05"], ["post[partition"]),
    ],
))
