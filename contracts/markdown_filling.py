"""Contract for flowmark.linewrapping.markdown_filling.fill_markdown: the wiring of the pipeline
(C15 option wiring, C07 frontmatter re-attachment, C04/C08/C09/C10 'rewrites only through these
calls, in this order, guarded by their own option', C13 fresh objects per call, C02 strip/dedent)."""
import z3

from vfcore.contracts import Callee, Clause, Contract, contract
from vfcore.effects import U, mutator, observer, state_of
from vfcore.theory import Ref
from vfcore.values import Sym, VOpt

M = "flowmark.linewrapping.markdown_filling"
LW = "flowmark.linewrapping.line_wrappers"

CALLS = {
    "line_wrap_by_sentence": Callee("uf", ret="ref:LineWrapper", target=LW + ":line_wrap_by_sentence"),
    "line_wrap_to_width": Callee("uf", ret="ref:LineWrapper", target=LW + ":line_wrap_to_width"),
    "split_frontmatter": Callee("uf", ret="tuple[str,str]", target="flowmark.formats.frontmatter:split_frontmatter"),
    "dedent": Callee("uf", ret="str", sig=["text"]),
    "preprocess_tag_block_spacing": Callee("uf", ret="str", target="flowmark.linewrapping.tag_handling:preprocess_tag_block_spacing"),
    "flowmark_markdown": Callee("effect", ret="ref:Markdown", effect="NEW_MARKDOWN",
                                target="flowmark.formats.flowmark_markdown:flowmark_markdown"),
    "Markdown.parse": Callee("effect", ret="ref:Document", effect="PARSE", sig=["self", "text"]),
    "doc_cleanups": mutator("CLEANUPS", ["doc"]),
    "rewrite_text_across_inlines": mutator("ACROSS", ["doc", "rewrite_func"]),
    "rewrite_text_content": mutator("CONTENT", ["doc", "rewrite_func", "coalesce_lines"], defaults={"coalesce_lines": False}),
    "Markdown.render": observer("RENDER", ["self", "parsed"], "parsed", ret="str"),
}


def expected_result(ex):
    e = ex.envs[0]
    sv = ex.spec_eval_value
    lw_param = ex.old_envs[0]["line_wrapper"]
    text0 = ex.old_envs[0]["markdown_text"]
    saved = ex.envs
    ex.envs = ex.old_envs
    try:
        sem = sv("call('line_wrap_by_sentence', width=width, is_markdown=True)")
        fill = sv("call('line_wrap_to_width', width=width, is_markdown=True)")
        fm, content = sv("call('split_frontmatter', markdown_text)")
        o = ex.old_envs[0]
        lw = ex.ite(lw_param.is_none, ex.ite(ex.truth(o["semantic"]), sem, fill), lw_param.val)
        has_fm = ex.truth(fm)
        body = ex.ite(has_fm, content, text0)
        ex.envs = ex.old_envs + [{"body": body}]
        body = ex.ite(ex.truth(o["dedent_input"]), sv("strip(call('dedent', body))"), body)
        ex.envs = ex.old_envs + [{"body": body}]
        text = sv("call('preprocess_tag_block_spacing', strip(body) + '\\n')")
        ex.envs = ex.old_envs + [{"lw": lw}]
        marko = sv("call('flowmark_markdown', lw, list_spacing)")
        ex.envs = ex.old_envs + [{"marko": marko, "text": text}]
        doc = sv("call('Markdown.parse', marko, text)")
        d = doc.t
        d = z3.If(ex.b(ex.truth(o["cleanups"])), U(ex, "eff_CLEANUPS", Ref, d), d)
        d = z3.If(ex.b(ex.truth(o["smartquotes"])),
                  U(ex, "eff_ACROSS", Ref, d, "fn!flowmark.typography.smartquotes.smart_quotes"), d)
        d = z3.If(ex.b(ex.truth(o["ellipses"])),
                  U(ex, "eff_CONTENT", Ref, d, "fn!flowmark.typography.ellipses.ellipses", True), d)
        rendered = ex.wrap(U(ex, "obs_RENDER", "str", marko, d), "str")
        # C07: frontmatter re-attached verbatim; a document that is nothing but frontmatter (unclosed `---`)
        # is returned unchanged apart from a final newline
        ex.envs = ex.old_envs + [{"fm": fm, "content": content}]
        only_fm = ex.b(ex.truth(sv("fm != '' and strip(content) == ''")))
        fm_nl = sv("ite(endswith(fm, '\\n'), fm, fm + '\\n')")
        want = ex.ite(has_fm, ex.ite(only_fm, fm_nl, ex.concat([fm, rendered])), rendered)
    finally:
        ex.envs = saved
    return ex.eq(e["result"], want)


def fresh_objects(ex):
    """C13: exactly one Markdown object is created inside the call, and the parse and the render of
    this call go through that object (nothing cached from an earlier call can be used)."""
    news = [e for e in ex.log if e[0] == "NEW_MARKDOWN"]
    parses = [e for e in ex.log if e[0] == "PARSE"]
    renders = [e for e in ex.log if e[0] == "RENDER"]
    if len(news) != 1 or len(parses) != 1 or len(renders) != 1:
        return False
    return z3.And(ex.b(ex.truth(ex.eq(parses[0][1]["self"], news[0][2]))),
                  ex.b(ex.truth(ex.eq(renders[0][1]["self"], news[0][2]))),
                  ex.b(ex.truth(ex.eq(renders[0][1]["parsed"], parses[0][2]))))


contract(Contract(
    target=M + ":fill_markdown",
    props=["C15"],
    params={"markdown_text": "str", "dedent_input": "bool", "width": "int", "semantic": "bool",
            "cleanups": "bool", "smartquotes": "bool", "ellipses": "bool",
            "line_wrapper": "opt[ref:LineWrapper]", "list_spacing": "enum:ListSpacing"},
    calls=CALLS,
    ensures={
        # (C12: a frontmatter-only document comes back newline-terminated; C05 / C11: the wrappers are built from exactly the requested width, Markdown mode and the default minimum line length)
        "pipeline": Clause(expected_result, props=["C15", "C07", "C04", "C08", "C09", "C10", "C02", "C05", "C11", "C12"]),
        "fresh_objects": Clause(fresh_objects, props=["C13"]),
    },
    canaries=[
        ("if smartquotes:\n        rewrite_text_across", "if ellipses:\n        rewrite_text_across", ["C15", "C08", "C09"]),
        ("result = frontmatter + result", "result = result", ["C07"]),
        ("flowmark_markdown(line_wrapper, list_spacing)", "flowmark_markdown(line_wrapper)", ["C15", "C10"]),
        ("line_wrap_by_sentence(width=width, is_markdown=True)", "line_wrap_by_sentence(is_markdown=True)", ["C15"]),
        ("line_wrap_by_sentence(width=width, is_markdown=True)", "line_wrap_by_sentence(width=width, is_markdown=True, min_line_len=width // 5)", ["C11"]),
        ("line_wrap_to_width(width=width, is_markdown=True)", "line_wrap_to_width(width=width - 1, is_markdown=True)", ["C05"]),
        ("rewrite_text_content(document, apply_ellipses, coalesce_lines=True)",
         "rewrite_text_content(document, smart_quotes, coalesce_lines=True)", ["C09", "C04"]),
        ("if cleanups:\n        doc_cleanups(document)", "doc_cleanups(document)", ["C10"]),
        ("markdown_text = markdown_text.strip() + \"\\n\"", "markdown_text = markdown_text + \"\\n\"", ["C02"]),
    ],
))
