"""Contracts for flowmark.linewrapping.text_wrapping (C05 core; C01 escape placement; C02/C03 function of words)."""
import z3

from vfcore.contracts import Callee, Clause, Contract, Loop, contract
from vfcore.values import FAll, FT

M = "flowmark.linewrapping.text_wrapping"


def words_clean(ex, bound, result):
    """assumed contract of a WordSplitter (proved for the built-in one, required of user-supplied ones):
    every token is non-empty and strip-stable (contains no leading/trailing whitespace)"""
    th = ex.th
    strip = th.uf("strip", th.Str, th.Str)
    arr = result.arr
    return FAll("k", 0, result.length, lambda c: FT(z3.And(z3.Select(arr, c) != th.empty,
                                                          strip(z3.Select(arr, c)) == z3.Select(arr, c))), "splitter tokens")


def w_setup(ex):
    th = ex.th
    f = th.uf("call_len_fn", th.Str, z3.IntSort())
    if not any(f.eq(g) for g in th.additive):
        th.additive.append(f)
    ex.pc.append(f(th.lit(" ")) == 1)


def w_at_call_site(ex, env, bound):
    """When W is used by contract: a caller that leaves len_fn at its default (builtin len, e.g.
    line_wrap_by_sentence) measures with the same function it passes around as `len_fn`; the two are
    identified (assumption, reported: every wrapper flowmark builds uses len for both)."""
    from vfcore.values import VFunc
    w_setup(ex)
    f = bound.get("len_fn")
    if isinstance(f, VFunc) and f.payload is None:
        bound["len_fn"] = VFunc("len_fn", "callee", Callee("uf", ret="int", sig=["s"]))
        env["len_fn"] = bound["len_fn"]


W_DEFS = {
    "col(k)": "ite(k == 0, ite(initial_column + len_fn(words[0]) <= width, initial_column, subsequent_offset), subsequent_offset)",
    "maybe_strip(x)": "ite(drop_whitespace, strip(x), x)",
    "seg(j)": "joinr(' ', outw, cuts[j], ends[j])",
    "line_ok(j)": "0 <= cuts[j] and cuts[j] < ends[j] and ends[j] <= len(outw)"
                  " and lines[j] == maybe_strip(seg(j))"
                  " and (col(cuts[j]) + len_fn(seg(j)) <= width or ends[j] - cuts[j] == 1)"
                  " and implies(ends[j] < len(words), col(cuts[j]) + len_fn(seg(j)) + 1 + len_fn(words[ends[j]]) > width)"
                  " and implies(j + 1 < len(lines), ends[j] == cuts[j + 1])"
                  " and implies(j > 0, cuts[j] == ends[j - 1] and cuts[j] > 0)"
                  " and lead[cuts[j]]",
    "word_ok(k)": "outw[k] == words[k] or (is_markdown and k > 0 and lead[k] and outw[k] == call('markdown_escape_word', words[k]))",
    "truecol(j)": "ite(j == 0, initial_column, subsequent_offset)",
    # C05: width <= 0 gives exactly one line per paragraph: whitespace runs (incl. newlines) collapsed
    "nw()": "maybe_strip(call('re.sub', '\\\\s+', ' ', old('text')))",
    "finding7()": "initial_column + len_fn(words[0]) > width and initial_column > subsequent_offset",
}

contract(Contract(
    target=M + ":wrap_paragraph_lines",
    props=["C05", "C11"],       # C11: the breaks inside a sentence are exactly the ones the width forces (maximal lines)
    params={"text": "str", "width": "int", "initial_column": "int", "subsequent_offset": "int",
            "replace_whitespace": "bool", "drop_whitespace": "bool", "splitter": "opt[ref:WordSplitter]",
            "len_fn": "callable", "is_markdown": "bool"},
    types={"lines": "list[str]", "current_line": "list[str]", "outw": "list[str]", "cuts": "list[int]",
           "ends": "list[int]", "lead": "list[bool]", "cs": "int", "nlead": "int", "word": "str",
           "first_line": "bool", "current_width": "int", "words": "list[str]"},
    result_alias=["lines"],
    setup_callee=w_at_call_site,
    setup=w_setup,
    shards=14,
    requires={"cols": "initial_column >= 0 and subsequent_offset >= 0"},
    calls={
        "re.sub": Callee("uf", ret="str", sig=["pattern", "repl", "string"]),
        "get_html_md_word_splitter": Callee("uf", ret="ref:WordSplitter", sig=[]),
        "WordSplitter.__call__": Callee("uf", ret="list[str]", sig=["self", "text"], post=words_clean),
        "len_fn": Callee("uf", ret="int", sig=["s"]),
        "markdown_escape_word": Callee("uf", ret="str", sig=["word"]),
    },
    at_call={"WordSplitter.__call__": {
        # C03: the words are a function of the text with every whitespace run (spaces, tabs, newlines; also inside
        # constructs the splitter keeps whole) collapsed to one space -- the source's layout cannot reach the words
        "whitespace_collapsed": Clause("implies(replace_whitespace, arg_text == call('re.sub', '\\\\s+', ' ', old('text')))",
                                       props=["C03", "C02"]),
    }},
    ghost={"outw": "[]", "cuts": "[]", "ends": "[]", "lead": "[]", "cs": "0", "nlead": "0"},
    hooks=[
        ("after", "lines.append(line)", "cuts.append(cs); ends.append(len(outw))"),
        ("after", "assign:current_line@loop", "cs = len(outw); outw.append(current_line[0]); lead.append(True); nlead = nlead + 1"),
        ("after", "current_line.append(word)",
         "outw.append(word); lead.append(len(current_line) == 1); nlead = nlead + ite(len(current_line) == 1, 1, 0)"),
    ],
    defs=W_DEFS,
    loops={0: Loop(
        inv={
            "range": "0 <= cs and cs <= _i and _i <= len(words) and len(outw) == _i and len(lead) == _i",
            "cs_lt": "implies(_i > 0, cs < _i)",
            "cl_len": "len(current_line) == _i - cs",
            "cl_join": "implies(_i > cs, joinr(' ', current_line, 0, len(current_line)) == joinr(' ', outw, cs, _i))",
            "first": "first_line == (len(lines) == 0)",
            "first_cs": "(len(lines) == 0) == (cs == 0)",
            "lens": "len(cuts) == len(lines) and len(ends) == len(lines)",
            "last_end": "implies(len(lines) > 0, ends[len(lines) - 1] == cs)",
            "first_cut": "implies(len(lines) > 0, cuts[0] == 0)",
            "cw": "implies(_i > cs, current_width == col(cs) + len_fn(joinr(' ', current_line, 0, len(current_line))))",
            "cw0": "implies(_i == cs, current_width == initial_column)",
            "bounded_cur": "implies(_i > cs, current_width <= width or _i - cs == 1)",
            "cur_lead": "implies(_i > cs, lead[cs])",
            "nlead": "nlead == len(lines) + ite(_i > cs, 1, 0)",
            "line": "all(line_ok(j) for j in range(len(lines)))",
            "word": "all(word_ok(k) for k in range(_i))",
            "width": "width > 0",
        },
        modifies=["outw", "cuts", "ends", "lead", "cs", "nlead"],
        decreases="len(words) - _i")},
    ensures={
        "lossless.tiling": "implies(width > 0, len(cuts) == len(result) and len(ends) == len(result)"
                           " and implies(len(result) > 0, cuts[0] == 0 and ends[len(result) - 1] == len(words))"
                           " and iff(len(result) == 0, len(words) == 0))",
        "lossless.lines": Clause("implies(width > 0, all(line_ok(j) for j in range(len(result))))", props=["C05", "C02", "C03", "C06"]),
        # C01: a word is altered only by the protective backslash, and only where it leads a wrapped line (j >= 1);
        # C02/C03: the result is a function of the token sequence (every line is the join of its span of words)
        "lossless.words": Clause("implies(width > 0, len(outw) == len(words) and all(word_ok(k) for k in range(len(words))))",
                                 props=["C05", "C01", "C02", "C03", "C06"]),
        "escape.only_line_starts": Clause("implies(width > 0, nlead == len(result))", props=["C05", "C01"]),
        "bounded.rest": "implies(width > 0, all(implies(j > 0, truecol(j) + len_fn(lines[j]) <= width or ends[j] - cuts[j] == 1)"
                        " for j in range(len(result))))",
        "bounded.first": Clause("implies(width > 0 and len(result) > 0, truecol(0) + len_fn(lines[0]) <= width or ends[0] - cuts[0] == 1)",
                                finding="C05-first-line-column"),
        "bounded.first.residual": "implies(width > 0 and len(result) > 0 and not finding7(),"
                                  " truecol(0) + len_fn(lines[0]) <= width or ends[0] - cuts[0] == 1)",
        "maximal": "implies(width > 0, all(implies(ends[j] < len(words), col(cuts[j]) + len_fn(seg(j)) + 1 + len_fn(words[ends[j]]) > width)"
                   " for j in range(len(result) - 1)))",
        "no_wrap": "implies(width <= 0, len(result) <= 1 and implies(len(result) == 1, result[0] == nw() and nw() != '')"
                   " and implies(len(result) == 0, nw() == ''))",
    },
    canaries=[
        ("current_width + word_width + space_width <= width", "current_width + word_width + space_width < width",
         ["C05"], ["inv-preserve[loop0.line"]),
        ("current_width += word_width + space_width", "current_width += word_width", ["C05"], ["inv-preserve[loop0.cw"]),
        ("current_width = subsequent_offset + escaped_word_width", "current_width = initial_column + escaped_word_width",
         ["C05"], ["inv-preserve[loop0.cw", "inv-preserve[loop0.bounded_cur"]),
        ("if is_markdown and not first_line:", "if is_markdown:", ["C05", "C01"], ["inv-preserve[loop0.word"]),
        ("    # Add the last line if necessary.\n    if current_line:", "    if False:", ["C05"], ["post[lossless.tiling"]),
        ('    if replace_whitespace:\n        text = re.sub(r"\\s+", " ", text)', '    if replace_whitespace:\n        text = text.replace("\\n", " ")',
         ["C03"], ["whitespace_collapsed"]),
        ("                lines.append(line)\n                first_line = False", "                first_line = False",
         ["C05"], ["inv-preserve[loop0"]),
    ],
))


# --------------------------------------------------------------------------- wrap_paragraph
WP_DEFS = {
    "single(k)": "wit('wrap_paragraph_lines', 'ends')[k] - wit('wrap_paragraph_lines', 'cuts')[k] == 1",
    "prefix(k)": "ite(k == 0, ite(initial_indent != '' and initial_column == 0, initial_indent, ''), subsequent_indent)",
}

contract(Contract(
    target=M + ":wrap_paragraph",
    props=["C05"],
    params={"text": "str", "width": "int", "initial_indent": "str", "subsequent_indent": "str", "initial_column": "int",
            "replace_whitespace": "bool", "drop_whitespace": "bool", "word_splitter": "opt[ref:WordSplitter]",
            "len_fn": "callable", "is_markdown": "bool"},
    types={"lines": "list[str]", "wl": "list[str]"},
    setup=w_setup,
    requires={"col": "initial_column >= 0"},
    calls={
        "wrap_paragraph_lines": Callee("contract", ret="list[str]", target=M + ":wrap_paragraph_lines"),
        "len_fn": Callee("uf", ret="int", sig=["s"]),
        "denormalize_adjacent_tags": Callee("uf", ret="str", sig=["text"]),
    },
    at_call={"wrap_paragraph_lines": {
        "text": "arg_text == text", "width": "arg_width == width",
        "initial_column": "arg_initial_column == initial_column + len_fn(initial_indent)",
        "subsequent_offset": "arg_subsequent_offset == len_fn(subsequent_indent)",
        "replace_whitespace": "arg_replace_whitespace == replace_whitespace",
        "drop_whitespace": "arg_drop_whitespace == drop_whitespace",
        "splitter": "arg_splitter == word_splitter", "is_markdown": "arg_is_markdown == is_markdown",
    }},
    ghost={"wl": "[]"},
    hooks=[("after", "assign:lines", "wl = list(lines)")],
    defs=WP_DEFS,
    ensures={
        # C05: every line carries the configured first-line or continuation indent, nothing else changes
        "count": "len(lines) == len(wl)",
        "indents": "all(lines[k] == prefix(k) + wl[k] for k in range(len(lines)))",
        "joined": "result == call('denormalize_adjacent_tags', joinr('\\n', lines, 0, len(lines)))",
        # C05 width bound at this level: a continuation line, indent included, fits unless it is a single word
        # (cuts/ends: the word spans of W's postcondition)
        "bounded.rest": "implies(width > 0, all(implies(k >= 1, len_fn(lines[k]) <= width or single(k)) for k in range(len(lines))))",
    },
    canaries=[
        ("subsequent_offset=len_fn(subsequent_indent)", "subsequent_offset=len_fn(initial_indent)", ["C05"], ["call[", "post[bounded"]),
        ("lines[1:] = [subsequent_indent + line for line in lines[1:]]", "lines[1:] = [initial_indent + line for line in lines[1:]]", ["C05"], ["post[indents"]),
        ("initial_column=initial_column + len_fn(initial_indent)", "initial_column=initial_column", ["C05"], ["call["]),
        ('result = "\\n".join(lines)', 'result = " ".join(lines)', ["C05"], ["post[joined"]),
    ],
))
