"""Contract on MarkdownNormalizer._render_code (C04: code blocks reproduced verbatim inside an adequate fence;
C01: emitted under the container prefixes; C12: no raise)."""
import z3

from vfcore.contracts import Callee, Clause, Contract, Loop, contract
from vfcore.theory import Int

from contracts.renderer_lists import SELF_FIELDS, self_setup

M = "flowmark.formats.flowmark_markdown"

def min_fence(ex, node, args, kwargs):
    f = ex.th.uf("uf!min_fence_length", ex.th.Str, ex.th.Str, Int)
    c, ch = args[0], (args[1] if len(args) > 1 else kwargs.get("fence_char", "`"))
    t = f(ex.z(c), ex.z(ch))
    ex.pc.append(t >= 3)          # post[at_least_three] of the contract on _min_fence_length (contracts/renderer_fence.py)
    return ex.wrap(t, "int")


contract(Contract(
    target=M + ":MarkdownNormalizer._render_code",
    props=["C04", "C01", "C12"],
    assumes=['Marko: a code element has one RawText child holding the code; FencedCode has lang / extra, CustomFencedCode fence_char / fence_len', '_min_fence_length: result >= 3 and longer than every run its pattern finds are proved in contracts/renderer_fence.py; that the pattern finds every fence-like run at a line start is compared with an independent spec on a bounded function sweep in props/C04, not proved'],
    params={"element": "ref:CodeEl"},
    self_cls="MarkdownNormalizer",
    setup=self_setup,
    types={"lines": "list[str]", "line": "str", "fence": "str", "fence_len": "int", "fence_char": "str", "lang_text": "str",
           "code_content": "str", "empty_line_prefix": "str", "min_fence_len": "int", "original_fence_len": "int",
           "lang": "str", "extra": "str", "extra_text": "str"},
    calls={
        "CodeEl.children": Callee("attr", ret="list[ref:RawTextEl]"),
        "RawTextEl.children": Callee("attr", ret="str"),
        "CodeEl.lang": Callee("attr", ret="str"),
        "CodeEl.extra": Callee("attr", ret="str"),
        "CodeEl.fence_char": Callee("attr", ret="str"),
        "CodeEl.fence_len": Callee("attr", ret="int"),
        "_min_fence_length": Callee("custom", handler=min_fence),
    },
    requires={"marko_code_has_one_raw_child": "len(element.children) >= 1"},
    defs={
        "code()": "element.children[0].children.rstrip('\\n')",
        "src()": "code().split('\\n')",
        "body(j)": "ite(src()[j] == '', rstrip(old(self._second_prefix)), old(self._second_prefix) + src()[j])",
    },
    loops={0: Loop(inv={"count": "len(lines) == 1 + _i",
                        "head": "lines[0] == old(self._prefix) + fence + lang_text",
                        "verbatim": "all(lines[j + 1] == body(j) for j in range(_i))",
                        "frame": "self._second_prefix == old(self._second_prefix)"},
                   decreases="len(src()) - _i")},
    ensures={
        # every line of the code is emitted, in order, unchanged, after the continuation prefix (a blank code line as the
        # prefix without trailing blanks); one opening line (first-line prefix + fence + info string), one closing line
        "lines_verbatim": "implies(code() != '', len(lines) == len(src()) + 2"
                          " and all(lines[j + 1] == body(j) for j in range(len(src()))))",
        "empty_code": "implies(code() == '', len(lines) == 2)",
        "open_close": "lines[0] == old(self._prefix) + fence + lang_text"
                      " and lines[len(lines) - 1] == old(self._second_prefix) + fence",
        "result_is_lines": "result == joinr('\\n', lines, 0, len(lines)) + '\\n'",
        # the fence is a run of the fence character at least as long as the original and as _min_fence_length demands
        "fence_adequate": "fence == fence_char * fence_len and fence_len >= min_fence_len and fence_len >= original_fence_len"
                          " and fence_len >= 3",
        # the info string is the language plus, separated by one space, the rest of the original info string
        "info_string": "implies(isinst(element, 'marko.block.FencedCode'), lang_text == ite(element.lang == '', '',"
                       " ite(element.extra == '', element.lang, element.lang + ' ' + element.extra)))"
                       " and implies(not isinst(element, 'marko.block.FencedCode'), lang_text == '')",
        "state": "self._prefix == self._second_prefix and not self._suppress_item_break"
                 " and self._second_prefix == old(self._second_prefix)",
    },
    canaries=[
        ('extra_text = f" {extra}" if extra else ""', 'extra_text = ""', None, ["post[info_string"]),
        ('lines.append(f"{self._second_prefix}{line}")', 'lines.append(f"{self._second_prefix}{line.rstrip()}")', None, ["inv-preserve", "post["]),
        ('lines.append(f"{self._second_prefix}{fence}")', 'lines.append(f"{self._prefix}{fence}")', None, ["post[open_close"]),
        ("fence_len = max(original_fence_len, min_fence_len)", "fence_len = original_fence_len", None, ["post[fence_adequate"]),
        ('for line in code_content.split("\\n") if code_content else []:', 'for line in code_content.splitlines():', None, ["inv", "post["]),
        ('return "\\n".join(lines) + "\\n"', 'return "\\n".join(lines)', None, ["post[result_is_lines"]),
    ],
))
