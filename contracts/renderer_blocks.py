"""Contract R (renderer state discipline) on the block-level leaf methods of MarkdownNormalizer.

C01: every block is emitted under the container prefixes in force (first line after `_prefix`, the first-line prefix is
consumed: `_prefix == _second_prefix` on exit, the continuation prefix is untouched), with its own syntax (heading level,
rule, definition) built from the element's own fields; the paragraph text goes through the line wrapper exactly once with
those prefixes.  C10: what each block leaves in the item-break / blank-line flags.  C12: no raise."""
import z3

from vfcore.contracts import Callee, Clause, Contract, contract
from vfcore.theory import Bool, Ref

from contracts.renderer_lists import SELF_FIELDS, render_child, self_setup

M = "flowmark.formats.flowmark_markdown"
N = M + ":MarkdownNormalizer."


def setup_no_wrapper(ex):
    self_setup(ex)
    del ex.envs[0]["self"].fields["_line_wrapper"]      # resolved through calls["self._line_wrapper"]


def render_inline(name):
    """children of a paragraph / heading are inline elements: rendering them changes only the escape context
    `_current_inline_text` (assumed frame of the inline render methods; none of them assigns another field -- ST obligation
    `inline_renderers_frame` of props/C01)"""
    def handler(ex, node, args, kwargs):
        s = args[0]
        res = ex.fresh("str", "rendered")
        ex.log.append((name, {"child": args[1], "prefix": s.fields["_prefix"], "second": s.fields["_second_prefix"],
                              "in_heading": s.fields["_in_heading"], "inline_text": s.fields["_current_inline_text"]}, res))
        s.fields["_current_inline_text"] = ex.fresh("str", "self._current_inline_text")
        return res
    return Callee("custom", handler=handler)


def line_wrapper(ex, node, args, kwargs):
    s = args[0]
    res = ex.fresh("str", "wrapped")
    ex.log.append(("WRAP", {"text": args[1], "initial": args[2], "subsequent": args[3]}, res))
    return res


def has_checked(ex, node, args, kwargs):
    return ex.wrap(ex.th.uf("has_checked", Ref, Bool)(ex.z(args[0])), "bool")


def _paragraph_text(ex):
    """the text handed to the wrapper is the rendered children, behind the task checkbox if the item has one"""
    w = [e for e in ex.log if e[0] == "WRAP"]
    rc = [e for e in ex.log if e[0] == "RENDER_CHILDREN"]
    if len(w) != 1 or len(rc) != 1:
        return False
    el = ex.envs[0]["element"]
    has = ex.wrap(ex.th.uf("has_checked", Ref, Bool)(ex.z(el)), "bool")
    box = ex.ite(ex.truth(ex.unit.ref_attr(ex, el, "checked")), "[x] ", "[ ] ")
    want = ex.ite(ex.truth(has), ex.concat([box, rc[0][2]]), rc[0][2])
    return ex.b(ex.truth(ex.eq(w[0][1]["text"], want)))


contract(Contract(
    target=N + "render_paragraph",
    props=["C01", "C10", "C12"],
    assumes=['inline render methods assign no renderer field but _current_inline_text (ST obligations inline_renderers_frame of props/C01)', 'the line wrapper is an uninterpreted function of (text, initial prefix, subsequent prefix); its own contract is W / V'],
    params={"element": "ref:ParagraphEl"},
    self_cls="MarkdownNormalizer",
    setup=setup_no_wrapper,
    calls={"self.render_children": render_inline("RENDER_CHILDREN"),
           "self._line_wrapper": Callee("custom", handler=line_wrapper),
           "hasattr": Callee("custom", handler=has_checked),
           "ParagraphEl.checked": Callee("attr", ret="bool")},
    ensures={
        # the line wrapper is called exactly once, after the children were rendered, with the prefixes then in force (the
        # first-line prefix unless a child consumed it, and the continuation prefix of the container); result = its output + newline
        "wrapped_once": Clause("logcount('WRAP') == 1 and logcount('RENDER_CHILDREN') == 1"
                               " and result == logres('WRAP') + '\\n'", props=["C01"]),
        # (C04: what the leaf methods rendered -- code spans, links, HTML -- reaches the wrapper unmodified)
        # (C05: the task checkbox is part of what the wrapper measures, so its columns are accounted)
        "wrapped_text": Clause(_paragraph_text, props=["C01", "C04", "C05"]),
        "wrapped_with_prefixes": Clause("logarg('WRAP', 'subsequent') == old(self._second_prefix)"
                                        " and logarg('WRAP', 'initial') == old(self._prefix)"
                                        " and logarg('RENDER_CHILDREN', 'inline_text') == ''", props=["C01"]),
        "prefix_consumed": Clause("self._prefix == self._second_prefix and self._second_prefix == old(self._second_prefix)", props=["C01"]),
        "flags": Clause("not self._skip_next_blank_line and self._current_inline_text == ''", props=["C10", "C01"]),
    },
    canaries=[
        ("            self._prefix,\n            self._second_prefix,\n", "            self._second_prefix,\n            self._second_prefix,\n", None, ["post["]),
        ('return wrapped_text + "\\n"', "return wrapped_text", None, ["post[wrapped_once"]),
        ("        self._prefix = self._second_prefix\n", "", None, ["post[prefix_consumed"]),
    ],
))

# ---- headings
contract(Contract(
    target=N + "render_heading",
    props=["C01", "C10", "C12"],
    params={"element": "ref:HeadingEl"},
    self_cls="MarkdownNormalizer",
    setup=self_setup,
    calls={"self.render_children": render_inline("RENDER_CHILDREN"),
           "HeadingEl.level": Callee("attr", ret="int"),
           "re.search": Callee("uf", ret="opt[ref:Match]", sig=["pattern", "string"]),
           "Match.start": Callee("uf", ret="int", sig=["self", "group"], post=lambda ex, b, r: ex.z(r) >= 0)},
    assumes=["re.search / Match.start are uninterpreted: that the pattern (?:^|[ \\t])(#+)[ \\t]*$ finds exactly a trailing, "
             "space-separated run of '#' (what CommonMark reads as the closing sequence) is explored in the bounded layer"],
    defs={"rendered()": "logres('RENDER_CHILDREN')",
          "run()": "call('re.search', '(?:^|[ \\\\t])(#+)[ \\\\t]*$', rendered())",
          "cut()": "call('Match.start', val(run()), 1)",
          # the children as rendered, except that a trailing run of '#' (which would be read back as the closing sequence of
          # the ATX heading) gets one backslash in front of it -- nothing else is inserted or removed
          "esc()": "rendered()[:cut()] + '\\\\' + rendered()[cut():]",
          "head(k)": "old(self._prefix) + '#' * element.level + ' ' + k + '\\n'",
          "sep()": "rstrip(old(self._second_prefix)) + '\\n'",
          "line(k)": "ite(endswith(k, '\\\\'), result == head(k), result == head(k) + sep())"},
    ensures={
        # '#' * level, one space, the rendered children, on the first-line prefix; a heading that does not end in a hard
        # break is followed by one separator line that stays inside the container
        "atx_line": Clause("implies(isnone(run()), line(rendered())) and implies(not isnone(run()), line(esc()))", props=["C01", "C04"]),
        "separator_iff_no_hard_break": Clause(
            "implies(isnone(run()) and not endswith(rendered(), '\\\\'), self._skip_next_blank_line and self._suppress_item_break)", props=["C01"]),
        "prefix_consumed": Clause("self._prefix == self._second_prefix and self._second_prefix == old(self._second_prefix)", props=["C01"]),
        "children_in_heading_context": Clause("logarg('RENDER_CHILDREN', 'in_heading') and logarg('RENDER_CHILDREN', 'inline_text') == ''", props=["C01"]),
        "flags": Clause("not self._in_heading and self._current_inline_text == ''"
                        " and implies(isnone(run()) and not endswith(rendered(), '\\\\'), self._skip_next_blank_line and self._suppress_item_break)",
                        props=["C10", "C01"]),
    },
    canaries=[
        ("'#' * element.level} {children_content}\\n{blank_line}", "'#' * (element.level + 1)} {children_content}\\n{blank_line}", None, ["post[atx_line"]),
        ("blank_line = self._second_prefix.rstrip()", 'blank_line = ""', None, ["post[atx_line"]),
        ("            self._skip_next_blank_line = True\n", "            pass\n", None, ["post[flags"]),
        ('children_content = children_content[:pos] + "\\\\" + children_content[pos:]', 'children_content = children_content[:pos]', None, ["post[atx_line"]),
    ],
))

# ---- simple blocks
contract(Contract(
    target=N + "render_thematic_break",
    props=["C01", "C12"],
    params={"_element": "ref:Element"},
    self_cls="MarkdownNormalizer",
    setup=self_setup,
    ensures={  # '* * *' on the prefix in force -- except directly behind a '*' list marker, where marker and rule would merge into
               # one thematic-break line ('* * * *') and the list item would be lost: dashes there
             "rule": "implies(not endswith(rstrip(old(self._prefix)), '*'), result == old(self._prefix) + '* * *\\n')"
                     " and implies(endswith(rstrip(old(self._prefix)), '*'), result == old(self._prefix) + '---\\n')",
             "prefix_consumed": "self._prefix == self._second_prefix and self._second_prefix == old(self._second_prefix)",
             "flags": "not self._skip_next_blank_line",
             # C10: a rule ends with its own line only -- the item after it gets its separator (no stale suppression either)
             "frame": Clause("not self._suppress_item_break and self._current_list_tight == old(self._current_list_tight)",
                             props=["C10", "C01"])},
    canaries=[('result = f"{self._prefix}{rule}\\n"', 'result = f"{rule}\\n"', None, ["post[rule"]),
              ('rule = "---" if self._prefix.rstrip().endswith("*") else "* * *"', 'rule = "* * *"', None, ["post[rule"])],
))

contract(Contract(
    target=N + "render_html_block",
    props=["C01", "C04", "C12"],
    params={"element": "ref:HtmlEl"},
    self_cls="MarkdownNormalizer",
    setup=self_setup,
    calls={"HtmlEl.body": Callee("attr", ret="str")},
    ensures={"verbatim": "result == old(self._prefix) + element.body",
             "prefix_consumed": "self._prefix == self._second_prefix and self._second_prefix == old(self._second_prefix)",
             "frame": Clause("not self._suppress_item_break and self._current_list_tight == old(self._current_list_tight)",
                             props=["C10", "C01"])},
    canaries=[('result = f"{self._prefix}{element.body}"', 'result = f"{self._prefix}{element.body.strip()}"', None, ["post[verbatim"])],
))

contract(Contract(
    target=N + "render_blank_line",
    props=["C01", "C10", "C12"],
    params={"_element": "ref:Element"},
    self_cls="MarkdownNormalizer",
    setup=self_setup,
    ensures={
        # a blank line that follows a block which already emitted its separator is dropped once; otherwise one line that
        # holds at most the first-line prefix
        "skipped_once": "implies(old(self._skip_next_blank_line), result == '' and not self._skip_next_blank_line"
                        " and self._prefix == old(self._prefix) and self._suppress_item_break == old(self._suppress_item_break))",
        "one_line": "implies(not old(self._skip_next_blank_line), (result == '\\n' or result == old(self._prefix) + '\\n')"
                    " and self._suppress_item_break and self._prefix == self._second_prefix)",
        "frame": "self._second_prefix == old(self._second_prefix)",
    },
    canaries=[("            self._skip_next_blank_line = False\n", "            pass\n", None, ["post[skipped_once"]),
              ("        self._suppress_item_break = True\n", "        pass\n", None, ["post[one_line"])],
))

contract(Contract(
    target=N + "render_link_ref_def",
    props=["C01", "C04", "C02", "C12"],
    params={"element": "ref:LinkDefEl"},
    self_cls="MarkdownNormalizer",
    setup=self_setup,
    calls={"LinkDefEl.dest": Callee("attr", ret="str"), "LinkDefEl.title": Callee("attr", ret="str"),
           "LinkDefEl.label": Callee("attr", ret="str"),
           "_normalize_title_quotes": Callee("uf", ret="str", sig=["title"]),
           # (not used by the current body: a definition keeps its destination in the SOURCE spelling, so it must not be
           # re-spelled; modelled so that a body that does is judged, not rejected)
           "_link_destination": Callee("uf", ret="str", sig=["dest", "has_title"])},
    ensures={
        # label and destination verbatim; the title only through _normalize_title_quotes
        "definition": "implies(element.title == '', result == old(self._prefix) + '[' + element.label + ']: ' + element.dest + '\\n')"
                      " and implies(element.title != '', result == old(self._prefix) + '[' + element.label + ']: ' + element.dest"
                      " + ' ' + call('_normalize_title_quotes', element.title) + '\\n')",
        "prefix_consumed": "self._prefix == self._second_prefix and self._second_prefix == old(self._second_prefix)",
        "flags": "not self._skip_next_blank_line and self._suppress_item_break",
    },
    canaries=[('result = f"{self._prefix}[{element.label}]: {link_text}\\n"', 'result = f"[{element.label}]: {link_text}\\n"', None, ["post[definition"]),
              ("link_text = element.dest", "link_text = element.dest.strip()", None, ["post[definition"])],
))

# ---- inline leaves that must copy a field verbatim (C04)
contract(Contract(
    target=N + "render_auto_link",
    props=["C04", "C12"],
    params={"element": "ref:AutoLinkEl"},
    self_cls="MarkdownNormalizer",
    setup=self_setup,
    calls={"AutoLinkEl.dest": Callee("attr", ret="str")},
    ensures={"dest_verbatim": "result == '<' + element.dest + '>'"},
    canaries=[('return f"<{element.dest}>"', 'return f"<{element.dest.lower()}>"', None, ["post["])],
))

contract(Contract(
    target=N + "render_url",
    props=["C04", "C12"],
    params={"element": "ref:UrlEl"},
    self_cls="MarkdownNormalizer",
    setup=self_setup,
    calls={"UrlEl.dest": Callee("attr", ret="str")},
    ensures={"dest_verbatim": "result == element.dest"},
))

contract(Contract(
    target=N + "render_inline_html",
    props=["C04", "C12"],
    params={"element": "ref:InlineHtmlEl"},
    self_cls="MarkdownNormalizer",
    setup=self_setup,
    calls={"InlineHtmlEl.children": Callee("attr", ret="str")},
    ensures={"verbatim": "result == element.children"},
))

contract(Contract(
    target=N + "render_emphasis",
    props=["C01", "C12"],
    params={"element": "ref:Element"},
    self_cls="MarkdownNormalizer",
    setup=self_setup,
    # (the current body does not look at the children; their list is modelled so that a body that decides by them is judged --
    # every nesting of emphasis gets its own delimiters -- instead of being rejected)
    calls={"self.render_children": render_child("RENDER_CHILDREN"),
           "Element.children": Callee("attr", ret="list[ref:Element]")},
    unknown_calls="effect",
    ensures={"delimiters": "result == '*' + logres('RENDER_CHILDREN') + '*'"},
))

contract(Contract(
    target=N + "render_strong_emphasis",
    props=["C01", "C12"],
    params={"element": "ref:Element"},
    self_cls="MarkdownNormalizer",
    setup=self_setup,
    # (the current body does not look at the children; their list is modelled so that a body that decides by them is judged --
    # every nesting of emphasis gets its own delimiters -- instead of being rejected)
    calls={"self.render_children": render_child("RENDER_CHILDREN"),
           "Element.children": Callee("attr", ret="list[ref:Element]")},
    unknown_calls="effect",
    ensures={"delimiters": "result == '**' + logres('RENDER_CHILDREN') + '**'"},
))
