"""Contract for flowmark.formats.frontmatter.split_frontmatter (C07; C02 via verbatim re-attachment)."""
from vfcore.contracts import Callee, Clause, Contract, Loop, contract

M = "flowmark.formats.frontmatter"

FM_DEFS = {
    # the only change the property allows inside frontmatter: CRLF -> LF; lines are the '\n'-separated pieces
    "T()": "replace(old('text'), '\\r\\n', '\\n')",
    "blank(j)": "strip(lines[j]) == ''",
    "delim(j)": "strip(lines[j]) == '---'",
}

contract(Contract(
    target=M + ":split_frontmatter",
    props=["C07", "C02"],
    params={"text": "str"},
    types={"lines": "list[str]", "start_idx": "int", "end_idx": "int", "frontmatter": "str", "content": "str"},
    defs=FM_DEFS,
    loops={
        0: Loop(inv={"range": "0 <= start_idx and start_idx <= len(lines)",
                     "blanks": "all(blank(j) for j in range(start_idx))"},
                decreases="len(lines) - start_idx"),
        1: Loop(inv={"range": "start_idx < end_idx and end_idx <= len(lines) and 0 <= start_idx",
                     "open": "delim(start_idx) and all(blank(j) for j in range(start_idx))",
                     "no_close_yet": "all(implies(j > start_idx, not delim(j)) for j in range(end_idx))"},
                decreases="len(lines) - end_idx"),
    },
    ensures={
        # line model: only "\n" (after CRLF -> LF) separates lines; the pieces rejoin to the text
        "line_model": "joinr('\\n', lines, 0, len(lines)) == T() or joinr('\\n', lines, 0, len(lines)) + '\\n' == T()"
                      " or (len(lines) == 0 and T() == '')",
        # the three cases are exhaustive (start_idx / end_idx are the witnesses): the first non-blank line is
        # not '---'  => ('', text) untouched
        "none": "implies(start_idx >= len(lines) or not delim(start_idx),"
                " result[0] == '' and result[1] == old('text') and all(blank(j) for j in range(start_idx)))",
        # closed: frontmatter is the contiguous run of lines from the opening to the FIRST closing '---',
        # re-joined with '\\n' and terminated by '\\n' (character for character apart from CRLF -> LF); the rest is the body
        "closed": "implies(start_idx < len(lines) and delim(start_idx) and end_idx < len(lines),"
                  " delim(end_idx) and start_idx < end_idx and all(blank(j) for j in range(start_idx))"
                  " and all(implies(j > start_idx, not delim(j)) for j in range(end_idx))"
                  " and result[0] == joinr('\\n', lines, start_idx, end_idx + 1) + '\\n'"
                  " and result[1] == joinr('\\n', lines, end_idx + 1, len(lines)))",
        # unclosed: no later line is '---'  => the whole text is returned unchanged as frontmatter
        "unclosed": "implies(start_idx < len(lines) and delim(start_idx) and end_idx >= len(lines),"
                    " result[0] == old('text') and result[1] == ''"
                    " and all(implies(j > start_idx, not delim(j)) for j in range(len(lines))))",
    },
    canaries=[
        ('"\\n".join(lines[start_idx : end_idx + 1]) + "\\n"', '"\\n".join(lines[start_idx : end_idx]) + "\\n"', None, ["post["]),
        ('"\\n".join(lines[start_idx : end_idx + 1]) + "\\n"', '"\\n".join(lines[start_idx : end_idx + 1])', None, ["post["]),
        ('content = "\\n".join(lines[end_idx + 1 :])', 'content = "\\n".join(lines[end_idx:])', None, ["post["]),
        ('lines = text.replace("\\r\\n", "\\n").split("\\n")', 'lines = text.splitlines()', None, ["post[line_model"]),
        ("    end_idx = start_idx + 1\n", "    end_idx = start_idx\n", None, ["inv-init", "post["]),
    ],
))
