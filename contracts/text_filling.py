"""Contract for flowmark.linewrapping.text_filling.fill_text (C05 plaintext / public wrapping API, C02)."""
from vfcore.contracts import Callee, Clause, Contract, Loop, contract
from contracts.text_wrapping import w_setup

M = "flowmark.linewrapping.text_filling"

FT_DEFS = {
    "init0()": "extra_indent + wrap_initial",
    "sub0()": "extra_indent + wrap_subsequent",
    "para(k)": "call('wrap_paragraph', paragraphs[k], width=old('width') - len_fn(sub0()),"
               " initial_indent=ite(hang and k > 0, sub0(), init0()), subsequent_indent=sub0(),"
               " initial_column=initial_column, replace_whitespace=repl, word_splitter=word_splitter0, len_fn=len_fn)",
}


def ft_setup(ex):
    w_setup(ex)
    env = ex.envs[0]
    tw = env["text_wrap"]
    # the Wrap member is a concrete case (all seven are explored): its properties are read from the live enum
    env["wrap_initial"], env["wrap_subsequent"] = tw.initial_indent, tw.subsequent_indent
    env["hang"], env["repl"], env["should_wrap"] = tw.initial_indent_first_para_only, tw.replace_whitespace, tw.should_wrap
    env["indent_only"] = tw.name == "INDENT_ONLY"


contract(Contract(
    target=M + ":fill_text",
    props=["C05", "C02"],
    params={"text": "str", "text_wrap": "enumcase:Wrap", "width": "int", "extra_indent": "str", "empty_indent": "str",
            "initial_column": "int", "word_splitter": "opt[ref:WordSplitter]", "len_fn": "callable"},
    types={"wrapped_paragraphs": "list[str]", "initial_indent": "str", "paragraph": "str", "i": "int"},
    setup=ft_setup,
    calls={
        "get_html_md_word_splitter": Callee("uf", ret="ref:WordSplitter", sig=[]),
        "len_fn": Callee("uf", ret="int", sig=["s"]),
        "split_paragraphs": Callee("uf", ret="list[str]", sig=["text"]),
        "wrap_paragraph": Callee("uf", ret="str", target="flowmark.linewrapping.text_wrapping:wrap_paragraph"),
    },
    defs=FT_DEFS,
    ghost={"word_splitter0": "ite(isnone(word_splitter), call('get_html_md_word_splitter'), val(word_splitter))"},
    at_call={"wrap_paragraph": {
        # property: "no wrapped line is longer than the width ... every line is maximal" for the public wrapping
        # functions: the paragraph wrapper must get the configured width.  Known finding in the indenting modes.
        "width_once": Clause("arg_width == old('width')", finding="C05-fill_text-indent-twice", props=["C05"]),
        "width_once.residual": Clause("implies(wrap_subsequent == '' and extra_indent == '', arg_width == old('width'))", props=["C05"]),
    }},
    loops={0: Loop(inv={"len": "len(wrapped_paragraphs) == _i",
                        "paras": "all(wrapped_paragraphs[k] == para(k) for k in range(_i))",
                        "indent": "initial_indent == ite(hang and _i > 1, sub0(), init0())"},
                   decreases="len(paragraphs) - _i")},
    ensures={
        # wrap modes: each paragraph of split_paragraphs is wrapped by one wrap_paragraph call, the results are
        # joined by a blank line that carries the (stripped) empty indent
        "wrap.paragraphs": "implies(should_wrap, len(wrapped_paragraphs) == len(paragraphs)"
                           " and all(wrapped_paragraphs[k] == para(k) for k in range(len(paragraphs))))",
        "wrap.join": "implies(should_wrap, result == joinr('\\n' + strip(old('empty_indent')) + '\\n', wrapped_paragraphs, 0, len(wrapped_paragraphs)))",
    },
    canaries=[
        ("subsequent_indent=subsequent_indent,", "subsequent_indent=initial_indent,", None, ["inv-preserve"]),
        ("if text_wrap.initial_indent_first_para_only and i > 0:", "if text_wrap.initial_indent_first_para_only:", None, ["inv-preserve"]),
        ('para_sep = f"\\n{empty_indent}\\n"', 'para_sep = f"\\n{empty_indent}"', None, ["post[wrap.join"]),
        ("replace_whitespace=replace_whitespace,", "replace_whitespace=True,", None, ["inv-preserve"]),
    ],
))
