"""Contracts on MarkdownNormalizer list rendering (C10: tightness decision, separator emission, mode isolation)."""
import z3

from vfcore.contracts import Callee, Clause, Contract, Loop, contract
from vfcore.theory import Bool, Ref
from vfcore.values import Sym, VObj

M = "flowmark.formats.flowmark_markdown"

SELF_FIELDS = {"_prefix": "str", "_second_prefix": "str", "_suppress_item_break": "bool", "_skip_next_blank_line": "bool",
               "_current_inline_text": "str", "_in_heading": "bool", "_list_spacing": "enum:ListSpacing",
               "_current_list_tight": "bool", "_line_wrapper": "ref:LineWrapper"}
# what rendering a child may change (assumed contract R of `render` for the children; proved here for render_list
# itself as far as C10 needs it: the tightness mode and the continuation prefix are preserved)
R_HAVOC = ("_prefix", "_suppress_item_break", "_skip_next_blank_line", "_current_inline_text", "_in_heading")
HEAP = {"children": "list[ref:Element]", "tight": "bool", "ordered": "bool", "start": "int", "bullet": "str"}


def self_setup(ex):
    s = ex.envs[0]["self"]
    for f, k in SELF_FIELDS.items():
        s.fields[f] = ex.mk(k, "self." + f)


def render_child(name):
    def handler(ex, node, args, kwargs):
        s, child = args[0], args[1]
        res = ex.fresh("str", "rendered")
        ex.log.append((name, {"child": child, "tight": s.fields["_current_list_tight"], "prefix": s.fields["_prefix"],
                              "second": s.fields["_second_prefix"], "suppress": s.fields["_suppress_item_break"]}, res))
        before = s.fields["_prefix"]
        for f in R_HAVOC:
            s.fields[f] = ex.fresh(SELF_FIELDS[f], "self." + f)
        # R.prefix_consumed: whatever emitted text consumed the first-line prefix; nothing emitted, nothing consumed
        s.fields["_prefix"] = ex.ite(ex.b(ex.truth(ex.eq(res, ""))), before, s.fields["_second_prefix"])
        return res
    return Callee("custom", handler=handler)


def can_be_tight_uf(ex, node, args, kwargs):
    el = args[-1]
    return Sym(ex.th.uf("spec_can_be_tight", Ref, Bool)(el.t), "bool")


L_DEFS = {
    # from the property: preserve keeps every list as authored; tight makes tight exactly the lists whose items each
    # hold a single block; loose makes every list loose
    "want_tight()": "ite(self._list_spacing == ListSpacing.preserve, element.tight,"
                    " ite(self._list_spacing == ListSpacing.tight, uf('can_be_tight', 'bool', element), False))",
}


def spec_can_be_tight(ex, el):
    return Sym(ex.th.uf("spec_can_be_tight", Ref, Bool)(ex.z(el)), "bool")


def all_children_rendered_with(ex):
    """every item is rendered exactly once, in order, with the list's effective tightness in force"""
    it = [e for e in ex.log[ex.iter_log_start:] if e[0] == "RENDER"]
    if len(it) != 1:
        return False
    env = ex.envs[0]
    want = ex.spec_eval_value("want_tight()")
    child = ex.list_get(ex.unit.ref_attr(ex, env["element"], "children"), ex.z(env["_i"]) - 1)
    return z3.And(ex.b(ex.truth(ex.eq(it[0][1]["tight"], want))), ex.b(ex.truth(ex.eq(it[0][1]["child"], child))))


def item_marker_and_indent(ex):
    """C01 (nesting and numbering kept): item i is rendered with the first-line prefix extended by exactly its own marker
    ('<start+i>. ' or '<bullet> ') and the continuation prefix extended by an indent exactly as wide as that marker, so the
    item's further blocks and wrapped lines stay inside the item"""
    it = [e for e in ex.log[ex.iter_log_start:] if e[0] == "RENDER"]
    if len(it) != 1:
        return False
    env, at = ex.envs[0], it[0][1]
    p0 = ex.iter_envs[0]["self"].fields["_prefix"]
    s0 = ex.iter_envs[0]["self"].fields["_second_prefix"]
    el = env["element"]
    i = ex.z(env["_i"]) - 1
    num = ex.to_str(ex.wrap(i + ex.z(ex.unit.ref_attr(ex, el, "start")), "int"))
    marker = ex.ite(ex.truth(ex.unit.ref_attr(ex, el, "ordered")), ex.concat([num, ". "]),
                    ex.concat([ex.unit.ref_attr(ex, el, "bullet"), " "]))
    th = ex.th
    width = th.length(ex.z(at["second"])) - th.length(ex.z(s0)) == th.length(ex.z(marker))
    return z3.And(ex.b(ex.truth(ex.eq(at["prefix"], ex.concat([p0, marker])))), width)


contract(Contract(
    target=M + ":MarkdownNormalizer.render_list",
    props=["C10"],
    assumes=["Marko: a bullet list's `bullet` is one character (- + *)", 'contract R of render() for the children: it preserves _second_prefix, _list_spacing, _current_list_tight and leaves _prefix == _second_prefix'],
    params={"element": "ref:Element"},
    self_cls="MarkdownNormalizer",
    heap=HEAP,
    setup=self_setup,
    types={"result": "list[str]", "rendered_item": "str", "prefix": "str", "subsequent_indent": "str", "num": "int",
           "child": "ref:Element", "i": "int",
           **{"MarkdownNormalizer." + f: k for f, k in SELF_FIELDS.items()}},
    calls={
        "self._can_be_tight": Callee("custom", handler=can_be_tight_uf),
        "self.container": Callee("ctxgen", target=M + ":MarkdownNormalizer.container"),
        "self.render": render_child("RENDER"),
    },
    defs=L_DEFS,
    # assumed contract of Marko's List (dependency, unchecked): a bullet is one of the single characters - + *
    requires={"marko_bullet_is_one_char": "len(element.bullet) == 1"},
    loops={0: Loop(inv={"tight": "self._current_list_tight == want_tight()",
                        "second": "self._second_prefix == old(self._second_prefix)",
                        "mode": "self._list_spacing == old(self._list_spacing)"},
                   body_ensures={"item": Clause(all_children_rendered_with, props=["C10"]),
                                 "marker_and_indent": Clause(item_marker_and_indent, props=["C01"])},
                   decreases="len(element.children) - _i")},
    ensures={
        # a nested list cannot leak its mode: the enclosing list's tightness is back in force on exit
        "tight_restored": "self._current_list_tight == old(self._current_list_tight)",
        "mode_untouched": "self._list_spacing == old(self._list_spacing) and self._second_prefix == old(self._second_prefix)",
    },
    canaries=[
        ("is_tight = self._can_be_tight(element)", "is_tight = True", None, ["inv-init", "iter-ensures"]),
        ("        self._current_list_tight = old_tight\n", "", None, ["post[tight_restored"]),
        ("if self._list_spacing == ListSpacing.preserve:", "if self._list_spacing == ListSpacing.loose:", None, ["inv-init"]),
        ("            is_tight = False\n", "            is_tight = element.tight\n", None, ["inv-init"]),
        ('subsequent_indent = " " * (len(str(num)) + 2)', 'subsequent_indent = " " * (len(str(element.start)) + 2)', ["C01"], ["marker_and_indent"]),
        ('prefix = f"{num}. "', 'prefix = f"{element.start}. "', ["C01"], ["marker_and_indent"]),
        ('subsequent_indent = "  "', 'subsequent_indent = " "', ["C01"], ["marker_and_indent"]),
    ],
))

# --------------------------------------------------------------------------- _can_be_tight
contract(Contract(
    target=M + ":MarkdownNormalizer._can_be_tight",
    props=["C10"],
    params={"element": "ref:Element"},
    self_cls="MarkdownNormalizer",
    heap=HEAP,
    defs={"multi(j)": "isinst(element.children[j], 'marko.block.ListItem') and len(element.children[j].children) > 1"},
    types={"item": "ref:Element"},
    loops={0: Loop(inv={"single_so_far": "all(not multi(j) for j in range(_i))"}, decreases="len(element.children) - _i")},
    ensures={
        # tight is possible iff every item holds a single block
        "true_iff_all_single": "implies(result, all(not multi(j) for j in range(len(element.children))))",
        "false_has_witness": "implies(not result, multi(_i))",
    },
    canaries=[("if len(item.children) > 1:", "if len(item.children) > 2:", None, ["inv-preserve", "post["]),
              ("                return False\n        return True", "                return False\n        return False", None, ["post["])],
))

# --------------------------------------------------------------------------- render_list_item
contract(Contract(
    target=M + ":MarkdownNormalizer.render_list_item",
    props=["C10", "C12", "C01"],
    params={"element": "ref:Element"},
    self_cls="MarkdownNormalizer",
    heap=HEAP,
    setup=self_setup,
    types={"rendered": "str"},
    calls={"self.render_children": render_child("RENDER_CHILDREN")},
    ensures={
        # exactly one separator line (the continuation prefix without its trailing blanks - leading indentation kept - + newline) before the item iff
        # the list is loose and the break is not suppressed; nothing else is emitted besides the children
        "separator": Clause(lambda ex: _item_post(ex)),
    },
    canaries=[
        ("        if not rendered:\n", "        if False:\n"),
        ("if not self._current_list_tight:", "if self._current_list_tight:"),
        ('result += self._second_prefix.rstrip() + "\\n"', 'result += self._second_prefix + "\\n"'),
        ('result += self._second_prefix.rstrip() + "\\n"', 'result += self._second_prefix.strip() + "\\n"'),
        ("                self._suppress_item_break = False\n", "                pass\n"),
    ],
))


def _item_post(ex):
    env = ex.envs[0]
    old = ex.old_envs[0]["self"].fields
    calls = [e for e in ex.log if e[0] == "RENDER_CHILDREN"]
    if len(calls) != 1:
        return False
    rc = calls[0][2]
    tight, sup = ex.b(ex.truth(old["_current_list_tight"])), ex.b(ex.truth(old["_suppress_item_break"]))
    sep = ex.concat([ex.wrap(ex.mk_strip("rstrip", ex.z(old["_second_prefix"])), "str"), "\n"])
    res = env["result"]
    emits = z3.And(z3.Not(tight), z3.Not(sup))
    sup_at_call = ex.b(ex.truth(calls[0][1]["suppress"]))
    # an item without content still holds its place (C01): the bare marker, i.e. the first-line prefix without trailing blanks
    marker = ex.concat([ex.wrap(ex.mk_strip("rstrip", ex.z(old["_prefix"])), "str"), "\n"])
    empty = ex.b(ex.truth(ex.eq(rc, "")))
    body = ex.ite(empty, marker, rc)
    return z3.And(
        z3.Implies(emits, ex.b(ex.truth(ex.eq(res, ex.concat([sep, body]))))),
        z3.Implies(z3.Not(emits), ex.b(ex.truth(ex.eq(res, body)))),
        ex.b(ex.truth(ex.eq(env["self"].fields["_prefix"], env["self"].fields["_second_prefix"]))),
        # the suppression is consumed by the first item of a loose list and only there
        z3.Implies(z3.And(z3.Not(tight), sup), z3.Not(sup_at_call)),
        z3.Implies(tight, sup_at_call == sup),
        z3.Implies(emits, sup_at_call == sup))


# --------------------------------------------------------------------------- render_quote
def _quote_children_in_container(ex):
    """the children are rendered once, inside the '> ' container (both prefixes extended by '> ')"""
    calls = [e for e in ex.log if e[0] == "RENDER_CHILDREN"]
    if len(calls) != 1:
        return False
    old = ex.old_envs[0]["self"].fields
    at = calls[0][1]
    return z3.And(ex.b(ex.truth(ex.eq(at["prefix"], ex.concat([old["_prefix"], "> "])))),
                  ex.b(ex.truth(ex.eq(at["second"], ex.concat([old["_second_prefix"], "> "])))))


contract(Contract(
    target=M + ":MarkdownNormalizer.render_quote",
    props=["C10", "C12"],
    params={"element": "ref:Element"},
    self_cls="MarkdownNormalizer",
    heap=HEAP,
    setup=self_setup,
    calls={"self.render_children": render_child("RENDER_CHILDREN"),
           "self.container": Callee("ctxgen", target=M + ":MarkdownNormalizer.container")},
    ensures={
        # contract R for a block that ends an item: the break before the *next* item is not suppressed (C10: loose
        # separates every item; preserve keeps the authored blank line), whatever the children left behind
        "suppress_cleared_on_exit": "not self._suppress_item_break",
        "prefix_consumed": "self._prefix == self._second_prefix",
        "second_restored": "self._second_prefix == old(self._second_prefix)",
        "children_in_container": Clause(_quote_children_in_container),
    },
    canaries=[
        ("        self._suppress_item_break = False\n", "        pass\n", None, ["post[suppress_cleared"]),
        ('with self.container("> ", "> "):', 'with self.container("> ", ""):', None, ["post[children_in_container"]),
    ],
))
