"""Contracts for flowmark.reformat_api (C15 argument correspondence, C14 effect ordering)."""
from vfcore.contracts import Callee, Clause, Contract, Loop, contract

M = "flowmark.reformat_api"
OPTS = ["width", "plaintext", "semantic", "cleanups", "smartquotes", "ellipses", "list_spacing"]
KINDS = {"width": "int", "plaintext": "bool", "semantic": "bool", "cleanups": "bool",
         "smartquotes": "bool", "ellipses": "bool", "list_spacing": "enum:ListSpacing",
         "inplace": "bool", "nobackup": "bool", "make_parents": "bool"}

contract(Contract(
    target=M + ":reformat_text",
    props=["C15"],
    params={"text": "str", **{k: KINDS[k] for k in OPTS}},
    calls={
        "fill_text": Callee("uf", ret="str", target="flowmark.linewrapping.text_filling:fill_text"),
        "fill_markdown": Callee("uf", ret="str", target="flowmark.linewrapping.markdown_filling:fill_markdown"),
        "get_html_md_word_splitter": Callee("uf", ret="ref:WordSplitter", sig=[]),
    },
    ensures={
        # C15: the text API is, by definition, plaintext fill at `width` with the HTML/Markdown-aware
        # splitter, or Markdown fill with every option passed under its own name.
        "plaintext": "implies(plaintext, result == call('fill_text', text, text_wrap=Wrap.WRAP, width=width,"
                     " word_splitter=call('get_html_md_word_splitter')))",
        "markdown": "implies(not plaintext, result == call('fill_markdown', text, width=width, semantic=semantic,"
                    " cleanups=cleanups, smartquotes=smartquotes, ellipses=ellipses, list_spacing=list_spacing))",
    },
))
