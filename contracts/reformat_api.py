"""Contracts for flowmark.reformat_api (C15 argument correspondence, C14 effect ordering)."""
from vfcore.contracts import Callee, Clause, Contract, Loop, contract

M = "flowmark.reformat_api"
OPTS = ["width", "plaintext", "semantic", "cleanups", "smartquotes", "ellipses", "list_spacing"]
KINDS = {"width": "int", "plaintext": "bool", "semantic": "bool", "cleanups": "bool",
         "smartquotes": "bool", "ellipses": "bool", "list_spacing": "enum:ListSpacing",
         "inplace": "bool", "nobackup": "bool", "make_parents": "bool"}

contract(Contract(
    target=M + ":reformat_text",
    props=["C15"],
    params={"text": "str", **{k: KINDS[k] for k in OPTS}},
    calls={
        "fill_text": Callee("uf", ret="str", target="flowmark.linewrapping.text_filling:fill_text"),
        "fill_markdown": Callee("uf", ret="str", target="flowmark.linewrapping.markdown_filling:fill_markdown"),
        "get_html_md_word_splitter": Callee("uf", ret="ref:WordSplitter", sig=[]),
    },
    ensures={
        # C15: the text API is, by definition, plaintext fill at `width` with the HTML/Markdown-aware
        # splitter, or Markdown fill with every option passed under its own name.
        "plaintext": Clause("implies(plaintext, result == call('fill_text', text, text_wrap=Wrap.WRAP, width=width,"
                            " word_splitter=call('get_html_md_word_splitter')))", props=["C15", "C05"]),
        "markdown": "implies(not plaintext, result == call('fill_markdown', text, width=width, semantic=semantic,"
                    " cleanups=cleanups, smartquotes=smartquotes, ellipses=ellipses, list_spacing=list_spacing))",
    },
    canaries=[("cleanups=cleanups", "cleanups=smartquotes"),
              ("width=width,\n            word_splitter", "width=88,\n            word_splitter")],
))

# --------------------------------------------------------------------------- reformat_file
import z3
from vfcore.values import Sym, VCtxMgr, VExc, VOpt, VFunc
from vfcore.sx_base import RaiseSig
from vfcore.theory import Ref

ATOMIC_SIG = ["dest_path", "make_parents", "backup_suffix", "tmp_suffix", "force"]   # strif 's signature (audited below)


def _audit_strif_sig():
    import inspect, strif
    return list(inspect.signature(strif.atomic_output_file).parameters) == ATOMIC_SIG


def atomic_output_file(ex, node, args, kwargs):
    """Assumed contract of strif.atomic_output_file (DESIGN §2.4): enter yields a fresh sibling
    temp path (and may fail before anything is written); normal exit commits tmp -> dest (after the
    optional backup move); exceptional exit commits nothing."""
    bound = dict(zip(ATOMIC_SIG, args))
    for k, v in kwargs.items():
        if k in bound or k not in ATOMIC_SIG:
            raise RaiseSig(VExc("TypeError"), "atomic_output_file(%s)" % k)
        bound[k] = v
    bound.setdefault("make_parents", False)
    bound.setdefault("backup_suffix", None)
    bound.setdefault("tmp_suffix", ".partial")
    bound.setdefault("force", False)
    ex.fresh_n += 1
    tmp = Sym(z3.Const("tmp_path!%d" % ex.fresh_n, Ref), "ref", "Path")

    def enter(ex):
        if ex.choose(2, "atomic_enter_raises") == 1:
            raise RaiseSig(VExc("OSError"), "atomic_output_file.__enter__")
        ex.log.append(("ATOMIC_ENTER", dict(bound, tmp=tmp), tmp))
        return tmp

    def exit_(ex, exc):
        if exc is not None:
            ex.log.append(("ATOMIC_ABORT", dict(bound, tmp=tmp), None))
            return
        if ex.choose(2, "atomic_exit_raises") == 1:
            ex.log.append(("ATOMIC_ABORT", dict(bound, tmp=tmp), None))
            raise RaiseSig(VExc("OSError"), "atomic_output_file.__exit__")
        ex.log.append(("ATOMIC_COMMIT", dict(bound, tmp=tmp), None))
    return VCtxMgr(enter, exit_)


def L(ex, *names):
    return [(i, e) for i, e in enumerate(ex.log) if e[0] in names]


def T(x):
    return z3.BoolVal(x) if isinstance(x, bool) else (x.t if isinstance(x, Sym) else x)


def AND(*xs):
    return z3.And(*[T(x) for x in xs]) if xs else z3.BoolVal(True)


def file_ok_normal(ex):
    """C14/C15 on normal return of reformat_file: exactly one read, then exactly one format of what was
    read, then exactly one output of exactly the formatted text through the right sink."""
    env = ex.envs[0]
    reads = L(ex, "READ", "READ_STDIN")
    fmts = L(ex, "FORMAT")
    outs = L(ex, "WRITE", "STDOUT")
    enters = L(ex, "ATOMIC_ENTER")
    commits = L(ex, "ATOMIC_COMMIT")
    if len(reads) != 1 or len(fmts) != 1 or len(outs) != 1:
        return False
    (ri, r), (fi, f), (oi, o) = reads[0], fmts[0], outs[0]
    if not (ri < fi < oi):
        return False
    conds = [ex.eq(f[1]["text"], r[2])]
    data = o[1]["data"] if o[0] == "WRITE" else o[1]["s"]
    conds.append(ex.eq(data, f[2]))
    if o[0] == "WRITE":
        if len(enters) != 1 or len(commits) != 1 or not (fi < enters[0][0] < oi < commits[0][0]):
            return False
        conds.append(ex.eq(o[1]["self"], enters[0][1][2]))
    else:
        if enters:
            return False
    return AND(*conds)


def no_unmodelled(ex):
    """C14 frame: every file effect is one the contract models (read, format, atomic context, stdout): no
    open(..., 'w'), no os/shutil mutation, no write that bypasses the atomic temp file"""
    return not [e for e in ex.log if e[0] == "UNMODELLED"]


def file_sink(ex):
    """C14 input_untouched / C15 sinks: inplace => atomic target is `path` with backup '.orig' iff not nobackup;
    not inplace => stdout when output is None/''/'-', else atomic target `output` (never `path`)."""
    env = ex.envs[0]
    inplace, nobackup, path, output, mk = (env[k] for k in ("inplace", "nobackup", "path", "output", "make_parents"))
    enters = L(ex, "ATOMIC_ENTER")
    stdouts = L(ex, "STDOUT")
    conds = []
    to_stdout = z3.Or(output.is_none, T(ex.eq(output.val, "")), T(ex.eq(output.val, "-")))
    if enters:
        b = enters[0][1][1]
        is_inplace = T(inplace)
        suffix = b["backup_suffix"]
        want_suffix = ex.ite(T(nobackup), "", ".orig")
        conds.append(z3.Implies(is_inplace, AND(ex.eq(b["dest_path"], path), ex.eq(suffix, want_suffix) if suffix is not None else False)))
        conds.append(z3.Implies(z3.Not(is_inplace), AND(z3.Not(to_stdout), ex.eq(b["dest_path"], output),
                                                        suffix is None)))
        conds.append(T(ex.eq(b["make_parents"], mk)))
        conds.append(T(ex.eq(b["force"], False)))
    if stdouts:
        conds.append(AND(z3.Not(T(inplace)), to_stdout))
    return AND(*conds)


def file_raise_clean(ex):
    """C14 on exceptional exit: nothing was committed; and if the failure happened in read / format
    (no FORMAT result yet) then no output effect of any kind occurred."""
    fmts = L(ex, "FORMAT")
    commits = L(ex, "ATOMIC_COMMIT")
    outs = L(ex, "WRITE", "STDOUT", "ATOMIC_ENTER")
    if commits:
        return False
    if not fmts and outs:
        return False
    if fmts and outs and outs[0][0] < fmts[0][0]:
        return False
    return True


def stdin_inplace_rejected(ex):
    env = ex.envs[0]
    # the only ValueError is `inplace and path == '-'`, raised before any effect
    if ex.outcome[1] == "ValueError":
        return AND(len(ex.log) == 0, env["inplace"], ex.eq(env["path"], "-"))
    return z3.Not(AND(env["inplace"], ex.eq(env["path"], "-"), len(ex.log) > 0)) if False else True


FILE_PARAMS = {"path": "str", "output": "opt[str]", **{k: KINDS[k] for k in OPTS}, "inplace": "bool",
               "nobackup": "bool", "make_parents": "bool"}
FMT_ARGS = {p: Clause("arg_%s == %s" % (p, p), props=["C15"]) for p in OPTS}

contract(Contract(
    target=M + ":reformat_file",
    props=["C14", "C15"],
    params=FILE_PARAMS,
    calls={
        "sys.stdin.read": Callee("effect", ret="str", effect="READ_STDIN", raises=("Exception",), sig=[]),
        "Path": Callee("uf", ret="ref:Path", sig=["p"]),
        "Path.read_text": Callee("effect", ret="str", effect="READ", raises=("OSError", "UnicodeDecodeError"), sig=["self"]),
        "Path.write_text": Callee("effect", ret="int", effect="WRITE", raises=("OSError",), sig=["self", "data"]),
        "sys.stdout.write": Callee("effect", ret="int", effect="STDOUT", raises=("OSError",), sig=["s"]),
        "reformat_text": Callee("effect", ret="str", effect="FORMAT", raises=("Exception",), target=M + ":reformat_text"),
        "atomic_output_file": Callee("custom", handler=atomic_output_file),
    },
    at_call={"reformat_text": FMT_ARGS},
    raises=("Exception",),
    unknown_calls="effect",
    ensures={
        "write_only_via_atomic": Clause(no_unmodelled, props=["C14"]),
        "one_read_format_output": Clause(file_ok_normal, props=["C14", "C15"]),
        "sink": Clause(file_sink, props=["C14", "C15"]),
        "stdin_inplace": Clause(lambda ex: z3.Not(AND(ex.envs[0]["inplace"], ex.eq(ex.envs[0]["path"], "-"))), props=["C14", "C15"]),
    },
    ensures_raise={
        "write_only_via_atomic": Clause(no_unmodelled, props=["C14"]),
        "nothing_committed": Clause(file_raise_clean, props=["C14"]),
        "sink": Clause(file_sink, props=["C14"]),
        "value_error": Clause(stdin_inplace_rejected, props=["C14", "C15"]),
    },
    canaries=[
        ("plaintext, semantic, cleanups", "plaintext, cleanups, semantic", ["C15"]),
        ('".orig" if not nobackup else ""', '".orig" if nobackup else ""', ["C14"]),
        ("with atomic_output_file(output, make_parents=make_parents) as tmp_path:\n                tmp_path.write_text(result)",
         "Path(output).write_text(result)", ["C14"]),
        ("if inplace and read_stdin:", "if inplace and not read_stdin:", ["C14", "C15"]),
        ("atomic_output_file(\n            path, backup_suffix", "atomic_output_file(\n            output, backup_suffix", ["C14"]),
        ("if not output or write_stdout:", "if not output:", ["C15", "C14"]),
    ],
))

# --------------------------------------------------------------------------- reformat_files
FILE_OPTS = OPTS + ["inplace", "nobackup", "make_parents"]
PASS = {p: Clause("arg_%s == %s" % (p, p), props=["C15"]) for p in FILE_OPTS}


def one_file_call_per_iteration(ex):
    it = [e for e in ex.log[ex.iter_log_start:] if e[0] != "LOOP"]
    return len(it) == 1 and it[0][0] == "REFORMAT_FILE"


def files_stdin_case(ex):
    """normal return: either the single-stdin case (exactly one call) or the loop was run"""
    calls = L(ex, "REFORMAT_FILE")
    loops = L(ex, "LOOP")
    if loops:
        return len(calls) == 0      # calls inside the loop are covered by the iteration clause
    return len(calls) == 1


def files_value_error(ex):
    env = ex.envs[0]
    if ex.outcome[1] == "ValueError" and ex.outcome[2] == "raise":
        # the function's own usage errors, raised before any file is touched: an output file for several inputs, or an
        # in-place run with stdin among the inputs
        from vfcore.values import FAnd, FEx, FOr, FT
        out = env["output"]
        files = ex.as_vlist(env["files"], "str")
        out_file = AND(z3.Not(T(env["inplace"])), z3.Not(out.is_none), z3.Not(T(ex.eq(out.val, "-"))), z3.Not(T(ex.eq(out.val, ""))))
        stdin_among = FEx("k", 0, files.length, lambda c: FT(T(ex.eq(ex.list_get(files, c), "-"))), "stdin among inputs")
        return FAnd([FT(z3.BoolVal(len(L(ex, "REFORMAT_FILE")) == 0)), FOr([FT(out_file), FAnd([FT(T(env["inplace"])), stdin_among])])])
    return True


contract(Contract(
    target=M + ":reformat_files",
    props=["C15", "C14"],
    params={"files": "list[str]", "output": "opt[str]", **{k: KINDS[k] for k in FILE_OPTS}},
    calls={"reformat_file": Callee("effect", ret="none", effect="REFORMAT_FILE", raises=("Exception",),
                                   target=M + ":reformat_file")},
    at_call={
        "reformat_file": PASS,
        "reformat_file#0": {"path": "arg_path == files[0]", "output": "arg_output == old('output')",
                            "single": "len(files) == 1 and files[0] == '-'"},
        "reformat_file#1": {"path": "arg_path == files[_i]",
                            "output": "implies(inplace, isnone(arg_output)) and implies(not inplace, arg_output == '-')",
                            "no_out_file": Clause("inplace or isnone(old('output')) or val(old('output')) == '-' or val(old('output')) == ''", props=["C15", "C14"]),
                            # C15 (usage errors write nothing): no file is rewritten by an in-place run that has stdin among its inputs
                            "no_inplace_run_with_stdin": Clause("implies(inplace, all(files[k] != '-' for k in range(len(files))))", props=["C15", "C14"])},
    },
    loops={0: Loop(inv={}, body_ensures={"one_call": Clause(one_file_call_per_iteration, props=["C14", "C15"])},
                   decreases="len(files) - _i")},
    raises=("Exception",),
    unknown_calls="effect",
    ensures={"calls": Clause(files_stdin_case, props=["C14", "C15"]),
             "no_other_effects": Clause(no_unmodelled, props=["C14"])},
    ensures_raise={"usage_error_before_effects": Clause(files_value_error, props=["C14", "C15"]),
                   "no_other_effects": Clause(no_unmodelled, props=["C14"])},
    canaries=[
        ("semantic=semantic,\n            cleanups=cleanups,\n            smartquotes=smartquotes,\n            ellipses=ellipses,\n            make_parents=make_parents,\n            list_spacing=list_spacing,\n        )\n        return",
         "semantic=cleanups,\n            cleanups=semantic,\n            smartquotes=smartquotes,\n            ellipses=ellipses,\n            make_parents=make_parents,\n            list_spacing=list_spacing,\n        )\n        return", ["C15"]),
        ("for file_path in files:", "for file_path in files[1:]:", ["C15", "C14"]),
        ('if not inplace and output and output != "-":', 'if not inplace and output and output == "-":', ["C15", "C14"]),
        ('            output = "-"\n', '            output = output\n', ["C15", "C14"]),
        ('    if inplace and "-" in files:', '    if inplace and "-" in files[:1]:', ["C15", "C14"]),
    ],
))
