#!/bin/sh
# run every registered quick check on /repo; print one line per property
cd /verif
for p in C01 C02 C03 C04 C05 C06 C07 C08 C09 C10 C11 C12 C13 C14 C15 C16 C17 C18; do
  VERIF_SEED=${VERIF_SEED:-1} VERIF_TIER=${VERIF_TIER:-quick} timeout 1800 ./vf check $p > /tmp/allchecks-$p.out 2>&1; rc=$?
  echo "$p rc=$rc $(grep '^SUMMARY' /tmp/allchecks-$p.out | cut -c1-200)"
  grep -E "^VIOLATION|^UNDECIDED|^CHECKER" /tmp/allchecks-$p.out | head -5
done
