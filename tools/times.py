import sys, time
sys.path.insert(0, "/verif")
from vfcore.run import load_contracts
from vfcore.contracts import REGISTRY
from vfcore.explore import Unit, explore
from vfcore import vc
import z3
load_contracts()
cid = sys.argv[1]
res = explore(Unit(REGISTRY[cid]))
for ob in res.obligations:
    t=time.time(); facts, goal = vc.build_query(ob, ob.detail, ncands=10); tb=time.time()-t
    s=z3.Solver(); s.set("rlimit", vc.RLIMIT)
    for f in facts: s.add(f)
    s.add(z3.Not(goal)); t=time.time(); r=s.check(); ts=time.time()-t
    if tb+ts>0.5: print("%.2f build %.2f solve %s nfacts=%d %s" % (tb, ts, r, len(facts), ob.oid), flush=True)
