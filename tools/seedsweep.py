"""Run the bounded layers of the given properties for several seeds; report violations not explained by known findings."""
import sys, importlib, collections, json
sys.path.insert(0, "/verif")
from vfcore.check import load_findings, match_bounded_finding
props = sys.argv[1].split(",")
seeds = range(int(sys.argv[2]), int(sys.argv[3]))
tier = sys.argv[4] if len(sys.argv) > 4 else "quick"
for p in props:
    m = importlib.import_module("props." + p)
    known = [f for f in load_findings() if f.get("status") == "known" and (f.get("property") == p or p in f.get("properties", []))]
    for s in seeds:
        r = m.bounded(tier, s)
        un = [v for v in r["violations"] if match_bounded_finding(v, known) is None]
        print(p, "seed", s, "evals", r["evaluations"], "violations", len(r["violations"]), "unexplained", len(un), flush=True)
        for v in un[:2]:
            print("   ", v.get("clause"), json.dumps(v.get("input"), default=str)[:600])
            print("      got ", repr(v.get("got"))[:400]); print("      want", repr(v.get("want"))[:400])
