#!/bin/sh
# usage: tools/seedtest.sh <worktree> <seeddir> <prop> [more props]
# Applies <seeddir>/patch.diff in the scratch worktree (never /repo), confirms tests pass + demo fails,
# runs the registered quick checks against it (VF_REPO), reverts, confirms the demo passes again.
WT=$1; SEED=$2; shift 2
HEAD=$(git -C /repo rev-parse HEAD)
git -C $WT checkout -q --detach $HEAD 2>/dev/null
git -C $WT checkout -q -- . 
( cd $WT && git apply $SEED/patch.diff ) || { echo "PATCH DOES NOT APPLY"; exit 9; }
echo "== tests with patch:"; ( cd $WT && PYTHONPATH=$WT/src /venv/bin/python -m pytest -q -p no:cacheprovider 2>&1 | tail -1 )
echo "== demo with patch (expect exit 1):"; ( cd /tmp && /venv/bin/python $SEED/demo.py $WT >$WT/.demo.out 2>&1; echo "exit $?"; tail -3 $WT/.demo.out )
for P in "$@"; do
  echo "== check $P against patched tree:"
  ( cd /verif && VF_REPO=$WT VF_OUT=$WT/.vf-seed-out ./vf check $P > $WT/.vf-seed-check.out 2>&1
    echo "   violations: $(grep -c '^VIOLATION property' $WT/.vf-seed-check.out)  with replayed input: $(grep '^VIOLATION property' $WT/.vf-seed-check.out | grep -vc no-failing-input-found)"
    grep '^VIOLATION property' $WT/.vf-seed-check.out | grep -v no-failing-input-found | head -2
    grep '^VIOLATION property' $WT/.vf-seed-check.out | grep no-failing-input-found | head -1
    grep -E "^RESULT|^CHECKER|^UNDECIDED|^SUMMARY" $WT/.vf-seed-check.out | head -5 )
done
( cd $WT && git checkout -q -- . )
echo "== demo without patch (expect exit 0):"; ( cd /tmp && /venv/bin/python $SEED/demo.py $WT >$WT/.demo.out 2>&1; echo "exit $?" )
