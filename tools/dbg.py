import sys, time, os
sys.path.insert(0, "/verif")
from vfcore.run import load_contracts
from vfcore.contracts import REGISTRY
from vfcore.explore import Unit, explore
from vfcore.vc import discharge
import multiprocessing as mp

def work(a):
    cid, shard, n, only = a
    load_contracts() if not REGISTRY else None
    res = explore(Unit(REGISTRY[cid]))
    out=[]
    for i, ob in enumerate(res.obligations):
        if i % n != shard: continue
        if only and only not in ob.oid: continue
        t=time.time()
        discharge(ob, ob.detail)
        out.append((ob.status, round(time.time()-t,2), ob.oid, str(ob.model)[:1500] if ob.status!='discharged' else ''))
    return res.paths, len(res.obligations), out

if __name__ == "__main__":
    cid = sys.argv[1]; only = sys.argv[2] if len(sys.argv)>2 else None
    n=16
    t=time.time()
    with mp.get_context("fork").Pool(n) as p:
        rs = p.map(work, [(cid,i,n,only) for i in range(n)])
    print("paths", rs[0][0], "obligations", rs[0][1], "wall %.1fs" % (time.time()-t))
    allr=[x for r in rs for x in r[2]]
    print("discharged", sum(x[0]=='discharged' for x in allr), "of", len(allr), "max time", max(x[1] for x in allr) if allr else 0)
    seen=set()
    for st, tm, oid, model in sorted(allr, key=lambda x:x[2]):
        if st!='discharged':
            key=oid.rsplit('/',1)[0]
            print(st, tm, oid)
            if key not in seen and os.environ.get("MODEL"):
                print("   ", model)
            seen.add(key)
