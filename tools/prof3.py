import sys, time, cProfile, pstats
sys.path.insert(0, "/verif")
from vfcore.run import load_contracts
from vfcore.contracts import REGISTRY
from vfcore.explore import Unit, explore
from vfcore import vc
load_contracts()
cid = sys.argv[1]
res = explore(Unit(REGISTRY[cid]))
groups = {}
for ob in res.obligations:
    key = (id(ob.detail), ob.base_len, len(ob.hyps))
    groups.setdefault(key, []).append(ob)
gs=sorted(groups.values(), key=len, reverse=True)
print(len(gs), [len(g) for g in gs[:10]])
pr=cProfile.Profile(); pr.enable()
t=time.time()
vc._discharge_group(gs[0], vc.RLIMIT)
print("group time", time.time()-t, len(gs[0]))
pr.disable()
pstats.Stats(pr).sort_stats("cumulative").print_stats(22)
