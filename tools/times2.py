import sys, time
sys.path.insert(0, "/verif")
from vfcore.run import load_contracts
from vfcore.contracts import REGISTRY
from vfcore.explore import Unit, explore
from vfcore import vc
load_contracts()
cid = sys.argv[1]
res = explore(Unit(REGISTRY[cid]))
groups = {}
for ob in res.obligations:
    groups.setdefault((id(ob.detail), ob.base_len, len(ob.hyps)), []).append(ob)
for obs in groups.values():
    t=time.time()
    if len(obs)==1: vc.discharge(obs[0], obs[0].detail)
    else: vc._discharge_group(obs, vc.RLIMIT)
    dt=time.time()-t
    if dt>1: print("%.1fs n=%d %s %s" % (dt, len(obs), obs[0].oid, [o.status for o in obs if o.status!='discharged']), flush=True)
