"""usage: tools/unit.py <cid-substr>: explore + discharge one unit, print every non-discharged obligation"""
import sys, time
sys.path.insert(0, "/verif")
from vfcore.run import load_contracts
from vfcore.contracts import REGISTRY
from vfcore.explore import Unit, explore
from vfcore.vc import discharge_all
load_contracts()
cid = [c for c in REGISTRY if c.endswith(sys.argv[1])] or [c for c in REGISTRY if sys.argv[1] in c]
assert len(cid) == 1, cid
t = time.time()
res = explore(Unit(REGISTRY[cid[0]]))
print("paths", res.paths if hasattr(res, "paths") else "?", "obligations", len(res.obligations), "gen %.1fs" % (time.time() - t))
t = time.time()
discharge_all(res.obligations)
print("discharge %.1fs" % (time.time() - t))
from collections import Counter
print(Counter(o.status for o in res.obligations))
seen = set()
for o in res.obligations:
    if o.status != "discharged":
        key = o.oid.rsplit("/", 1)[0]
        if key in seen:
            continue
        seen.add(key)
        print(o.status, o.oid, str(o.model)[:300] if o.status != "refuted" else "")
