#!/bin/sh
# usage: tools/seedbatch.sh <prop> [seed...]: run seedtest for /tmp/wt-<prop>/seedN
P=$1; shift
for s in "$@"; do echo "######## $P $s"; timeout 2400 tools/seedtest.sh /tmp/wt-$P /tmp/wt-$P/$s $P 2>&1 | grep -E "^== tests|passed|failed|^exit|violations:|^RESULT|^SUMMARY|PATCH" ; done
