import sys, time, os
sys.path.insert(0, "/verif")
from vfcore.run import load_contracts
from vfcore.contracts import REGISTRY
from vfcore.explore import Unit, explore
from vfcore.vc import discharge, build_query
load_contracts()
cid, pat = sys.argv[1], sys.argv[2]
res = explore(Unit(REGISTRY[cid]))
for ob in res.obligations:
    if pat in ob.oid:
        discharge(ob, ob.detail)
        print(ob.status, ob.oid)
        print("GOAL:", ob.goal)
        if ob.status == "refuted":
            m = ob.model
            names = sys.argv[3:] 
            for d in m.decls():
                if d.arity()==0 and ("!" not in d.name() or any(n in d.name() for n in names)):
                    print("  ", d.name(), "=", m[d])
        break
