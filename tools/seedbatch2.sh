#!/bin/sh
# usage: tools/seedbatch2.sh <worktree> <seeddir-name> <prop> [<prop>...]
WT=$1; S=$2; shift 2
echo "######## $S ($*)"; timeout 3000 tools/seedtest.sh $WT $WT/$S "$@" 2>&1 | grep -E "passed|failed|^exit|violations:|^RESULT|^SUMMARY|PATCH|^== check"
