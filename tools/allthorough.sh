#!/bin/sh
# thorough tier of every check against /repo, output to $1 (default /tmp/vf-thorough); evidence not touched
OUT=${1:-/tmp/vf-thorough}; mkdir -p $OUT
cd /verif
for p in C14 C15 C16 C17 C18 C13 C07 C08 C09 C10 C11 C04 C06 C12 C01 C02 C03 C05; do
  VF_OUT=$OUT VERIF_SEED=${VERIF_SEED:-3} timeout 7200 ./vf check $p --tier thorough > $OUT/$p.out 2>&1; rc=$?
  echo "$p rc=$rc $(grep '^SUMMARY' $OUT/$p.out | cut -c1-220)"
done
