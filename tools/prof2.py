import sys, time
sys.path.insert(0, "/verif")
from vfcore.run import load_contracts
from vfcore.contracts import REGISTRY
from vfcore.explore import Unit, explore
from vfcore import vc
load_contracts()
cid = sys.argv[1]
t=time.time()
res = explore(Unit(REGISTRY[cid]))
print("explore", time.time()-t, len(res.obligations))
t=time.time()
vc.discharge_all(res.obligations)
bad=[(o.status,o.oid) for o in res.obligations if o.status!='discharged']
print("discharge", time.time()-t, len(bad)); 
for b in bad[:12]: print(b)
