#!/bin/sh
# usage: tools/keepseed.sh <seeddir> <id> <prop> "<needs>" "<caught-by>"
S=$1; ID=$2; P=$3
mkdir -p /verif/seeded/$ID
cp $S/patch.diff $S/demo.py /verif/seeded/$ID/
[ -f $S/notes.txt ] && cp $S/notes.txt /verif/seeded/$ID/
python3 - "$@" <<'PY'
import json, sys
s, i, p, needs, caught = sys.argv[1:6]
json.dump({"id": i, "property": p, "needs_to_manifest": needs, "caught_by": caught,
           "confirmed": "patch applied in a scratch worktree (never /repo): full test suite passes (302), demo.py exits 1; reverted: demo.py exits 0",
           "ran": "tools/seedtest.sh <worktree> <seeddir> %s  (VF_REPO=<worktree> ./vf check %s)" % (p, p)},
          open("/verif/seeded/%s/meta.json" % i, "w"), indent=1)
PY
