import sys, time
sys.path.insert(0, "/verif")
from vfcore.run import load_contracts
from vfcore.canary import run_canary
from vfcore.contracts import REGISTRY
load_contracts()
for cid in REGISTRY:
    if not any(p in cid for p in sys.argv[1:]): continue
    for k in REGISTRY[cid].canaries:
        t=time.time()
        r=run_canary(cid,k[0],k[1], k[3] if len(k)>3 else None)
        print(cid.split(':')[1], r[0], "%.1fs"%(time.time()-t), [x for x in r[1]][:2] if isinstance(r[1],list) else r[1], flush=True)
