import sys, time, cProfile, pstats
sys.path.insert(0, "/verif")
from vfcore.run import load_contracts
from vfcore.contracts import REGISTRY
from vfcore.explore import Unit, explore
from vfcore.vc import discharge
load_contracts()
cid = sys.argv[1]
res = explore(Unit(REGISTRY[cid]))
obs=[o for o in res.obligations if sys.argv[2] in o.oid][:3]
pr=cProfile.Profile(); pr.enable()
for ob in obs:
    discharge(ob, ob.detail); print(ob.status, ob.time)
pr.disable()
pstats.Stats(pr).sort_stats("cumulative").print_stats(25)
