"""str methods and the assumed library contracts they come with (DESIGN §2.4).

Every axiom asserted here is an *assumed* contract of CPython's str / re; each is named in
LIB_AXIOMS (reported in the evidence) and has an executable twin in vfcore.libaudit that is
evaluated against CPython on an enumerated domain on every run.
"""
from __future__ import annotations

import z3

from .sx_base import GenError
from .sx_expr import is_const
from .theory import Bool, Int
from .values import FAll, FT, Sym, VList, VOpt

LIB_AXIOMS = {
    "str.strip.idem": "strip/lstrip/rstrip are idempotent, shrink slen and every additive length, map '' to ''",
    "str.strip.both": "strip(s) == lstrip(rstrip(s)) == rstrip(lstrip(s))",
    "str.split_ws.words": "s.split(): every word is non-empty and strip-stable",
    "str.split_sep.join": "sep.join(s.split(sep)) == s and len(s.split(sep)) >= 1",
    "str.join.def": "sep.join(xs) unfolds as join(xs[:-1]) + sep + xs[-1]; join of one element is the element; of none is ''",
    "str.startswith.cat": "(p + s).startswith(p); s.startswith(p) implies slen(p) <= slen(s)",
    "str.replace.id": "s.replace(a, b) == s when a does not occur in s",
    "re.sub_ws.idem": "re.sub(r'\\s+', ' ', .) is idempotent",
}
used_axioms: set[str] = set()


class StrMixin:
    def sfun(self, name, *sorts):
        return self.th.uf(name, *sorts)

    def str_method(self, recv, name, args, kwargs, node):
        if is_const(recv) and all(is_const(a) for a in args) and not kwargs:
            return getattr(recv, name)(*args)
        th = self.th
        S = th.Str
        s = self.z(recv)
        if name in ("strip", "lstrip", "rstrip"):
            if args and args[0] is not None:
                f = self.sfun(name + "_chars", S, S, S)
                t = f(s, self.z(args[0]))
                self.pc.append(th.length(t) <= th.length(s))
                return self.wrap(t, "str")
            return self.wrap(self.mk_strip(name, s), "str")
        if name in ("startswith", "endswith"):
            if th.name == "L1":
                t = z3.PrefixOf(self.z(args[0]), s) if name == "startswith" else z3.SuffixOf(self.z(args[0]), s)
                return self.wrap(t, "bool")
            f = self.sfun(name, S, S, Bool)
            p = self.z(args[0])
            t = f(s, p)
            used_axioms.add("str.startswith.cat")
            self.pc.append(z3.Implies(t, th.length(p) <= th.length(s)))
            at = th.atoms(s)
            pat = th.atoms(p)
            if len(at) >= len(pat) and pat:
                seg = at[:len(pat)] if name == "startswith" else at[-len(pat):]
                if all(a.eq(b) for a, b in zip(seg, pat)):
                    return True
            return self.wrap(t, "bool")
        if name == "join":
            return self.str_join(recv, args[0])
        if name == "split":
            return self.str_split(recv, args, kwargs)
        if name == "splitlines":
            f_len = self.sfun("splitlines#len", S, Int)
            f_arr = self.sfun("splitlines#arr", S, z3.ArraySort(Int, S))
            self.pc.append(f_len(s) >= 0)
            self.pc.append((f_len(s) == 0) == (s == th.empty))
            return VList(self.wrap(f_len(s), "int") if False else f_len(s), f_arr(s), "str")
        if name in ("rsplit", "partition", "rpartition"):
            # uninterpreted pieces whose concatenation (with the separators) is the string; rsplit with maxsplit=k has at most
            # k+1 pieces, partition / rpartition exactly three parts
            if name == "rsplit":
                sep = self.z(args[0]) if args and args[0] is not None else th.empty
                k = args[1] if len(args) > 1 else kwargs.get("maxsplit", -1)
                if not isinstance(k, int):
                    raise GenError("str.rsplit with symbolic maxsplit")
                f_len = self.sfun("rsplit%d#len" % k, S, S, Int)
                f_arr = self.sfun("rsplit%d#arr" % k, S, S, z3.ArraySort(Int, S))
                n = f_len(s, sep)
                self.pc.append(z3.And(n >= 1, n <= k + 1) if k >= 0 else n >= 1)
                if k == 1:
                    a = f_arr(s, sep)
                    self.pc.append(z3.If(n == 1, z3.Select(a, 0) == s,
                                         th.cat(th.cat(z3.Select(a, 0), sep), z3.Select(a, 1)) == s))
                return VList(n, f_arr(s, sep), "str")
            sep = self.z(args[0])
            parts = [self.sfun("%s#%d" % (name, i), S, S, S)(s, sep) for i in range(3)]
            self.pc.append(th.cat(th.cat(parts[0], parts[1]), parts[2]) == s)
            self.pc.append(z3.Or(parts[1] == sep, z3.And(parts[1] == th.empty, (parts[2] if name == "partition" else parts[0]) == th.empty)))
            return tuple(self.wrap(p_, "str") for p_ in parts)
        if name == "replace":
            if th.name == "L1":
                raise GenError("L1 replace: use the char-map tactic")
            f = self.sfun("replace", S, S, S, S)
            return self.wrap(f(s, self.z(args[0]), self.z(args[1])), "str")
        if name in ("isspace", "isdigit", "isalpha", "isalnum", "isupper", "islower"):
            f = self.sfun(name, S, Bool)
            t = f(s)
            self.pc.append(z3.Implies(t, s != th.empty))
            return self.wrap(t, "bool")
        if name == "count":
            f = self.sfun("count", S, S, Int)
            t = f(s, self.z(args[0]))
            self.pc.append(t >= 0)
            return self.wrap(t, "int")
        if name in ("lower", "upper", "title", "casefold"):
            f = self.sfun(name, S, S)
            t = f(s)
            self.pc.append(th.length(t) == th.length(s)) if name in ("lower", "upper") else None
            return self.wrap(t, "str")
        if name == "format":
            # a literal template with plain positional '{}' fields only
            if isinstance(recv, str) and not kwargs and "{" not in recv.replace("{}", "") and "}" not in recv.replace("{}", "") \
                    and recv.count("{}") == len(args):
                parts = recv.split("{}")
                out = [parts[0]]
                for a, p in zip(args, parts[1:]):
                    out += [self.to_str(a), p]
                return self.concat([x for x in out if not (isinstance(x, str) and x == "")])
            raise GenError("str.format on symbolic template")
        if name == "find":
            f = self.sfun("find", S, S, Int)
            t = f(s, self.z(args[0]))
            self.pc.append(z3.And(t >= -1, t < z3.If(th.length(s) > 0, th.length(s), 1)))
            return self.wrap(t, "int")
        raise GenError("str.%s" % name)

    def mk_strip(self, name, s):
        used_axioms.add("str.strip.idem")
        return self.sfun(name, self.th.Str, self.th.Str)(s)

    # ---- join
    def str_join(self, sep, xs):
        if isinstance(xs, (list, tuple)):
            parts = []
            for i, x in enumerate(xs):
                if i:
                    parts.append(sep)
                parts.append(x)
            return self.concat(parts) if parts else ""
        if isinstance(xs, VOpt):
            xs = xs.val
        if not isinstance(xs, VList) or xs.elem != "str":
            raise GenError("join over %r" % (xs,))
        so = getattr(xs, "slice_of", None)
        if so is not None and not isinstance(xs.elem, tuple):
            base, off = so
            return self.wrap(self.mk_joinr(self.z(sep), base, off, z3.simplify(off + self.z(xs.length))), "str")
        return self.wrap(self.mk_joinr(self.z(sep), xs.arr, z3.IntVal(0), self.z(xs.length)), "str")

    def mk_joinr(self, sep, arr, a, b, depth=2):
        """Term for sep.join(arr[a:b]); its unfolding / store-stability facts are attached per query
        by `unfold` (vc.definitional)."""
        used_axioms.add("str.join.def")
        f = self.sfun("joinr", self.th.Str, z3.ArraySort(Int, self.th.Str), Int, Int, self.th.Str)
        return f(sep, arr, z3.simplify(a), z3.simplify(b))

    def unfold(self, app):
        """Definitional facts of one application of a spec function (instances of its definition)."""
        th = self.th
        S = th.Str
        name = app.decl().name()
        facts = []
        if name == "joinr":
            f = app.decl()
            sep, arr, a, b = app.arg(0), app.arg(1), app.arg(2), app.arg(3)
            facts.append(z3.Implies(b <= a, app == th.empty))
            facts.append(z3.Implies(b == a + 1, app == z3.Select(arr, a)))
            bm1 = z3.simplify(b - 1)
            facts.append(z3.Implies(b > a + 1, app == th.cat(f(sep, arr, a, bm1), sep, z3.Select(arr, bm1))))
            if z3.is_app(arr) and arr.decl().kind() == z3.Z3_OP_STORE:
                arr0, i = arr.arg(0), arr.arg(1)
                facts.append(z3.Implies(z3.Or(i < a, i >= b), app == f(sep, arr0, a, b)))
            return facts
        if name in ("strip", "lstrip", "rstrip"):
            s = app.arg(0)
            f = app.decl()
            facts.append(f(app) == app)
            facts.append(th.length(app) <= th.length(s))
            for af in th.additive:
                facts.append(af(app) <= af(s))
            facts.append(z3.Implies(s == th.empty, app == th.empty))
            if name == "strip":
                used_axioms.add("str.strip.both")
                l, r = self.sfun("lstrip", S, S), self.sfun("rstrip", S, S)
                facts.append(app == l(r(s)))
                facts.append(app == r(l(s)))
            return facts
        return facts

    # ---- split
    def str_split(self, recv, args, kwargs):
        th = self.th
        S = th.Str
        s = self.z(recv)
        if not args or args[0] is None:
            f_len = self.sfun("split_ws#len", S, Int)
            f_arr = self.sfun("split_ws#arr", S, z3.ArraySort(Int, S))
            n, arr = f_len(s), f_arr(s)
            used_axioms.add("str.split_ws.words")
            self.pc.append(n >= 0)
            strip = self.sfun("strip", S, S)
            self.hyps.append(FAll("k", 0, n, lambda c, arr=arr: FT(z3.And(
                z3.Select(arr, c) != th.empty, strip(z3.Select(arr, c)) == z3.Select(arr, c))), "split() words"))
            return VList(n, arr, "str")
        sep = self.z(args[0])
        f_len = self.sfun("split_sep#len", S, S, Int)
        f_arr = self.sfun("split_sep#arr", S, S, z3.ArraySort(Int, S))
        n, arr = f_len(s, sep), f_arr(s, sep)
        used_axioms.add("str.split_sep.join")
        self.pc.append(n >= 1)
        self.pc.append(self.mk_joinr(sep, arr, z3.IntVal(0), n) == s)
        cont = self.sfun("contains", S, S, Bool)
        self.pc.append((n == 1) == z3.Not(cont(s, sep)))
        # no piece contains the separator (line model: the pieces are exactly the sep-free stretches)
        self.hyps.append(FAll("k", 0, n, lambda c, arr=arr: FT(z3.Not(cont(z3.Select(arr, c), sep))), "split pieces"))
        return VList(n, arr, "str")

    # ---- indexing / slicing of strings
    def str_index(self, base, idx, node=None):
        th = self.th
        s = self.z(base)
        i = self.zi(idx)
        n = th.length(s)
        if not self.spec:
            ok = z3.And(i >= -n, i < n)
            self.prove("noraise", "str_index_in_range", ok)
            self.pc.append(ok)
        i = z3.simplify(z3.If(i < 0, i + n, i))
        if th.name == "L1":
            return self.wrap(z3.SubString(s, i, 1), "str")
        f = self.sfun("char_at", th.Str, Int, th.Str)
        t = f(s, i)
        self.pc.append(th.length(t) == 1)
        return self.wrap(t, "str")

    def str_slice(self, base, lo, hi):
        th = self.th
        s = self.z(base)
        n = th.length(s)
        a = z3.IntVal(0) if lo is None else self.clamp(self.zi(lo), n)
        b = n if hi is None else self.clamp(self.zi(hi), n)
        a, b = z3.simplify(a), z3.simplify(b)
        if th.name == "L1":
            return self.wrap(z3.SubString(s, a, z3.If(b - a > 0, b - a, 0)), "str")
        f = self.sfun("substr", th.Str, Int, Int, th.Str)
        t = f(s, a, b)
        self.pc.append(th.length(t) == z3.If(b - a > 0, b - a, 0))
        for af in th.additive:
            self.pc.append(af(t) <= af(s))
        # s == s[:a] + s[a:]
        return self.wrap(t, "str")
