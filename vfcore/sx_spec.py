"""Spec mode: contract clauses are python expressions evaluated by the same translator as the
code, but total (no branching, no obligations) and with quantifier leaves."""
from __future__ import annotations

import ast

import z3

from .sx_base import GenError
from .theory import Bool, Int
from .values import (F, FAll, FAnd, FEx, FImp, FOr, FT, Sym, VFunc, VList, VObj, VOpt, VOptRefMap, VRefMap, VSet)

_parse_cache: dict[str, ast.AST] = {}


def parse_expr(src: str):
    t = _parse_cache.get(src)
    if t is None:
        t = ast.parse(src.strip(), mode="eval").body
        _parse_cache[src] = t
    return t


class SpecMixin:
    def spec_eval(self, clause, extra_env=None):
        """Evaluate a clause (string or callable(ex)) to an F / z3 Bool / python bool."""
        if callable(clause):
            return clause(self)
        saved_spec, saved_envs = self.spec, self.envs
        self.spec = True
        if extra_env:
            self.envs = list(self.envs) + [dict(extra_env)]
        try:
            v = self.eval(parse_expr(clause))
        finally:
            self.spec = saved_spec
            self.envs = saved_envs
        return self.as_formula(v)

    def spec_eval_value(self, src):
        saved = self.spec
        self.spec = True
        try:
            return self.eval(parse_expr(src))
        finally:
            self.spec = saved

    def as_formula(self, v):
        if isinstance(v, F):
            return v
        t = self.truth(v)
        return FT(self.b(t))

    def snapshot_envs(self):
        memo = {}

        def cp(v):
            if isinstance(v, (VList, VObj, VSet, VRefMap, VOptRefMap)):
                k = id(v)
                if k not in memo:
                    c = v.copy()
                    memo[k] = c
                    if isinstance(c, VObj):
                        for f, x in c.fields.items():
                            c.fields[f] = cp(x)
                return memo[k]
            if isinstance(v, list):
                k = id(v)
                if k not in memo:
                    memo[k] = [cp(x) for x in v]
                return memo[k]
            return v
        return [{k: cp(v) for k, v in env.items()} for env in self.envs]

    def with_envs(self, envs, fn):
        saved, saved_spec = self.envs, self.spec
        self.envs, self.spec = envs, True
        try:
            return fn()
        finally:
            self.envs, self.spec = saved, saved_spec

    # ---- quantifiers: all(P(j) for j in range(a,b)) / all(P(x) for x in xs)
    def sym_quant_impl(self, comp, g, seq, mapper, any_):
        if not self.spec:
            return self.code_quant(comp, g, seq, mapper, any_)
        envs = self.snapshot_envs()
        n = seq.length
        seq_c = seq.copy()
        unit, old_envs = self.unit, self.old_envs

        def body(c):
            saved_unit, saved_old = self.unit, self.old_envs
            self.unit, self.old_envs = unit, old_envs
            try:
                return body0(c)
            finally:
                self.unit, self.old_envs = saved_unit, saved_old

        def body0(c):
            def run():
                self.envs.append({})
                try:
                    x = mapper(self.wrap(c, "int"), self.list_get(seq_c, c))
                    self.bind_target(g.target, x)
                    conds = [self.as_formula(self.eval(cn)) for cn in g.ifs]
                    v = self.as_formula(self.eval(comp.elt))
                finally:
                    self.envs.pop()
                if conds:
                    ct = self.f_to_term(FAnd(conds))
                    if ct is None:
                        raise GenError("quantified filter")
                    return FAnd(conds + [v]) if any_ else FImp(FT(ct), v)
                return v
            return self.with_envs(list(envs), run)
        src = ast.unparse(comp)
        return (FEx if any_ else FAll)(getattr(g.target, "id", "k"), 0, n, body, src)

    def code_quant(self, comp, g, seq, mapper, any_):
        """any()/all() over a symbolic list inside real code: an uninterpreted boolean that is tied to
        its definition by a quantified hypothesis in both directions (skolem witness for the
        existential side)."""
        envs = self.snapshot_envs()
        seq_c = seq.copy()
        r = z3.FreshConst(Bool, "anyall")
        n = self.z(seq.length)

        def elem(c):
            def run():
                self.envs.append({})
                try:
                    self.bind_target(g.target, mapper(self.wrap(c, "int"), self.list_get(seq_c, c)))
                    if g.ifs:
                        raise GenError("filtered any/all over symbolic list in code")
                    v = self.eval(comp.elt)
                    return self.b(self.truth(v))
                finally:
                    self.envs.pop()
            return self.with_envs(list(envs), run)
        w = z3.FreshConst(Int, "wit")
        if any_:
            # r => elem(w) for a witness w in range;  (exists k. elem(k)) => r
            self.pc.append(z3.Implies(r, z3.And(0 <= w, w < n, elem(w))))
            self.hyps.append(FAll("k", 0, seq.length, lambda c: FImp(FT(elem(c)), FT(r)), "any()"))
        else:
            self.pc.append(z3.Implies(z3.Not(r), z3.And(0 <= w, w < n, z3.Not(elem(w)))))
            self.hyps.append(FAll("k", 0, seq.length, lambda c: FImp(FT(r), FT(elem(c))), "all()"))
        return self.wrap(r, "bool")

    # ---- spec functions
    def spec_call(self, name, n):
        c = self.unit.contract
        if name == "implies":
            a = self.eval(n.args[0])
            fa = self.as_formula(a)
            try:
                b = self.eval(n.args[1])
            except GenError:
                ta = self.f_to_term(fa)
                if ta is not None and not self.feasible(ta):
                    return True      # vacuous on this path (e.g. names not defined on an early-return path)
                raise
            fb = self.as_formula(b)
            ta, tb = self.f_to_term(fa), self.f_to_term(fb)
            if ta is not None and tb is not None:
                return self.wrap(z3.Implies(ta, tb), "bool")
            return FImp(fa, fb)
        if name == "iff":
            a, b = self.as_formula(self.eval(n.args[0])), self.as_formula(self.eval(n.args[1]))
            ta, tb = self.f_to_term(a), self.f_to_term(b)
            if ta is None or tb is None:
                raise GenError("iff over quantifiers")
            return self.wrap(ta == tb, "bool")
        if name == "ite":
            cnd = self.truth(self.eval(n.args[0]))
            return self.ite(cnd, self.eval(n.args[1]), self.eval(n.args[2]))
        if name == "old":
            a0 = n.args[0]
            if isinstance(a0, ast.Constant) and isinstance(a0.value, str):
                a0 = parse_expr(a0.value)
            saved_heap = self.heap
            self.heap = dict(self.heap_old) if self.heap_old else self.heap
            try:
                return self.with_envs(self.old_envs, lambda: self.eval(a0))
            finally:
                self.heap = saved_heap
        if name == "iter_old":      # value at the start of the current loop iteration (after havoc + invariant)
            a0 = n.args[0]
            if isinstance(a0, ast.Constant) and isinstance(a0.value, str):
                a0 = parse_expr(a0.value)
            if getattr(self, "iter_envs", None) is None:
                raise GenError("iter_old outside a loop iteration")
            return self.with_envs(self.iter_envs, lambda: self.eval(a0))
        if name == "joinr":
            sep, xs, a, b = (self.eval(x) for x in n.args)
            xs = self.as_vlist(xs, "str")
            return self.wrap(self.mk_joinr(self.z(sep), xs.arr, self.zi(a), self.zi(b)), "str")
        if name in ("strip", "lstrip", "rstrip"):
            return self.wrap(self.mk_strip(name, self.z(self.eval(n.args[0]))), "str")
        if name in ("endswith", "startswith"):
            s_, a_ = (self.eval(x) for x in n.args)
            return self.str_method(s_, name, [a_], {}, n)
        if name == "replace":
            s_, a_, b_ = (self.eval(x) for x in n.args)
            return self.str_method(s_, "replace", [a_, b_], {}, n)
        if name == "uf":
            # uf("name", "kind", args...)  generic uninterpreted spec function
            fname, kind = n.args[0].value, n.args[1].value
            args = [self.eval(a) for a in n.args[2:]]
            zs = [self.z(a) for a in args]
            rs = {"int": Int, "bool": Bool, "str": self.th.Str}[kind]
            f = self.th.uf("spec_" + fname, *([z.sort() for z in zs] + [rs]))
            return self.wrap(f(*zs), kind)
        if name == "call":
            fname = n.args[0].value
            spec = c.calls.get(fname)
            args = [self.eval(a) for a in n.args[1:]]
            kwargs = {k.arg: self.eval(k.value) for k in n.keywords}
            return self.unit.call_callee(self, fname, spec, args, kwargs, n, pure=True)
        if name in ("logres", "logarg", "logcount"):
            # the effect log: result / a recorded argument of the only entry named X; number of entries named X
            ents = [e for e in self.log if e[0] == n.args[0].value]
            if name == "logcount":
                return len(ents)
            if len(ents) != 1:
                raise GenError("%s(%r): %d log entries" % (name, n.args[0].value, len(ents)))
            return ents[0][2] if name == "logres" else ents[0][1][n.args[1].value]
        if name == "wit":
            # witness (ghost / local) of the last call of a callee that was used by contract
            return self.callee_envs[n.args[0].value][n.args[1].value]
        if name == "isinst":
            # isinst(ref, 'module.Class', ...) over the live Marko class hierarchy
            v = self.eval(n.args[0])
            import importlib
            classes = []
            for a in n.args[1:]:
                mod, _, cn = a.value.rpartition(".")
                classes.append(getattr(importlib.import_module(mod), cn))
            return self.unit.ref_isinstance(self, v, tuple(classes))
        if name in ("srcidx", "keptat"):
            # the ghost index map of a filtered comprehension (see Unit.sym_filter): srcidx(out, k) = position in the source
            # list of the k-th kept element; keptat(out, j) = position in `out` of source element j (when it is kept)
            lst = self.eval(n.args[0])
            fo = getattr(lst, "filter_of", None)
            if fo is None:
                raise GenError("%s: the list is not the result of a filtering comprehension" % name)
            return self.wrap(fo[1 if name == "srcidx" else 2](self.zi(self.eval(n.args[1]))), "int")
        if name == "filtersrc":
            lst = self.eval(n.args[0])
            fo = getattr(lst, "filter_of", None)
            if fo is None:
                raise GenError("filtersrc: the list is not the result of a filtering comprehension")
            return fo[0]
        if name == "isnone":
            v = self.eval(n.args[0])
            return self.eq(v, None)
        if name == "val":
            v = self.eval(n.args[0])
            return v.val if isinstance(v, VOpt) else v
        if name == "log":
            return self.unit.spec_log(self, n)
        # contract-local abbreviations
        d = self.unit.defs.get(name)
        if d is not None:
            params, body = d
            args = [self.eval(a) for a in n.args]
            if len(args) != len(params):
                raise GenError("def %s arity" % name)
            self.envs.append(dict(zip(params, args)))
            try:
                return self.eval(body)
            finally:
                self.envs.pop()
        sf = self.unit.spec_funcs.get(name)
        if sf is not None:
            return sf(self, *[self.eval(a) for a in n.args])
        return NotImplemented
