"""Canaries: textual mutations of the *current* source of a function under contract; each must be
refuted (an engine that accepts one is unsound or the contract is too weak) — DESIGN §2.11."""
from __future__ import annotations

import ast

from .contracts import REGISTRY
from .explore import Unit, explore
from .sx_base import GenError
from .vc import discharge


def mutate(ext, old, new, count=1):
    src = ext.src
    if src.count(old) < 1:
        return None
    src2 = src.replace(old, new, count)
    import textwrap
    tree = ast.parse(textwrap.dedent(src2))
    return tree.body[0]


def run_canary(cid, old, new, only=None):
    """Returns ('refuted', [oids]) | ('accepted', []) | ('skipped', reason)"""
    c = REGISTRY[cid]
    u0 = Unit(c)
    fdef = mutate(u0.ext, old, new)
    if fdef is None:
        return "skipped", "pattern %r not present" % old
    unit = Unit(c, fdef)
    try:
        res = explore(unit)
    except GenError as e:
        return "generror", str(e)
    bad = []
    from .vc import discharge_all
    obs = [o for o in res.obligations if only is None or any(x in o.oid for x in only)]
    if only is not None and not obs:
        return "skipped", "no obligation matches %r" % (only,)
    discharge_all(obs)
    for ob in obs:
        if ob.status != "discharged":
            bad.append((ob.oid, ob.status))
    return ("refuted" if any(s == "refuted" for _, s in bad) else ("undecided" if bad else "accepted")), bad
