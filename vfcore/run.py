"""Run the contract units: generate, discharge, report."""
from __future__ import annotations

import importlib
import os
import sys
import time

from . import VERIF, extract
from .contracts import REGISTRY
from .explore import Unit, explore
from .sx_base import GenError
from .vc import discharge


def load_contracts():
    extract.ensure_repo_on_path()
    sys.path.insert(0, VERIF)
    d = os.path.join(VERIF, "contracts")
    for f in sorted(os.listdir(d)):
        if f.endswith(".py") and f != "__init__.py":
            importlib.import_module("contracts." + f[:-3])


def run_unit(cid, fdef_override=None, verbose=False):
    c = REGISTRY[cid]
    unit = Unit(c, fdef_override)
    res = explore(unit)
    from .vc import discharge_all
    discharge_all(res.obligations)
    for ob in res.obligations:
        if verbose:
            print("  %-10s %s  (%.3fs %s)" % (ob.status, ob.oid, ob.time, ob.backend))
    return res


if __name__ == "__main__":
    load_contracts()
    pats = sys.argv[1:]
    for cid in REGISTRY:
        if pats and not any(p in cid for p in pats):
            continue
        t0 = time.time()
        try:
            res = run_unit(cid, verbose=True)
        except GenError as e:
            print("GENERROR", cid, e)
            continue
        n = len(res.obligations)
        d = sum(o.status == "discharged" for o in res.obligations)
        print("%s: paths=%d obligations=%d discharged=%d  %.2fs" % (cid, res.paths, n, d, time.time() - t0))
        for o in res.obligations:
            if o.status != "discharged":
                print("   !!", o.status, o.oid, o.src)
                if o.model is not None:
                    print("      model:", str(o.model)[:600])
