"""Expression evaluation (code mode and spec mode)."""
from __future__ import annotations

import ast
import enum

import z3

from .sx_base import GenError, PathEnd, RaiseSig
from .theory import NONE_REF, Int
from .values import (F, FAll, FAnd, FEx, FImp, FOr, FT, Sym, VChoice, VExc, VFunc, VList, VModule, VObj,
                     VOpaque, VOpt, VRefMap, VSet, VUnique)

CONST_TYPES = (int, str, bool, type(None), float, enum.Enum)


def is_const(v):
    if isinstance(v, CONST_TYPES):
        return True
    if isinstance(v, (tuple, frozenset)):
        return all(is_const(x) for x in v)
    return False


class ExprMixin:
    spec = False   # spec mode: total, no branching, no obligations

    # ------------------------------------------------------------------ names
    def lookup(self, name):
        for env in reversed(self.envs):
            if name in env:
                return env[name]
        return self.unit.global_value(self, name)

    def eval(self, n):
        m = getattr(self, "e_" + type(n).__name__, None)
        if m is None:
            raise GenError("unsupported expression %s at line %s" % (type(n).__name__, getattr(n, "lineno", "?")))
        return m(n)

    def e_Constant(self, n):
        return n.value

    def e_Name(self, n):
        return self.lookup(n.id)

    def e_NamedExpr(self, n):
        v = self.eval(n.value)
        self.envs[-1][n.target.id] = v
        return v

    def e_Tuple(self, n):
        return tuple(self.eval(e) for e in n.elts)

    def e_List(self, n):
        return [self.eval(e) for e in n.elts]

    def e_Set(self, n):
        vals = [self.eval(e) for e in n.elts]
        if all(is_const(v) for v in vals):
            return VSet({v: True for v in vals})
        raise GenError("set display with symbolic elements")

    def e_Dict(self, n):
        return {self.eval(k): self.eval(v) for k, v in zip(n.keys, n.values)}

    def e_Lambda(self, n):
        return VFunc("<lambda>", "closure", n, list(self.envs))

    def e_JoinedStr(self, n):
        parts = []
        for v in n.values:
            if isinstance(v, ast.Constant):
                parts.append(v.value)
            else:
                x = self.eval(v.value)
                parts.append(self.to_str(x))
        return self.concat(parts)

    def to_str(self, x):
        if isinstance(x, str):
            return x
        if isinstance(x, bool) or x is None:
            return str(x)
        if isinstance(x, int):
            return str(x)
        if isinstance(x, enum.Enum):
            return str(x)
        if isinstance(x, Sym):
            if x.k == "str":
                return x
            if x.k == "int":
                f = self.th.uf("int_to_str", Int, self.th.Str)
                return Sym(f(x.t), "str")
            if x.k in ("ref", "enum", "bool"):
                f = self.th.uf("str_of_" + x.k + (x.cls or ""), x.t.sort(), self.th.Str)
                return Sym(f(x.t), "str")
        if isinstance(x, VOpt):
            if not self.feasible(x.is_none):       # narrowed by the path (inside `if x is not None:`)
                return self.to_str(x.val)
            raise GenError("str() of optional")
        if isinstance(x, VExc):
            return self.fresh("str", "excmsg")
        raise GenError("str() of %r" % (x,))

    def concat(self, parts):
        if all(isinstance(p, str) for p in parts):
            return "".join(parts)
        return self.wrap(self.th.cat(*[self.z(p) for p in parts]), "str")

    # ------------------------------------------------------------------ operators
    def e_UnaryOp(self, n):
        v = self.eval(n.operand)
        if isinstance(n.op, ast.Not):
            if isinstance(v, F):
                t = self.f_to_term(v)
                if t is None:
                    raise GenError("negated quantifier")
                return self.wrap(z3.Not(t), "bool")
            t = self.truth(v)
            return (not t) if isinstance(t, bool) else self.wrap(z3.Not(t), "bool")
        if isinstance(n.op, ast.USub):
            if isinstance(v, int):
                return -v
            return self.wrap(-self.z(v), "int")
        raise GenError("unary op")

    def e_BinOp(self, n):
        a, b = self.eval(n.left), self.eval(n.right)
        return self.binop(n.op, a, b)

    def binop(self, op, a, b):
        if is_const(a) and is_const(b) and not isinstance(op, ast.Div):
            try:
                return {ast.Add: lambda: a + b, ast.Sub: lambda: a - b, ast.Mult: lambda: a * b,
                        ast.FloorDiv: lambda: a // b, ast.Mod: lambda: a % b}[type(op)]()
            except KeyError:
                raise GenError("binop %s" % type(op).__name__)
        if isinstance(op, ast.Add):
            if isinstance(a, list) and isinstance(b, list):
                return a + b
            if isinstance(a, (list, VList)) or isinstance(b, (list, VList)):
                return self.list_concat(a, b)
            ka, kb = self.kind_of(a), self.kind_of(b)
            if ka == "str" and kb == "str":
                return self.concat([a, b])
            if ka in ("int", "bool") and kb in ("int", "bool"):
                return self.wrap(self.zi(a) + self.zi(b), "int")
            raise GenError("+ on %s, %s" % (ka, kb))
        if isinstance(op, ast.Sub):
            return self.wrap(self.zi(a) - self.zi(b), "int")
        if isinstance(op, ast.Mult):
            if self.kind_of(a) == "str" or self.kind_of(b) == "str":
                s, k = (a, b) if self.kind_of(a) == "str" else (b, a)
                f = self.th.uf("str_repeat", self.th.Str, Int, self.th.Str)
                r = f(self.z(s), self.zi(k))
                if isinstance(s, str):       # len(s * k) == len(s) * max(k, 0) for a literal s
                    self.pc.append(self.th.length(r) == z3.If(self.zi(k) > 0, len(s) * self.zi(k), 0))
                return Sym(r, "str")
            return self.wrap(self.zi(a) * self.zi(b), "int")
        if isinstance(op, ast.Div):
            return self.unit.path_join(self, a, b)
        if isinstance(op, ast.FloorDiv):
            return self.wrap(self.zi(a) / self.zi(b), "int")
        if isinstance(op, ast.Mod):
            return self.wrap(self.zi(a) % self.zi(b), "int")
        raise GenError("binop %s" % type(op).__name__)

    def zi(self, v):
        if isinstance(v, bool):
            return z3.IntVal(int(v))
        if isinstance(v, Sym) and v.k == "bool":
            return z3.If(v.t, 1, 0)
        return self.z(v)

    def e_BoolOp(self, n):
        is_and = isinstance(n.op, ast.And)
        if self.spec:
            vals = []
            for v in n.values:
                try:
                    vals.append(self.eval(v))
                except GenError:
                    # a later operand may be undefined on this path (early return): fine if the earlier
                    # operands already decide the result under the path condition
                    if vals:
                        sofar = self.spec_bool(is_and, vals)
                        t = self.f_to_term(sofar) if isinstance(sofar, F) else self.b(self.truth(sofar))
                        if t is not None and not self.feasible(t if is_and else z3.Not(t)):
                            return not is_and
                    raise
            return self.spec_bool(is_and, vals)
        # code mode: short-circuit with value semantics
        v = None
        for i, e in enumerate(n.values):
            v = self.eval(e)
            if i == len(n.values) - 1:
                return v
            t = self.truth(v)
            d = self.branch(t, "boolop")
            if is_and and not d:
                return v if not isinstance(v, Sym) or v.k != "bool" else False
            if (not is_and) and d:
                return v if not isinstance(v, Sym) or v.k != "bool" else True
        return v

    def spec_bool(self, is_and, vals):
        fs = []
        for v in vals:
            if isinstance(v, F):
                fs.append(v)
            else:
                t = self.truth(v)
                fs.append(FT(self.b(t)))
        if all(isinstance(f, FT) for f in fs):
            ts = [f.t for f in fs]
            return self.wrap(z3.And(*ts) if is_and else z3.Or(*ts), "bool")
        return FAnd(fs) if is_and else FOr(fs)

    def e_IfExp(self, n):
        c = self.eval(n.test)
        t = self.truth(c)
        if isinstance(t, bool):
            return self.eval(n.body if t else n.orelse)
        if self.spec:
            a, b = self.eval(n.body), self.eval(n.orelse)
            return self.ite(t, a, b)
        if self.branch(t, "ifexp"):
            return self.eval(n.body)
        return self.eval(n.orelse)

    def ite(self, c, a, b):
        if isinstance(c, bool):
            return a if c else b
        if isinstance(a, F) or isinstance(b, F):
            fa = a if isinstance(a, F) else FT(self.b(self.truth(a)))
            fb = b if isinstance(b, F) else FT(self.b(self.truth(b)))
            return FAnd([FImp(FT(c), fa), FImp(FT(z3.Not(c)), fb)])
        if a is None and b is None:
            return None
        if a is None or b is None or isinstance(a, VOpt) or isinstance(b, VOpt):
            an = True if a is None else (a.is_none if isinstance(a, VOpt) else False)
            bn = True if b is None else (b.is_none if isinstance(b, VOpt) else False)
            av = None if a is None else (a.val if isinstance(a, VOpt) else a)
            bv = None if b is None else (b.val if isinstance(b, VOpt) else b)
            if av is None:
                av = bv
            if bv is None:
                bv = av
            return VOpt(z3.If(c, self.b(an), self.b(bn)), self.ite(c, av, bv))
        if isinstance(a, (list, VList)) or isinstance(b, (list, VList)):
            la, lb = self.as_vlist(a), self.as_vlist(b)
            if la.elem != lb.elem:
                raise GenError("ite of lists with different element kinds")
            if isinstance(la.elem, tuple):
                arr = tuple(z3.If(c, x, y) for x, y in zip(la.arr, lb.arr))
            else:
                arr = z3.If(c, la.arr, lb.arr)
            return VList(z3.If(c, self.z(la.length), self.z(lb.length)), arr, la.elem)
        ka, kb = self.kind_of(a), self.kind_of(b)
        if ka != kb and not ({ka, kb} <= {"int", "bool"}):
            raise GenError("ite of %s / %s" % (ka, kb))
        cls = a.cls if isinstance(a, Sym) else (b.cls if isinstance(b, Sym) else None)
        k = ka.split(":")[0]
        return self.wrap(z3.If(c, self.z(a), self.z(b)), k, cls)

    # ------------------------------------------------------------------ comparison
    def e_Compare(self, n):
        left = self.eval(n.left)
        res = None
        for op, rn in zip(n.ops, n.comparators):
            right = self.eval(rn)
            r = self.compare(op, left, right)
            if res is None:
                res = r
            else:
                if isinstance(res, bool) and isinstance(r, bool):
                    res = res and r
                else:
                    res = self.wrap(z3.And(self.b(self.truth(res)), self.b(self.truth(r))), "bool")
            left = right
        return res

    def compare(self, op, a, b):
        if isinstance(op, (ast.Eq, ast.Is)):
            return self.eq(a, b)
        if isinstance(op, (ast.NotEq, ast.IsNot)):
            r = self.eq(a, b)
            return (not r) if isinstance(r, bool) else self.wrap(z3.Not(r.t if isinstance(r, Sym) else r), "bool")
        if isinstance(op, ast.In):
            return self.contains(b, a)
        if isinstance(op, ast.NotIn):
            r = self.contains(b, a)
            return (not r) if isinstance(r, bool) else self.wrap(z3.Not(self.b(self.truth(r))), "bool")
        if is_const(a) and is_const(b):
            return {ast.Lt: a < b, ast.LtE: a <= b, ast.Gt: a > b, ast.GtE: a >= b}[type(op)]
        if self.kind_of(a) == "str" or self.kind_of(b) == "str":
            return self.str_order(op, a, b)
        if self.kind_of(a).startswith("ref") or self.kind_of(b).startswith("ref"):
            return self.ref_order(op, a, b)
        x, y = self.zi(a), self.zi(b)
        t = {ast.Lt: x < y, ast.LtE: x <= y, ast.Gt: x > y, ast.GtE: x >= y}[type(op)]
        return self.wrap(t, "bool")

    def ref_order(self, op, a, b):
        f = self.th.uf("ref_lt", a.t.sort(), b.t.sort(), z3.BoolSort())
        x, y = self.z(a), self.z(b)
        t = {ast.Lt: f(x, y), ast.Gt: f(y, x), ast.LtE: z3.Not(f(y, x)), ast.GtE: z3.Not(f(x, y))}[type(op)]
        return self.wrap(t, "bool")

    def str_order(self, op, a, b):
        if self.th.name == "L1":
            x, y = self.z(a), self.z(b)
            t = {ast.Lt: x < y, ast.LtE: x <= y, ast.Gt: y < x, ast.GtE: y <= x}[type(op)]
            return self.wrap(t, "bool")
        raise GenError("string ordering in L0")

    def eq(self, a, b):
        """Python == / is  (for the value kinds modelled they coincide)."""
        if isinstance(a, F) or isinstance(b, F):
            raise GenError("== on formulas")
        if isinstance(a, VChoice) or isinstance(b, VChoice):
            c, o = (a, b) if isinstance(a, VChoice) else (b, a)
            x = self.b(self.truth(self.eq(c.a, o)))
            y = self.b(self.truth(self.eq(c.b, o)))
            return self.wrap(z3.If(c.cond, x, y), "bool")
        if is_const(a) and is_const(b):
            if isinstance(a, bool) != isinstance(b, bool) and not (isinstance(a, int) and isinstance(b, int)):
                return False
            return a == b
        if a is None or b is None:
            o = b if a is None else a
            if isinstance(o, VOpt):
                return self.wrap(o.is_none, "bool")
            if isinstance(o, Sym) and o.k == "ref" and o.nullable:
                return self.wrap(o.t == NONE_REF, "bool")
            return False
        if isinstance(a, VOpt) or isinstance(b, VOpt):
            if isinstance(a, VOpt) and isinstance(b, VOpt):
                inner = self.b(self.truth(self.eq(a.val, b.val)))
                return self.wrap(z3.Or(z3.And(a.is_none, b.is_none),
                                       z3.And(z3.Not(a.is_none), z3.Not(b.is_none), inner)), "bool")
            o, x = (a, b) if isinstance(a, VOpt) else (b, a)
            inner = self.b(self.truth(self.eq(o.val, x)))
            return self.wrap(z3.And(z3.Not(o.is_none), inner), "bool")
        if isinstance(a, VUnique) or isinstance(b, VUnique):
            return a is b
        if isinstance(a, (VObj, VFunc, VModule)) or isinstance(b, (VObj, VFunc, VModule)):
            return a is b
        if isinstance(a, (tuple, list)) and isinstance(b, (tuple, list)):
            if type(a) is not type(b) or len(a) != len(b):
                return False
            rs = [self.eq(x, y) for x, y in zip(a, b)]
            if all(isinstance(r, bool) for r in rs):
                return all(rs)
            return self.wrap(z3.And(*[self.b(self.truth(r)) for r in rs]), "bool")
        if isinstance(a, (VList, list)) or isinstance(b, (VList, list)):
            if a is b:
                return True
            return self.list_eq(a, b)
        ka, kb = self.kind_of(a).split(":")[0], self.kind_of(b).split(":")[0]
        if ka != kb:
            if {ka, kb} <= {"int", "bool"}:
                return self.wrap(self.zi(a) == self.zi(b), "bool")
            if isinstance(a, enum.Enum) and isinstance(a, str) and kb == "str":
                return self.eq(a.value, b)
            if isinstance(b, enum.Enum) and isinstance(b, str) and ka == "str":
                return self.eq(a, b.value)
            return False
        return self.wrap(self.z(a) == self.z(b), "bool")

    def list_eq(self, a, b):
        la, lb = self.as_vlist(a), self.as_vlist(b)
        if la.elem != lb.elem:
            raise GenError("== on lists of different element kinds")
        if isinstance(la.length, int) and isinstance(lb.length, int):
            if la.length != lb.length:
                return False
            ts = []
            for i in range(la.length):
                ts.append(self.b(self.truth(self.eq(self.list_get(la, i), self.list_get(lb, i)))))
            return self.wrap(z3.And(*ts), "bool") if ts else True
        # one side of concrete length n (a literal such as ["-"]): len == n and element-wise equality, a quantifier-free term
        for x, y in ((la, lb), (lb, la)):
            if isinstance(x.length, int):
                ts = [self.z(y.length) == x.length]
                for i in range(x.length):
                    ts.append(self.b(self.truth(self.eq(self.list_get(x, i), self.list_get(y, i)))))
                return self.wrap(z3.And(*ts), "bool")
        if not self.spec:
            raise GenError("== on symbolic lists in code")
        lo, hi = 0, la.length
        body = lambda c: FT(self.b(self.truth(self.eq(self.list_get(la, c), self.list_get(lb, c)))))
        return FAnd([FT(self.z(la.length) == self.z(lb.length)), FAll("k", lo, hi, body, "list ==")])

    def contains(self, coll, x):
        if is_const(coll) and is_const(x):
            return x in coll
        if isinstance(coll, VRefMap):
            return self.wrap(z3.Select(coll.arr, self.z(x)), "bool")
        if type(coll).__name__ == "VOptRefMap":
            return self.wrap(z3.Select(coll.present, self.z(x)), "bool")
        if type(coll).__name__ == "VPredSet":
            return self.wrap(coll.member(self.z(x)), "bool")
        if isinstance(coll, VSet):
            if not is_const(x):
                ts = [z3.And(self.b(self.truth(self.eq(k, x))), self.b(m)) for k, m in coll.members.items()]
                return self.wrap(z3.Or(*ts), "bool") if ts else False
            m = coll.members.get(x, False)
            return m if isinstance(m, bool) else self.wrap(m, "bool")
        if isinstance(coll, (tuple, list, frozenset, set, dict)) :
            items = list(coll)
            rs = [self.eq(i, x) for i in items]
            if all(isinstance(r, bool) for r in rs):
                return any(rs)
            return self.wrap(z3.Or(*[self.b(self.truth(r)) for r in rs]), "bool")
        if self.kind_of(coll) == "str":
            if isinstance(coll, str) and not is_const(x):
                # character of a constant string
                rs = [self.eq(c, x) for c in dict.fromkeys(coll)]
                return self.wrap(z3.Or(*[self.b(self.truth(r)) for r in rs]), "bool") if rs else False
            return self.str_contains(coll, x)
        if isinstance(coll, VList):
            if self.spec:
                return FEx("k", 0, coll.length,
                           lambda c: FT(self.b(self.truth(self.eq(self.list_get(coll, c), x)))), "in list")
            # in code (a branch condition must be a term): a fresh Boolean c with a Skolem witness w,
            #   c -> 0 <= w < len and xs[w] == x        not c -> for all k < len: xs[k] != x
            c_ = z3.FreshConst(z3.BoolSort(), "inlist")
            w_ = z3.FreshConst(Int, "inlist_w")
            cc = coll.copy()
            self.pc.append(z3.Implies(c_, z3.And(0 <= w_, w_ < self.z(cc.length), self.b(self.truth(self.eq(self.list_get(cc, w_), x))))))
            self.hyps.append(FAll("k", 0, cc.length, lambda k: FT(z3.Implies(z3.Not(c_), z3.Not(self.b(self.truth(self.eq(self.list_get(cc, k), x)))))),
                                  "not in list"))
            return self.wrap(c_, "bool")
        if isinstance(coll, Sym) and coll.k == "ref":
            f = self.th.uf("member_%s_%s" % (coll.cls, self.kind_of(x)), coll.t.sort(), self.z(x).sort(), z3.BoolSort())
            return self.wrap(f(coll.t, self.z(x)), "bool")
        raise GenError("`in` on %r" % (coll,))

    def str_contains(self, s, sub):
        if self.th.name == "L1":
            return self.wrap(z3.Contains(self.z(s), self.z(sub)), "bool")
        f = self.th.uf("contains", self.th.Str, self.th.Str, z3.BoolSort())
        return self.wrap(f(self.z(s), self.z(sub)), "bool")

    # ------------------------------------------------------------------ attribute / subscript
    def e_Attribute(self, n):
        base = self.eval(n.value)
        return self.getattr(base, n.attr, n)

    def getattr(self, base, attr, node=None):
        if isinstance(base, VObj):
            if attr in base.fields:
                return base.fields[attr]
            m = self.unit.method_of(self, base, attr)
            if m is not None:
                return m
            raise GenError("no field %s on %s" % (attr, base.cls))
        if isinstance(base, VModule):
            return self.unit.module_attr(self, base, attr)
        if isinstance(base, VOpt):
            if not self.spec:
                self.deref(base, "attr ." + attr)
            return self.getattr(base.val, attr, node)
        if isinstance(base, enum.Enum):
            return getattr(base, attr)
        if isinstance(base, type) and issubclass(base, enum.Enum):
            return getattr(base, attr)
        if isinstance(base, Sym) and base.k == "ref":
            if base.nullable and not self.spec:
                self.prove("noraise", "not_none@attr ." + attr, base.t != NONE_REF, src=attr)
                self.pc.append(base.t != NONE_REF)
            return self.unit.ref_attr(self, base, attr)
        if isinstance(base, VExc):
            return self.fresh("str", "exc_" + attr)
        if isinstance(base, VOpaque):
            return VFunc(base.name + "." + attr, "unmodelled")
        if isinstance(base, VFunc) and base.kind == "unmodelled":
            return VFunc(base.name + "." + attr, "unmodelled")      # attribute of an unmodelled attribute (Path.parent.mkdir)
        if isinstance(base, VFunc) and base.kind == "callee":
            key = base.name + "." + attr
            if key in self.unit.contract.calls:
                return VFunc(key, "callee", self.unit.contract.calls[key])
            if self.unit.contract.unknown_calls == "effect":
                return VFunc(key, "unmodelled")
            raise GenError("attribute %s of callable %s has no spec" % (attr, base.name))
        if is_const(base) or isinstance(base, (list, dict, VList, Sym, VSet, VRefMap)):
            return VFunc(attr, "method", base)
        raise GenError("attribute %s of %r" % (attr, base))

    def deref(self, opt: VOpt, what):
        """Using an Optional as a value: obligation that it is not None (C12 no-raise)."""
        self.prove("noraise", "not_none@" + what, z3.Not(opt.is_none), src=what)
        self.pc.append(z3.Not(opt.is_none))

    def e_Subscript(self, n):
        base = self.eval(n.value)
        if isinstance(n.slice, ast.Slice):
            lo = self.eval(n.slice.lower) if n.slice.lower else None
            hi = self.eval(n.slice.upper) if n.slice.upper else None
            if n.slice.step is not None:
                raise GenError("slice step")
            return self.slice(base, lo, hi)
        idx = self.eval(n.slice)
        return self.index(base, idx, n)

    def index(self, base, idx, node=None):
        if isinstance(base, VOpt):
            if not self.spec:
                self.deref(base, "subscript")
            base = base.val
        if isinstance(base, VRefMap):
            return self.wrap(z3.Select(base.arr, self.z(idx)), base.valkind)
        if type(base).__name__ == "VOptRefMap":
            k = self.z(idx)
            if not self.spec:
                self.prove("noraise", "key_present@subscript", z3.Select(base.present, k), src="d[key]")
                self.pc.append(z3.Select(base.present, k))
            return VOpt(z3.Select(base.isnone, k), Sym(z3.Select(base.val, k), "ref", base.cls))
        if isinstance(base, dict):
            if is_const(idx):
                if idx in base:
                    return base[idx]
                if self.spec:
                    raise GenError("spec key")
                raise RaiseSig(VExc("KeyError"), "subscript")
            raise GenError("dict subscript with symbolic key")
        if isinstance(base, (list, tuple)):
            if isinstance(idx, int):
                if -len(base) <= idx < len(base):
                    return base[idx]
                if self.spec:
                    return self.list_get(self.as_vlist(base), idx)
                raise RaiseSig(VExc("IndexError"), "subscript")
            base = self.as_vlist(list(base))
        if isinstance(base, VList):
            i = self.zi(idx)
            n = self.z(base.length)
            if not self.spec:
                ok = z3.And(i >= -n, i < n)
                from .values import exc_isinstance
                if any(exc_isinstance("IndexError", h) for hs in self.try_stack for h in hs):
                    # an enclosing handler catches IndexError: out of range is a path, not an obligation
                    if not self.branch(ok, "index"):
                        raise RaiseSig(VExc("IndexError"), "subscript")
                else:
                    self.prove("noraise", "index_in_range", ok, src=ast.unparse(node) if node else "")
                    self.pc.append(ok)
            neg = z3.simplify(i < 0)
            if z3.is_true(neg):
                i = z3.simplify(i + n)
            elif not z3.is_false(neg) and not self.spec:
                # (clauses never use negative subscripts; they are not Python-normalised in spec mode)
                i = z3.If(i < 0, i + n, i)
            return self.list_get(base, i)
        if self.kind_of(base) == "str":
            return self.str_index(base, idx, node)
        raise GenError("subscript of %r" % (base,))

    def list_get(self, lst: VList, i):
        i = self.z(i) if not z3.is_expr(i) else i

        def sel(a):
            t = z3.Select(a, i)
            # beta-reduce a read of a lambda-defined list (concatenation, map): exposes the shifted index (i - n) of the
            # underlying lists as a term, so that hypotheses about them are instantiated there
            return z3.simplify(t) if z3.is_quantifier(a) and a.is_lambda() else t
        if isinstance(lst.elem, tuple):
            return tuple(self.wrap(sel(a), self.elem_kind(e), self.elem_cls(e))
                         for a, e in zip(lst.arr, lst.elem))
        return self.wrap(sel(lst.arr), self.elem_kind(lst.elem), self.elem_cls(lst.elem) or lst.cls)

    @staticmethod
    def elem_kind(e):
        return e.split(":")[0]

    @staticmethod
    def elem_cls(e):
        return e.split(":")[1] if ":" in e else None

    def as_vlist(self, v, elem=None):
        if isinstance(v, VList):
            return v
        if isinstance(v, VOpt) and not self.feasible(v.is_none):       # narrowed by the path (x is not None)
            return self.as_vlist(v.val, elem)
        if isinstance(v, tuple):
            v = list(v)
        if isinstance(v, list):
            if not v:
                if elem is None:
                    raise GenError("element kind of empty list unknown")
                arr = self.mk_arr(elem if isinstance(elem, str) else "tuple[%s]" % ",".join(elem), "empty!%d" % id(v))
                return VList(0, arr, elem)
            k = elem or self.kind_of(v[0] if not isinstance(v[0], tuple) else None)
            if isinstance(v[0], tuple):
                k = elem or tuple(self.kind_of(x) for x in v[0])
                arrs = list(self.mk_arr("tuple[%s]" % ",".join(k), "lit!%d" % id(v)))
                for i, tup in enumerate(v):
                    for j, x in enumerate(tup):
                        arrs[j] = z3.Store(arrs[j], i, self.z(x))
                return VList(len(v), tuple(arrs), k)
            arr = self.mk_arr(k, "lit!%d" % id(v))
            for i, x in enumerate(v):
                arr = z3.Store(arr, i, self.z(x))
            return VList(len(v), arr, k)
        raise GenError("not a list: %r" % (v,))

    def clamp(self, i, n):
        """python slice index clamping of i against length n (z3 terms)."""
        i = z3.If(i < 0, i + n, i)
        return z3.If(i < 0, 0, z3.If(i > n, n, i))

    def slice(self, base, lo, hi):
        if isinstance(base, VOpt):
            base = base.val
        if isinstance(base, (list, tuple, str)) and (lo is None or isinstance(lo, int)) and (hi is None or isinstance(hi, int)):
            return base[lo:hi]
        if isinstance(base, (list, tuple, VList)):
            l = self.as_vlist(base)
            n = self.z(l.length)
            a = z3.IntVal(0) if lo is None else self.clamp(self.zi(lo), n)
            b = n if hi is None else self.clamp(self.zi(hi), n)
            a, b = z3.simplify(a), z3.simplify(b)
            length = z3.simplify(z3.If(b - a > 0, b - a, 0))
            k = z3.Int("k!slice")
            if isinstance(l.elem, tuple):
                arr = tuple(z3.Lambda([k], z3.Select(x, k + a)) for x in l.arr)
            else:
                arr = z3.Lambda([k], z3.Select(l.arr, k + a)) if not z3.is_int_value(a) or a.as_long() != 0 else l.arr
            ln = length.as_long() if z3.is_int_value(length) else length
            cls = "%s[%s:%s]" % (l.cls, lo, hi) if l.cls else None
            out = VList(ln, arr, l.elem, cls)
            base, off = getattr(l, "slice_of", (l.arr, z3.IntVal(0)))
            out.slice_of = (base, z3.simplify(off + a))     # xs[a:b] is a window of the base array
            return out
        if self.kind_of(base) == "str":
            return self.str_slice(base, lo, hi)
        raise GenError("slice of %r" % (base,))

    def list_concat(self, a, b):
        la, lb = self.as_vlist(a, getattr(b, "elem", None)), self.as_vlist(b, getattr(a, "elem", None))
        if la.elem != lb.elem:
            raise GenError("list + of different element kinds")
        n = self.z(la.length)
        k = z3.Int("k!cat")
        if isinstance(la.elem, tuple):
            arr = tuple(z3.Lambda([k], z3.If(k < n, z3.Select(x, k), z3.Select(y, k - n)))
                        for x, y in zip(la.arr, lb.arr))
        else:
            arr = z3.Lambda([k], z3.If(k < n, z3.Select(la.arr, k), z3.Select(lb.arr, k - n)))
        tot = z3.simplify(n + self.z(lb.length))
        return VList(tot.as_long() if z3.is_int_value(tot) else tot, arr, la.elem)

    # ------------------------------------------------------------------ comprehensions
    def e_ListComp(self, n):
        return self.comprehension(n, as_list=True)

    def e_SetComp(self, n):
        """{f(x) for x in xs}: over a concrete sequence a python set of the values (constants only); over a symbolic list a
        set known through an uninterpreted membership predicate of which every produced element is a member"""
        lst = self.comprehension(n, as_list=True)
        if isinstance(lst, list):
            if all(is_const(x) for x in lst):
                return set(lst)
            raise GenError("set comprehension with symbolic elements over a concrete sequence")
        from .values import VPredSet
        ek = lst.elem if isinstance(lst.elem, str) else None
        if ek not in ("int", "str"):
            raise GenError("set comprehension of %r" % (lst.elem,))
        srt = Int if ek == "int" else self.th.Str
        marr = z3.Const("setcomp!%d" % lst.uid, z3.ArraySort(srt, z3.BoolSort()))      # (an array, so that membership tests are
        member = lambda t: z3.Select(marr, t)                                           # Select terms: instantiation candidates)
        lc = lst.copy()
        self.hyps.append(FAll("k", 0, lc.length, lambda c: FT(member(self.z(self.list_get(lc, c)))), "set comprehension"))
        return VPredSet(member, ek)

    def e_GeneratorExp(self, n):
        return self.comprehension(n, as_list=True)

    def comprehension(self, n, as_list=True):
        out = self.comprehension0(n, as_list)
        if not self.spec and not getattr(self, "in_ghost", False):
            # ghost: the k-th list a comprehension of the *code* produced on this path is `_comp<k>` for the clauses
            # (like `_it<k>` for a loop's sequence), so that a clause can speak about the very list the code built
            k = getattr(self, "comp_count", 0)
            self.comp_count = k + 1
            snap = out.copy() if hasattr(out, "copy") else out
            if getattr(out, "filter_of", None) is not None and snap is not out:
                snap.filter_of = out.filter_of
            self.envs[0]["_comp%d" % k] = snap
            self.last_comp = snap
        return out

    def comprehension0(self, n, as_list=True):
        if len(n.generators) != 1:
            raise GenError("nested comprehension")
        g = n.generators[0]
        it = self.eval(g.iter)
        if isinstance(it, str):
            it = list(it)
        if isinstance(it, dict):
            it = list(it)
        if isinstance(it, VSet):
            raise GenError("comprehension over symbolic set")
        if isinstance(it, (list, tuple)):
            out = []
            for x in it:
                self.envs.append({})
                try:
                    self.bind_target(g.target, x)
                    keep = True
                    for c in g.ifs:
                        t = self.truth(self.eval(c))
                        if not isinstance(t, bool):
                            if self.spec:
                                raise GenError("symbolic filter in spec comprehension")
                            t = self.branch(t, "comp-if")
                        if not t:
                            keep = False
                            break
                    if keep:
                        out.append(self.eval(n.elt))
                finally:
                    self.envs.pop()
            return out
        if isinstance(it, VList):
            return self.unit.sym_comprehension(self, n, g, it)
        raise GenError("comprehension over %r" % (it,))

    def bind_target(self, target, v):
        if isinstance(target, ast.Name):
            self.envs[-1][target.id] = v
            return
        if isinstance(target, (ast.Tuple, ast.List)):
            if isinstance(v, (tuple, list)) and len(v) == len(target.elts):
                for t, x in zip(target.elts, v):
                    self.bind_target(t, x)
                return
            raise GenError("tuple unpacking of %r" % (v,))
        raise GenError("binding target %s" % type(target).__name__)
