"""Helpers for modelling calls that mutate / observe an opaque object (a Marko document, a file
system): the object's abstract state is threaded through uninterpreted transformer functions, so
that the *order* and the *arguments* of the mutating calls are visible in the result term."""
from __future__ import annotations

import z3

from .contracts import Callee
from .sx_base import GenError, RaiseSig
from .theory import Ref
from .values import Sym, VExc, VFunc, VOpt


def _bind(sig, args, kwargs, name):
    bound = {}
    if len(args) > len(sig):
        raise GenError("too many args for %s" % name)
    for k, v in zip(sig, args):
        bound[k] = v
    for k, v in kwargs.items():
        if k in bound or k not in sig:
            raise RaiseSig(VExc("TypeError"), "bad keyword %s for %s" % (k, name))
        bound[k] = v
    return bound


def zarg(ex, a):
    if isinstance(a, VFunc):
        return z3.Const("fn!%s" % getattr(a, "qual", a.name), Ref)
    if isinstance(a, str) and a.startswith("fn!"):
        return z3.Const(a, Ref)
    if a is None:
        return z3.Const("none!", Ref)
    return ex.z(a)


def state_of(ex, obj: Sym):
    return ex.objstate.get(obj.t.get_id(), obj.t)


def mutator(name, sig, obj="doc", defaults=None, raises=()):
    """obj.state := eff_name(obj.state, other args...)"""
    def handler(ex, node, args, kwargs):
        b = _bind(sig, args, kwargs, name)
        for k, v in (defaults or {}).items():
            b.setdefault(k, v)
        o = b[obj]
        cur = state_of(ex, o)
        others = [zarg(ex, b[k]) for k in sig if k != obj and k in b]
        f = ex.th.uf("eff_" + name, *([Ref] + [x.sort() for x in others] + [Ref]))
        ex.objstate[o.t.get_id()] = f(cur, *others)
        ex.log.append((name, b, None))
        if raises and ex.choose(len(raises) + 1, "raise@" + name):
            raise RaiseSig(VExc(raises[0]), name)
        return None
    return Callee("custom", handler=handler)


def observer(name, sig, obj, ret="str", cls=None, raises=()):
    """result = obs_name(obj.state, other args...)"""
    def handler(ex, node, args, kwargs):
        b = _bind(sig, args, kwargs, name)
        others = []
        for k in sig:
            if k not in b:
                continue
            v = b[k]
            if k == obj or (isinstance(v, Sym) and v.k == "ref" and v.t.get_id() in ex.objstate):
                others.append(state_of(ex, v))
            else:
                others.append(zarg(ex, v))
        f = ex.th.uf("obs_" + name, *([x.sort() for x in others] + [ex.sort_of(ret)]))
        r = ex.wrap(f(*others), ret.split(":")[0], ret.split(":")[1] if ":" in ret else cls)
        ex.log.append((name, b, r))
        if raises and ex.choose(len(raises) + 1, "raise@" + name):
            raise RaiseSig(VExc(raises[0]), name)
        return r
    return Callee("custom", handler=handler)


def U(ex, name, ret, *args):
    """Spec-side constructor of the same uninterpreted terms."""
    zs = [zarg(ex, a) if not z3.is_expr(a) else a for a in args]
    f = ex.th.uf(name, *([z.sort() for z in zs] + [ex.sort_of(ret) if isinstance(ret, str) else ret]))
    return f(*zs)
