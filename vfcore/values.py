"""Symbolic values of the executor.

A value is either a plain Python constant (int, bool, str, None, tuple, Enum member, concrete
list/dict whose elements are values) or one of the wrappers below.
"""
from __future__ import annotations

import itertools

import z3

_ids = itertools.count(1)


class Sym:
    """Symbolic scalar: k in {'int','bool','str','ref','enum'}; cls = python class name for refs/enums."""

    __slots__ = ("t", "k", "cls", "nullable")

    def __init__(self, t, k, cls=None, nullable=False):
        self.t, self.k, self.cls, self.nullable = t, k, cls, nullable     # nullable: a ref that may be the NONE_REF sentinel

    def __repr__(self):
        return "Sym<%s:%s>" % (self.k, self.t)


class VOpt:
    """Optional value: None when is_none holds, else val."""

    __slots__ = ("is_none", "val")

    def __init__(self, is_none, val):
        self.is_none, self.val = is_none, val

    def __repr__(self):
        return "VOpt<%s,%r>" % (self.is_none, self.val)


class VList:
    """List of symbolic length.  elem: 'str'|'int'|'bool'|'ref' or a tuple of those (tuple elements,
    arr is then a tuple of arrays).  Mutable, identity = python identity (aliasing by assignment)."""

    def __init__(self, length, arr, elem, cls=None):
        self.length, self.arr, self.elem, self.cls = length, arr, elem, cls
        self.uid = next(_ids)

    def copy(self):
        c = VList(self.length, self.arr, self.elem, self.cls)
        c.filter_of = getattr(self, "filter_of", None)
        return c

    def __repr__(self):
        return "VList<%s,len=%s>" % (self.elem, self.length)


class VObj:
    """Record with concrete identity and a fixed set of named fields (dataclass instance, argparse
    namespace, renderer `self`, ...)."""

    def __init__(self, cls, fields=None):
        self.cls = cls
        self.fields = dict(fields or {})
        self.uid = next(_ids)

    def copy(self):
        return VObj(self.cls, dict(self.fields))

    def __repr__(self):
        return "VObj<%s %s>" % (self.cls, sorted(self.fields))


class VSet:
    """Set over a concrete universe with symbolic membership."""

    def __init__(self, members=None):
        self.members = dict(members or {})     # const -> z3 Bool | python bool

    def copy(self):
        return VSet(self.members)


class VRefMap:
    """map from opaque refs to bool/int (a set of refs is a map to bool); symbolic, array-backed"""

    def __init__(self, arr, valkind):
        self.arr, self.valkind = arr, valkind

    def copy(self):
        return VRefMap(self.arr, self.valkind)


class VPredSet:
    """a set of ints / strings known only through its membership predicate (result of a set comprehension over a symbolic
    list): member(x) is an uninterpreted Boolean function, every element the comprehension produces is a member"""

    def __init__(self, member, kind):
        self.member, self.kind = member, kind

    def copy(self):
        return self


class VOptRefMap:
    """dict from opaque refs to Optional[ref] (a cache of possibly absent results): three arrays -- key present, stored
    value is None, stored value"""

    def __init__(self, present, isnone, val, cls=None):
        self.present, self.isnone, self.val, self.cls = present, isnone, val, cls

    def copy(self):
        return VOptRefMap(self.present, self.isnone, self.val, self.cls)


class VFunc:
    """Callable value: a repo function/closure (fdef + closure env), a parameter with a spec, ..."""

    def __init__(self, name, kind, payload=None, env=None):
        self.name, self.kind, self.payload, self.env = name, kind, payload, env

    def __repr__(self):
        return "VFunc<%s:%s>" % (self.kind, self.name)


class VModule:
    def __init__(self, name):
        self.name = name

    def __repr__(self):
        return "VModule<%s>" % self.name


class VUnique:
    """`object()` sentinel."""

    def __init__(self, tag="obj"):
        self.tag = tag
        self.uid = next(_ids)


class VChoice:
    """value_if if cond else value_else, for values of different kinds (argparse sentinel defaults)."""

    def __init__(self, cond, a, b):
        self.cond, self.a, self.b = cond, a, b


class VOpaque:
    """Result of a call the contract does not model (only with Contract.unknown_calls == 'effect'):
    every use of it is again an unmodelled effect."""

    def __init__(self, name):
        self.name = name


class VCtxMgr:
    def __init__(self, enter, exit_):
        self.enter, self.exit = enter, exit_


class VExc:
    """Exception value (class name + args)."""

    def __init__(self, cls, args=()):
        self.cls, self.args = cls, args

    def __repr__(self):
        return "VExc<%s>" % self.cls


# ---- formulas of spec mode (quantifier leaves are instantiated / skolemised by the engine)
class F:
    pass


class FT(F):
    def __init__(self, t):
        self.t = t


class FAnd(F):
    def __init__(self, parts):
        self.parts = parts


class FOr(F):
    def __init__(self, parts):
        self.parts = parts


class FImp(F):
    def __init__(self, a, b):
        self.a, self.b = a, b


class FAll(F):
    """forall v in [lo,hi): body(v)   (body: python callable  z3 Int -> F)"""

    def __init__(self, var, lo, hi, body, src=""):
        self.var, self.lo, self.hi, self.body, self.src = var, lo, hi, body, src


class FEx(F):
    def __init__(self, var, lo, hi, body, src=""):
        self.var, self.lo, self.hi, self.body, self.src = var, lo, hi, body, src


EXC_PARENTS = {
    "BaseException": None, "Exception": "BaseException", "ValueError": "Exception",
    "OSError": "Exception", "FileNotFoundError": "OSError", "IsADirectoryError": "OSError",
    "PermissionError": "OSError", "UnicodeDecodeError": "ValueError", "UnicodeError": "ValueError",
    "TypeError": "Exception", "KeyError": "LookupError", "IndexError": "LookupError",
    "LookupError": "Exception", "AssertionError": "Exception", "AttributeError": "Exception",
    "TOMLDecodeError": "ValueError", "StopIteration": "Exception", "RuntimeError": "Exception",
    "PackageNotFoundError": "ModuleNotFoundError", "ModuleNotFoundError": "ImportError",
    "ImportError": "Exception", "KeyboardInterrupt": "BaseException", "SystemExit": "BaseException",
}


def exc_isinstance(cls, parent):
    while cls is not None:
        if cls == parent:
            return True
        cls = EXC_PARENTS.get(cls, "Exception" if cls not in ("BaseException",) else None)
    return False
