"""`vf check <property> --tier quick|thorough` — one check per property (DESIGN §2.1)."""
from __future__ import annotations

import argparse
import hashlib
import importlib
import json
import multiprocessing as mp
import os
import sys
import time
import traceback

from . import REPO, VERIF, extract

EXIT_HELD, EXIT_VIOLATION, EXIT_UNDECIDED, EXIT_CRASH = 0, 1, 2, 3
OUT = os.environ.get("VF_OUT", VERIF)      # evidence/ and replays/ go here (seed experiments redirect it)


def clause_props(c):
    out = set(c.props)
    for group in (c.requires, c.ensures, c.ensures_raise):
        for cl in group.values():
            cl = c.clause(cl)
            out |= set(cl.props or [])
    for lp in c.loops.values():
        for cl in list(lp.inv.values()) + list(lp.body_ensures.values()):
            out |= set(c.clause(cl).props or [])
    for d in c.at_call.values():
        for cl in d.values():
            out |= set(c.clause(cl).props or [])
    return out


def is_format_path(cid):
    return cid.startswith(("flowmark.linewrapping", "flowmark.formats", "flowmark.transforms", "flowmark.typography"))


def _unit_worker(job):
    """Runs in a pool process: generate + discharge (a shard of) one unit; returns picklable records."""
    cid, shard, nshards = job
    from .run import load_contracts
    from .contracts import REGISTRY
    from .explore import Unit, explore
    from .sx_base import GenError
    from .vc import discharge, smtlib
    from .sx_str import used_axioms
    t0 = time.time()
    try:
        if not REGISTRY:
            load_contracts()
        c = REGISTRY[cid]
        unit = Unit(c)
        res = explore(unit)
        recs = []
        sample = None
        from .vc import discharge_all
        discharge_all(res.obligations, shard=shard, nshards=nshards)
        for ob in res.obligations:
            if ob.status is None:
                continue
            props_ = list(ob.props or [])
            if ob.kind in ("noraise", "variant") and is_format_path(cid) and "C12" not in props_:
                props_.append("C12")       # every no-raise / termination obligation of the formatting path carries C12
            rec = {"oid": ob.oid, "status": ob.status, "kind": ob.kind, "label": ob.label,
                   "props": props_, "finding": ob.finding, "time": round(ob.time or 0, 4),
                   "backend": ob.backend, "src": (ob.src or "")[:300], "unit": cid}
            if ob.status != "discharged":
                rec["model"] = str(ob.model)[:4000]
                rec["decoded"] = decode_model(ob)
            recs.append(rec)
            if sample is None and ob.status == "discharged" and ob.kind in ("post", "inv-preserve"):
                try:
                    sample = {"oid": ob.oid, "smtlib": smtlib(ob, ob.detail)[:3000]}
                except Exception:
                    pass
        return {"cid": cid, "ok": True, "records": recs, "paths": res.paths, "gen_time": res.gen_time,
                "shard": shard, "n_generated": len(res.obligations),
                "wall": time.time() - t0, "sha": unit.ext.sha, "file": unit.ext.path, "sample": sample,
                "axioms": sorted(used_axioms), "strings": c.strings, "n_loops": unit.n_loops}
    except GenError as e:
        return {"cid": cid, "ok": False, "error": "generation: " + str(e), "wall": time.time() - t0}
    except LookupError as e:
        return {"cid": cid, "ok": False, "error": "drift: " + str(e), "wall": time.time() - t0}
    except Exception:
        return {"cid": cid, "ok": False, "error": "crash: " + traceback.format_exc()[-1500:], "wall": time.time() - t0}


def decode_model(ob):
    """Values of the function's parameters (and free inputs) in the solver's counter-model."""
    m = ob.model
    if m is None or isinstance(m, str):
        return None
    import z3
    out = {}
    try:
        for d in m.decls():
            name = d.name()
            if "!" in name and not name.startswith(("given!", "val!")):
                continue
            if d.arity() == 0:
                out[name] = str(m[d])
    except Exception:
        return None
    return out


def _canary_worker(job):
    cid, old, new, only = job
    from .run import load_contracts
    from .contracts import REGISTRY
    from .canary import run_canary
    try:
        if not REGISTRY:
            load_contracts()
        st, info = run_canary(cid, old, new, only)
        return {"cid": cid, "old": old[:80], "new": new[:80], "status": st,
                "info": [list(x) for x in info][:3] if isinstance(info, list) else str(info)[:300]}
    except Exception:
        return {"cid": cid, "old": old[:80], "new": new[:80], "status": "crash", "info": traceback.format_exc()[-800:]}


def load_findings():
    p = os.path.join(VERIF, "known_findings.jsonl")
    out = []
    if os.path.exists(p):
        for line in open(p):
            line = line.strip()
            if line and not line.startswith("#"):
                out.append(json.loads(line))
    return out


def main(argv=None):
    ap = argparse.ArgumentParser(prog="vf")
    sub = ap.add_subparsers(dest="cmd", required=True)
    c = sub.add_parser("check")
    c.add_argument("prop")
    c.add_argument("--tier", default=os.environ.get("VERIF_TIER", "quick"), choices=["quick", "thorough"])
    c.add_argument("-v", action="store_true")
    r = sub.add_parser("replay")
    r.add_argument("path")
    a = ap.parse_args(argv)
    if a.cmd == "replay":
        from .replay import replay_file
        return replay_file(a.path)
    return check(a.prop, a.tier, a.v)


def check(prop, tier, verbose=False):
    t_start = time.time()
    seed = int(os.environ.get("VERIF_SEED", "0") or 0)
    from .run import load_contracts
    from .contracts import REGISTRY
    try:
        load_contracts()
    except Exception:
        traceback.print_exc()
        print("RESULT %s crashed (contracts failed to load)" % prop)
        return EXIT_CRASH
    cids = [cid for cid, c in REGISTRY.items() if prop in clause_props(c)
            or (prop == "C12" and is_format_path(cid) and (c.loops or c.strings == "L1"))]
    try:
        pm = importlib.import_module("props." + prop)
    except ModuleNotFoundError:
        pm = None
    jobs_canary = []
    for cid in cids:
        cs = [k for k in REGISTRY[cid].canaries if prop in ((k[2] if len(k) > 2 else None) or REGISTRY[cid].props)]
        if tier == "quick":
            cs = cs[:2]
        jobs_canary += [(cid, k[0], k[1], k[3] if len(k) > 3 else None) for k in cs]
    ctx = mp.get_context("fork")
    with ctx.Pool(16) as pool:
        jobs = []
        for cid in cids:
            n = max(1, REGISTRY[cid].shards)
            jobs += [(cid, i, n) for i in range(n)]
        # big sharded units first
        jobs.sort(key=lambda j: -j[2])
        r_units = pool.map_async(_unit_worker, jobs, chunksize=1)
        r_can = pool.map_async(_canary_worker, jobs_canary, chunksize=1)
        # bounded layer runs in this process meanwhile
        bounded = None
        berr = None
        if pm is not None and hasattr(pm, "bounded"):
            try:
                bounded = pm.bounded(tier, seed)
            except Exception:
                berr = traceback.format_exc()[-2000:]
        static_recs = None
        serr = None
        if pm is not None and hasattr(pm, "static_obligations"):
            try:
                static_recs = pm.static_obligations(tier)
            except Exception:
                serr = traceback.format_exc()[-2000:]
        units = merge_shards(r_units.get())
        if static_recs is not None:
            units.append({"cid": "static:" + prop, "ok": True, "paths": 0, "gen_time": 0.0, "wall": 0.0, "sha": "-",
                          "file": "src/flowmark/**", "sample": None, "axioms": [], "strings": "ST", "n_loops": 0,
                          "n_generated": len(static_recs),
                          "records": [{"oid": r["oid"], "status": r["status"], "kind": "frame", "label": r["oid"].split("/")[-1],
                                       "props": [prop], "finding": None, "time": 0.0, "backend": "static-ast",
                                       "src": r["src"], "unit": "static:" + prop, "model": r.get("detail", ""),
                                       "decoded": None} for r in static_recs]})
        if serr:
            units.append({"cid": "static:" + prop, "ok": False, "error": "static analysis crashed: " + serr, "wall": 0})
        canaries = r_can.get()
        # a canary that was not refuted is run once more, alone (load-induced solver timeouts must not decide it)
        for k, (job, c) in enumerate(zip(jobs_canary, canaries)):
            if c["status"] not in ("refuted", "skipped"):
                c2 = _canary_worker(job)
                c2["first_attempt"] = c["status"]
                canaries[k] = c2
    return report(prop, tier, seed, units, canaries, bounded, berr, pm, t_start, verbose)


def merge_shards(parts):
    out = {}
    for p in parts:
        cur = out.get(p["cid"])
        if cur is None:
            out[p["cid"]] = p
            continue
        if not p["ok"]:
            out[p["cid"]] = p if cur["ok"] else cur
            continue
        if not cur["ok"]:
            continue
        cur["records"] += p["records"]
        cur["wall"] = max(cur["wall"], p["wall"])
        cur["sample"] = cur.get("sample") or p.get("sample")
        cur["axioms"] = sorted(set(cur["axioms"]) | set(p["axioms"]))
    for u in out.values():
        if u["ok"] and len(u["records"]) != u["n_generated"]:
            u["ok"], u["error"] = False, "shard merge lost obligations (%d of %d)" % (len(u["records"]), u["n_generated"])
    return list(out.values())


def report(prop, tier, seed, units, canaries, bounded, berr, pm, t_start, verbose):
    from .contracts import REGISTRY
    findings = [f for f in load_findings() if f.get("property") == prop or prop in f.get("properties", [])]
    known = [f for f in findings if f.get("status", "known") == "known"]
    crashed = [u for u in units if not u["ok"]]
    recs = [r for u in units if u["ok"] for r in u["records"] if prop in r["props"]]
    lines = []
    violations = []
    undecided = []
    known_hit = {}
    for r in recs:
        if r["status"] == "discharged":
            if verbose:
                print("PROVED", r["oid"])
            continue
        if r["status"] == "refuted":
            kf = match_finding(r, known)
            if kf is not None:
                known_hit.setdefault(kf["id"], []).append(r["oid"])
                continue
            violations.append(r)
        else:
            kf = match_finding(r, known)
            if kf is not None:
                # an obligation of a recorded finding class that the solver left open this run: the finding stands on its
                # replayed witness (below), the open verdict is noted in the evidence and does not change the exit code
                known_hit.setdefault(kf["id"], []).append(r["oid"] + " (undecided this run)")
                continue
            undecided.append(r)
    # bounded layer results
    b_viol = []
    if bounded:
        for v in bounded.get("violations", []):
            kf = match_bounded_finding(v, known)
            if kf is not None:
                known_hit.setdefault(kf["id"], []).append("bounded:" + v.get("clause", "?"))
                continue
            b_viol.append(v)
    # canaries: every one must be refuted
    bad_canaries = [c for c in canaries if c["status"] in ("accepted", "crash", "generror")]
    # output
    # recorded witnesses are replayed on the real code: a finding is reported only while its witness still fails
    wit = {}
    if pm is not None and hasattr(pm, "witnesses"):
        try:
            wit = pm.witnesses()
        except Exception:
            wit = {}
            print("CHECKER-ERROR witness replay crashed:\n" + traceback.format_exc()[-1500:])
    for f in known:
        if f["id"] in known_hit or wit.get(f["id"]):
            known_hit.setdefault(f["id"], [])
            print("KNOWN-FINDING: property=%s %s" % (prop, f["what"]))
    replay_dir = os.path.join(OUT, "replays")
    os.makedirs(replay_dir, exist_ok=True)
    n_viol = 0
    for r in violations:
        n_viol += 1
        path = write_replay(replay_dir, prop, r, units)
        rp = try_replay(prop, r, pm)
        if rp and rp.get("reproduced"):
            _update_replay(path, rp)
            print("VIOLATION property=%s replay=%s" % (prop, path))
        else:
            print("VIOLATION property=%s replay=%s no-failing-input-found" % (prop, path))
    per_clause = {}
    for v in b_viol:
        n_viol += 1
        k = per_clause[v.get("clause")] = per_clause.get(v.get("clause"), 0) + 1
        if k > 25:          # every violation counts; only the first 25 per clause get a replay file and a line
            continue
        path = write_bounded_replay(replay_dir, prop, v)
        print("VIOLATION property=%s replay=%s" % (prop, path))
    for c, k in per_clause.items():
        if k > 25:
            print("  (+%d more bounded violations of clause %s, not listed)" % (k - 25, c))
    for r in undecided:
        print("UNDECIDED %s %s" % (r["oid"], (r.get("model") or "")[:80]))
    for u in crashed:
        print("CHECKER-ERROR %s: %s" % (u["cid"], u["error"]))
    for c in bad_canaries:
        print("CHECKER-ERROR canary not refuted (%s): %s: %r -> %r %s" % (c["status"], c["cid"], c["old"], c["new"], c["info"]))
    if berr:
        print("CHECKER-ERROR bounded layer crashed:\n" + berr)
    n_ob = len(recs)
    n_dis = sum(r["status"] == "discharged" for r in recs)
    n_known = sum(len(v) for v in known_hit.values())
    if n_ob == 0 and not (bounded and bounded.get("evaluations")):
        print("CHECKER-ERROR no obligations generated for %s (vacuity guard)" % prop)
        code = EXIT_CRASH
    elif n_viol:
        code = EXIT_VIOLATION
    elif crashed or bad_canaries or berr:
        code = EXIT_CRASH
    elif undecided:
        code = EXIT_UNDECIDED
    else:
        code = EXIT_HELD
    write_evidence(prop, tier, seed, units, recs, canaries, bounded, known, known_hit, n_viol, undecided, pm,
                   time.time() - t_start, crashed)
    print("SUMMARY %s: units=%d obligations=%d discharged=%d known-finding-obligations=%d violations=%d undecided=%d"
          " canaries=%d/%d bounded-evaluations=%s wall=%.1fs" % (
              prop, len(units), n_ob, n_dis, n_known, n_viol, len(undecided),
              sum(c["status"] == "refuted" for c in canaries), len(canaries),
              bounded.get("evaluations") if bounded else 0, time.time() - t_start))
    print("RESULT %s %s" % (prop, {0: "held", 1: "violated", 2: "undecided", 3: "checker-error"}[code]))
    return code


def match_finding(rec, known):
    for f in known:
        pats = f.get("obligations") or []
        for p in pats:
            if p in rec["oid"]:
                return f
        if rec.get("finding") and rec["finding"] == f.get("id"):
            return f
    return None


def match_bounded_finding(v, known):
    for f in known:
        cls = f.get("bounded_class")
        if not cls:
            continue
        if v.get("clause") in cls.get("clauses", []) :
            pred = cls.get("predicate")
            if pred is None:
                return f
            try:
                if eval(pred, {"__builtins__": __builtins__, "v": v, **v.get("input", {})}):
                    return f
            except Exception:
                continue
    return None


def write_replay(d, prop, r, units):
    u = next((x for x in units if x.get("cid") == r["unit"]), {})
    name = hashlib.sha1(r["oid"].encode()).hexdigest()[:12]
    path = os.path.join(d, "%s-%s.json" % (prop, name))
    json.dump({"property": prop, "obligation": r["oid"], "function": r["unit"], "file": u.get("file"),
               "source_sha256": u.get("sha"), "backend": r["backend"], "solver_output": r["status"],
               "model": r.get("model"), "decoded_args": r.get("decoded"), "clause": r.get("src"),
               "kind": "no-failing-input-found"}, open(path, "w"), indent=1)
    return path


def _update_replay(path, rp):
    d = json.load(open(path))
    d.update({"kind": "replayed", "replay": rp})
    json.dump(d, open(path, "w"), indent=1, default=str)


def write_bounded_replay(d, prop, v):
    name = hashlib.sha1(json.dumps(v, sort_keys=True, default=str).encode()).hexdigest()[:12]
    path = os.path.join(d, "%s-b%s.json" % (prop, name))
    json.dump({"property": prop, "kind": "bounded-search", **v}, open(path, "w"), indent=1, default=str)
    return path


def try_replay(prop, r, pm):
    """Ask the property module to turn the counter-model into a failing input of the real code."""
    if pm is None or not hasattr(pm, "replay"):
        return None
    try:
        return pm.replay(r)
    except Exception:
        return {"reproduced": False, "error": traceback.format_exc()[-600:]}


def write_evidence(prop, tier, seed, units, recs, canaries, bounded, known, known_hit, n_viol, undecided, pm,
                   wall, crashed):
    from .contracts import REGISTRY
    man = json.load(open(os.path.join(VERIF, "MANIFEST.json")))
    chk = next((c for c in man["checks"] if c["property_id"] == prop), None)
    level = chk["level_claimed"]["category"] if chk else "other"
    n_ob = len(recs)
    n_dis = sum(r["status"] == "discharged" for r in recs)
    n_known = sum(1 for r in recs if r["status"] == "refuted" and match_finding(r, known) is not None)
    by_backend = {}
    for r in recs:
        by_backend[r["backend"] or "?"] = by_backend.get(r["backend"] or "?", 0) + 1
    fns = []
    axioms = set()
    for u in units:
        if not u["ok"]:
            continue
        mine = [r for r in u["records"] if prop in r["props"]]
        fns.append({"function": u["cid"], "file": u["file"], "source_sha256": u["sha"], "paths": u["paths"],
                    "obligations": len(mine), "discharged": sum(r["status"] == "discharged" for r in mine),
                    "strings": u["strings"], "generation_s": round(u["gen_time"], 2)})
        axioms |= set(u["axioms"])
    samples = [u["sample"] for u in units if u.get("ok") and u.get("sample")][:2]
    samples += [{"oid": r["oid"], "clause": r["src"], "status": r["status"]} for r in recs[:3]]
    assumptions = list(getattr(pm, "ASSUMPTIONS", [])) if pm else []
    assumptions += ["the VC generator vfcore (symbolic execution of the Python subset of DESIGN §2.3) is trusted; "
                    "guarded by canaries and path covers, not proved",
                    "Python semantics as encoded: unbounded ints exact; L0 strings = free monoid (uninterpreted cat/slen); "
                    "no aliasing other than by assignment; exceptions only at modelled sites",
                    "solvers: z3 5.1.0 (python wheel), fallback /usr/bin/z3 4.8.12 and cvc5 1.0.3"]
    from .sx_str import LIB_AXIOMS
    assumptions += ["assumed library contract %s: %s" % (k, LIB_AXIOMS[k]) for k in sorted(axioms) if k in LIB_AXIOMS]
    for cid in [u["cid"] for u in units if u.get("ok") and u["cid"] in REGISTRY]:
        c = REGISTRY[cid]
        for a in c.assumes:
            assumptions.append("%s assumes: %s" % (cid.split(":")[1], a))
        for lab, rq in c.requires.items():
            assumptions.append("%s requires (precondition, not checked at its callers unless they are under contract): %s: %s" % (
                cid.split(":")[1], lab, rq if isinstance(rq, str) else getattr(rq, "expr", rq)))
        for name, cal in c.calls.items():
            if cal.kind == "attrfn":
                assumptions.append("%s: attribute %s is modelled by a hand-written assumed contract" % (cid.split(":")[1], name))
            if cal.kind in ("uf", "effect", "custom", "attr"):
                assumptions.append("%s: callee %s is %s (contract assumed, body not verified here)" % (
                    cid.split(":")[1], name, {"uf": "an uninterpreted pure function of its arguments",
                                              "effect": "an uninterpreted effect", "attr": "an uninterpreted attribute",
                                              "custom": "modelled by a hand-written assumed contract"}[cal.kind]))
    cov = {
        "obligations": n_ob, "discharged": n_dis,
        "checker_cmd": "./vf check %s --tier %s" % (prop, tier),
        "trusted_base": ["vfcore VC generator", "z3 5.1.0", "assumed library contracts (see assumptions)",
                         "CPython 3.12 semantics as encoded (DESIGN §2.3)"],
        "explanation": (chk or {}).get("level_note", ""),
        "functions_under_contract": fns,
        "by_backend": by_backend,
        "solver_time_s": round(sum(r["time"] for r in recs), 3),
        "undecided": [r["oid"] for r in undecided],
        "known_finding_obligations": n_known,
        "known_findings": [{"id": f["id"], "what": f["what"], "hit_by": known_hit.get(f["id"], [])} for f in known],
        "canaries": canaries,
        "samples": samples,
        "checker_errors": [u["error"] for u in crashed],
    }
    if bounded:
        cov["bounded"] = {k: v for k, v in bounded.items() if k != "violations"}
        cov["bounded"]["label"] = "bounded stand-in: never counted in obligations/discharged"
        cov["evaluations"] = int(bounded.get("evaluations", 0))
        cov["distinct_nontrivial"] = int(bounded.get("distinct_nontrivial", 0))
        cov["rule"] = bounded.get("rule", "")
    if level == "proof":
        # known-finding obligations are listed separately and never counted as discharged
        cov["obligations"] = n_ob - n_known
    ev = {"property_id": prop, "tier": tier, "seed": seed, "level": level, "coverage": cov,
          "assumptions": assumptions, "wall_s": round(wall, 2), "violations": n_viol}
    os.makedirs(os.path.join(OUT, "evidence"), exist_ok=True)
    json.dump(ev, open(os.path.join(OUT, "evidence", prop + ".json"), "w"), indent=1, default=str)


if __name__ == "__main__":
    sys.exit(main())
