"""Calls: builtins, str/list/set/dict methods, closures, inlined repo functions, callee contracts."""
from __future__ import annotations

import ast
import enum

import z3

from .sx_base import GenError, PathEnd, RaiseSig, ReturnSig
from .sx_expr import is_const
from .theory import Int, Ref
from .values import (F, FAll, FAnd, FEx, FT, Sym, VCtxMgr, VExc, VFunc, VList, VModule, VObj, VOpaque, VOpt,
                     VSet, VUnique, EXC_PARENTS)


class CallMixin:
    def e_Call(self, n):
        # callee
        fn = None
        if isinstance(n.func, ast.Name):
            name = n.func.id
            lz = self.unit.contract.calls.get(name)
            if lz is not None and lz.kind == "custom" and lz.lazy:
                return lz.handler(self, n, [], {})
            if self.spec:
                r = self.spec_call(name, n)
                if r is not NotImplemented:
                    return r
            bound = False
            for env in reversed(self.envs):
                if name in env:
                    fn = env[name]
                    bound = True
                    break
            if not bound:
                b = getattr(self, "b_" + name, None)
                if b is not None and name not in self.unit.contract.calls:
                    return b(n)
                fn = self.unit.global_value(self, name)
        else:
            fn = self.eval(n.func)
        args, kwargs = self.eval_args(n)
        return self.call_value(fn, args, kwargs, n)

    def eval_args(self, n):
        args = []
        for a in n.args:
            if isinstance(a, ast.Starred):
                v = self.eval(a.value)
                if isinstance(v, VList):
                    # f(*xs) with a symbolic list: handed on as one opaque argument (an uninterpreted callee then returns
                    # an unconstrained value; any other callee rejects it)
                    args.append(v)
                    continue
                if not isinstance(v, (list, tuple)):
                    raise GenError("*args of symbolic length")
                args.extend(v)
            else:
                args.append(self.eval(a))
        kwargs = {}
        for k in n.keywords:
            if k.arg is None:
                v = self.eval(k.value)
                if not isinstance(v, dict):
                    raise GenError("**kwargs of %r" % (v,))
                kwargs.update(v)
            else:
                kwargs[k.arg] = self.eval(k.value)
        return args, kwargs

    def call_value(self, fn, args, kwargs, node=None):
        if isinstance(fn, VFunc):
            if fn.kind == "method":
                return self.call_method(fn.payload, fn.name, args, kwargs, node)
            if fn.kind == "closure":
                return self.call_closure(fn, args, kwargs)
            if fn.kind == "exc":
                return VExc(fn.name, tuple(args))
            if fn.kind == "handler":
                return fn.payload(self, node, args, kwargs)
            if fn.kind == "callee":
                if isinstance(fn.env, (Sym, VObj)):
                    args = [fn.env] + list(args)
                return self.unit.call_callee(self, fn.name, fn.payload, args, kwargs, node)
            if fn.kind == "builtin":
                return fn.payload(self, args, kwargs)
            if fn.kind == "unmodelled":
                return self.unmodelled(fn.name, args, kwargs)
        if isinstance(fn, VOpaque):
            return self.unmodelled(fn.name + "()", args, kwargs)
        if isinstance(fn, type) and issubclass(fn, enum.Enum):
            return self.unit.enum_construct(self, fn, args[0])
        if isinstance(fn, VOpt):
            if not self.spec:
                self.deref(fn, "call")
            fn = fn.val
        if isinstance(fn, Sym) and fn.k == "ref":
            key = "%s.__call__" % fn.cls
            spec = self.unit.contract.calls.get(key)
            if spec is None:
                raise GenError("calling a %s has no spec (%s)" % (fn.cls, key))
            return self.unit.call_callee(self, key, spec, [fn] + list(args), kwargs, node)
        raise GenError("call of %r (line %s)" % (fn, getattr(node, "lineno", "?")))

    def unmodelled(self, name, args, kwargs):
        """a call outside the contract's model: an effect of unknown nature (it may write anything)"""
        self.log.append(("UNMODELLED", {"name": name, "args": tuple(args), "kwargs": dict(kwargs)}, None))
        k = self.choose(2, "unmodelled raises")
        if k == 1:
            raise RaiseSig(VExc("OSError"), "unmodelled:" + name)
        return VOpaque(name)

    # ---- closures / inlined functions: execute the real body
    def call_closure(self, fn: VFunc, args, kwargs):
        fdef = fn.payload
        if isinstance(fdef, ast.Lambda):
            env = self.bind_params(fdef.args, args, kwargs, fn.name)
            saved = self.envs
            self.envs = list(fn.env) + [env]
            try:
                return self.eval(fdef.body)
            finally:
                self.envs = saved
        env = self.bind_params(fdef.args, args, kwargs, fn.name)
        saved, saved_lc = self.envs, self.loop_counter
        self.envs = list(fn.env) + [env]
        self.nonlocals.append(set())
        self.frames.append(fn.name)
        try:
            from .extract import strip_docstring
            self.exec_block(strip_docstring(fdef.body))
            return None
        except ReturnSig as r:
            return r.v
        finally:
            self.frames.pop()
            self.nonlocals.pop()
            self.envs = saved

    def bind_params(self, a: ast.arguments, args, kwargs, fname=""):
        env = {}
        pos = [x.arg for x in a.posonlyargs + a.args]
        defaults = dict(zip(pos[len(pos) - len(a.defaults):], a.defaults))
        kwonly = [x.arg for x in a.kwonlyargs]
        kwdef = {k.arg: d for k, d in zip(a.kwonlyargs, a.kw_defaults) if d is not None}
        if len(args) > len(pos) and not a.vararg:
            raise GenError("too many positional args for %s" % fname)
        for name, v in zip(pos, args):
            env[name] = v
        if a.vararg:
            env[a.vararg.arg] = tuple(args[len(pos):])
        for k, v in kwargs.items():
            if k in env:
                raise GenError("duplicate argument %s for %s" % (k, fname))
            if k not in pos and k not in kwonly:
                if a.kwarg:
                    env.setdefault(a.kwarg.arg, {})[k] = v
                    continue
                raise RaiseSig(VExc("TypeError"), "unexpected keyword %s for %s" % (k, fname))
            env[k] = v
        for name in pos + kwonly:
            if name not in env:
                d = defaults.get(name, kwdef.get(name))
                if d is None:
                    raise RaiseSig(VExc("TypeError"), "missing argument %s for %s" % (name, fname))
                env[name] = self.unit.eval_default(self, d)
        return env

    # ---- builtins
    def b_len(self, n):
        v = self.eval(n.args[0])
        return self.length(v)

    def length(self, v):
        if isinstance(v, (str, list, tuple, dict)):
            return len(v)
        if isinstance(v, VList):
            return v.length if isinstance(v.length, int) else self.wrap(self.z(v.length), "int")
        if isinstance(v, Sym) and v.k == "str":
            return self.wrap(self.th.length(v.t), "int")
        if isinstance(v, VOpt):
            if not self.spec:
                self.deref(v, "len")
            return self.length(v.val)
        if isinstance(v, Sym) and v.k == "ref":
            f = self.th.uf("len_" + (v.cls or "ref"), Ref, Int)
            t = f(v.t)
            self.pc.append(t >= 0)
            return self.wrap(t, "int")
        raise GenError("len of %r" % (v,))

    def b_range(self, n):
        args = [self.eval(a) for a in n.args]
        if len(args) == 1:
            lo, hi = 0, args[0]
        elif len(args) == 2:
            lo, hi = args
        else:
            lo, hi, step = args
            if is_const(lo) and is_const(hi) and is_const(step):
                return list(range(lo, hi, step))
            raise GenError("range with symbolic step")
        if isinstance(lo, int) and isinstance(hi, int):
            return list(range(lo, hi))
        return VFunc("range", "iterview", ("range", (lo, hi)))

    def b_enumerate(self, n):
        seq = self.eval(n.args[0])
        start = 0
        if len(n.args) > 1:
            start = self.eval(n.args[1])
        for k in n.keywords:
            if k.arg == "start":
                start = self.eval(k.value)
        if isinstance(seq, (list, tuple)) and isinstance(start, int):
            return [(i + start, x) for i, x in enumerate(seq)]
        return VFunc("enumerate", "iterview", ("enumerate", (seq, start)))

    def b_isinstance(self, n):
        v = self.eval(n.args[0])
        return self.unit.isinstance(self, v, n.args[1])

    def b_hasattr(self, n):
        v, name = self.eval(n.args[0]), self.eval(n.args[1])
        if isinstance(v, VObj) and isinstance(name, str):
            return name in v.fields or self.unit.method_of(self, v, name) is not None
        return self.unit.hasattr(self, v, name)

    def b_getattr(self, n):
        v, name = self.eval(n.args[0]), self.eval(n.args[1])
        if not isinstance(name, str):
            raise GenError("getattr with symbolic name")
        if isinstance(v, VObj) and name not in v.fields and len(n.args) > 2:
            return self.eval(n.args[2])
        return self.getattr(v, name, n)

    def b_setattr(self, n):
        v, name, x = (self.eval(a) for a in n.args)
        if not isinstance(name, str):
            raise GenError("setattr with symbolic name")
        self.setattr(v, name, x)

    def b_bool(self, n):
        t = self.truth(self.eval(n.args[0]))
        return t if isinstance(t, bool) else self.wrap(t, "bool")

    def b_str(self, n):
        if not n.args:
            return ""
        return self.to_str(self.eval(n.args[0]))

    def b_int(self, n):
        v = self.eval(n.args[0])
        if isinstance(v, (int, bool)):
            return int(v)
        if isinstance(v, Sym) and v.k in ("int", "bool"):
            return self.wrap(self.zi(v), "int")
        f = self.th.uf("str_to_int", self.th.Str, Int)
        return Sym(f(self.z(v)), "int")

    def b_list(self, n):
        if not n.args:
            return []
        v = self.eval(n.args[0])
        if isinstance(v, (list, tuple)):
            return list(v)
        if isinstance(v, dict):
            return list(v)
        if isinstance(v, VList):
            return v.copy()
        if isinstance(v, VOpt):
            self.deref(v, "list()")
            return self.b_list_of(v.val)
        if isinstance(v, str):
            return list(v)
        raise GenError("list(%r)" % (v,))

    def b_list_of(self, v):
        return v.copy() if isinstance(v, VList) else list(v)

    def b_tuple(self, n):
        v = self.eval(n.args[0]) if n.args else ()
        if isinstance(v, (list, tuple)):
            return tuple(v)
        raise GenError("tuple(%r)" % (v,))

    def b_set(self, n):
        if not n.args:
            return VSet()
        v = self.eval(n.args[0])
        if isinstance(v, (list, tuple)) and all(is_const(x) for x in v):
            return VSet({x: True for x in v})
        raise GenError("set(%r)" % (v,))

    def b_frozenset(self, n):
        return self.b_set(n)

    def b_dict(self, n):
        if not n.args and not n.keywords:
            return {}
        raise GenError("dict(...)")

    def b_object(self, n):
        return VUnique()

    def b_max(self, n):
        vals = [self.eval(a) for a in n.args]
        if len(vals) == 1 and isinstance(vals[0], (list, tuple)):
            vals = list(vals[0])
        if all(is_const(v) for v in vals):
            return max(vals)
        r = self.zi(vals[0])
        for v in vals[1:]:
            x = self.zi(v)
            r = z3.If(x > r, x, r)
        return self.wrap(r, "int")

    def b_min(self, n):
        vals = [self.eval(a) for a in n.args]
        if all(is_const(v) for v in vals):
            return min(vals)
        r = self.zi(vals[0])
        for v in vals[1:]:
            x = self.zi(v)
            r = z3.If(x < r, x, r)
        return self.wrap(r, "int")

    def b_any(self, n):
        return self.quant(n, any_=True)

    def b_all(self, n):
        return self.quant(n, any_=False)

    def quant(self, n, any_):
        a = n.args[0]
        if isinstance(a, (ast.GeneratorExp, ast.ListComp)) and len(a.generators) == 1:
            g = a.generators[0]
            it = self.eval(g.iter)
            seq, mapper = self.iter_view(it)
            if isinstance(seq, VList):
                return self.unit.sym_quant(self, a, g, seq, mapper, any_)
            vals = []
            for k, x in enumerate(seq):
                self.envs.append({})
                try:
                    self.bind_target(g.target, mapper(k, x))
                    conds = [self.eval(c) for c in g.ifs]
                    v = self.eval(a.elt)
                finally:
                    self.envs.pop()
                if conds:
                    if any_:
                        v = self.spec_bool(True, conds + [v])
                    else:
                        cc = self.spec_bool(True, conds)
                        ct = self.f_to_term(cc) if isinstance(cc, F) else self.b(self.truth(cc))
                        vv = v if isinstance(v, F) else FT(self.b(self.truth(v)))
                        from .values import FImp
                        v = FImp(FT(ct), vv)
                vals.append(v)
        else:
            v = self.eval(a)
            if not isinstance(v, (list, tuple)):
                raise GenError("any/all over %r" % (v,))
            vals = list(v)
        if not vals:
            return not any_
        if not self.spec:
            # code mode: evaluate like python (short-circuit is unobservable for pure elements)
            ts = [self.truth(v) for v in vals]
            if all(isinstance(t, bool) for t in ts):
                return any(ts) if any_ else all(ts)
            ts = [self.b(t) for t in ts]
            return self.wrap(z3.Or(*ts) if any_ else z3.And(*ts), "bool")
        return self.spec_bool(not any_, vals)

    def b_print(self, n):
        args, kwargs = self.eval_args(n)
        dest = "stderr" if "file" in kwargs and isinstance(kwargs["file"], VModule) and kwargs["file"].name.endswith("stderr") else "stdout"
        self.log.append(("PRINT_" + dest.upper(), {"args": tuple(args)}, None))
        return None

    def b_sorted(self, n):
        v = self.eval(n.args[0])
        if isinstance(v, (list, tuple)) and all(is_const(x) for x in v):
            return sorted(v)
        raise GenError("sorted of symbolic")

    def b_next(self, n):
        return self.unit.builtin_next(self, n)

    def b_cast(self, n):
        return self.eval(n.args[1])

    def b_implies(self, n):
        return self.spec_call("implies", n)

    # ---- methods on values
    def call_method(self, recv, name, args, kwargs, node):
        if isinstance(recv, VOpt):
            if not self.spec:
                self.deref(recv, "." + name)
            recv = recv.val
        if isinstance(recv, (list, VList)):
            return self.list_method(recv, name, args, kwargs, node)
        if type(recv).__name__ == "VRefMap":
            if name == "add":
                recv.arr = z3.Store(recv.arr, self.z(args[0]), z3.BoolVal(True))
                return None
            raise GenError("refset.%s" % name)
        if isinstance(recv, VSet):
            if name == "add":
                if not is_const(args[0]):
                    raise GenError("set.add of symbolic element")
                recv.members[args[0]] = True
                return None
            if name == "copy":
                return recv.copy()
            raise GenError("set.%s" % name)
        if isinstance(recv, dict):
            if name == "items":
                return [(k, v) for k, v in recv.items()]
            if name == "keys":
                return list(recv.keys())
            if name == "values":
                return list(recv.values())
            if name == "get":
                k = args[0]
                if is_const(k):
                    return recv.get(k, args[1] if len(args) > 1 else None)
            raise GenError("dict.%s" % name)
        if self.kind_of(recv) == "str":
            return self.str_method(recv, name, args, kwargs, node)
        if isinstance(recv, Sym) and recv.k == "ref":
            return self.unit.ref_method(self, recv, name, args, kwargs, node)
        raise GenError("method %s on %r" % (name, recv))

    def list_method(self, lst, name, args, kwargs, node):
        if name == "append":
            self.list_append(lst, args[0])
            return None
        if name == "extend":
            self.list_extend(lst, args[0])
            return None
        if name == "copy":
            return list(lst) if isinstance(lst, list) else lst.copy()
        if name == "insert":
            if isinstance(lst, list) and isinstance(args[0], int):
                lst.insert(args[0], args[1])
                return None
            self.slice_assign(self.as_vlist(lst), args[0], args[0], [args[1]])
            return None
        if name == "pop":
            if isinstance(lst, list):
                if not lst:
                    raise RaiseSig(VExc("IndexError"), "pop")
                return lst.pop(*args)
            n = self.z(lst.length)
            self.prove("noraise", "pop_nonempty", n > 0)
            self.pc.append(n > 0)
            if args:
                i = args[0]
                if i == 0:
                    v = self.list_get(lst, 0)
                    rest = self.slice(lst, 1, None)
                    lst.arr, lst.length = rest.arr, rest.length
                    return v
                if i != -1:
                    raise GenError("pop(%r)" % (i,))
            v = self.list_get(lst, n - 1)
            ln = z3.simplify(n - 1)
            lst.length = ln.as_long() if z3.is_int_value(ln) else ln
            return v
        if name == "sort":
            return self.unit.list_sort(self, lst, kwargs)
        if name == "index" or name == "count":
            raise GenError("list.%s" % name)
        raise GenError("list.%s" % name)
