"""String theories used by the symbolic executor.

L0 ("structural"): strings are elements of an uninterpreted sort ``Str`` with ``cat`` and
``slen``; the engine keeps concatenations in right-nested normal form (so associativity and
the unit law are syntactic) and *instantiates* the free-monoid facts it needs for the terms
that occur in a VC (``saturate``).  Library functions (strip, join, ...) are uninterpreted
with the instantiated axioms of ``vfcore.libaxioms``.

L1 ("character"): z3's native ``String`` sort (Unicode code points), used for the few
functions whose contract is about characters.
"""
from __future__ import annotations

import z3

Int = z3.IntSort()
Bool = z3.BoolSort()
Ref = z3.DeclareSort("Ref")          # opaque objects: Paths, PathSpecs, match objects, ...
NONE_REF = z3.Const("ref!None", Ref)      # the value of a nullable reference ("nref:Cls") that is None



_nodes: dict = {}


def _node(t, Str):
    """Per-DAG-node facts, computed once through the z3 API: (term, child ids, is Str-sorted,
    index-candidate terms, is application of a defined spec function, children terms)."""
    key = t.get_id()
    n = _nodes.get(key)
    if n is not None:
        return n
    if not z3.is_app(t):
        n = (t, (), False, (), False, ())         # quantifier / lambda bodies are not entered
        _nodes[key] = n
        return n
    ch = t.children()
    d = t.decl()
    k = d.kind()
    cands = ()
    special = False
    if k == z3.Z3_OP_SELECT or k == z3.Z3_OP_STORE:
        cands = (ch[1],) if ch[1].sort().eq(Int) else ()
    elif k == z3.Z3_OP_UNINTERPRETED and ch:
        cands = tuple(c for c in ch if c.sort().eq(Int))
        special = d.name() in ("joinr", "strip", "lstrip", "rstrip", "substr")
    n = (t, tuple(c.get_id() for c in ch), t.sort().eq(Str), cands, special, tuple(ch))
    _nodes[key] = n
    return n


class Info:
    __slots__ = ("strs", "cands", "special")


def analyze_all(tops, th):
    """Str-sorted subterms, Int index candidates (in order of first occurrence, `tops` order) and
    applications of defined spec functions in a set of facts; each DAG node is visited once."""
    info = Info()
    info.strs, info.cands, info.special = [], [], []
    seen, cset = set(), set()
    Str = th.Str
    nodes = _nodes
    for top in tops:
        stack = [top]
        while stack:
            x = stack.pop()
            i = x.get_id()
            if i in seen:
                continue
            seen.add(i)
            n = nodes.get(i) or _node(x, Str)
            if n[2]:
                info.strs.append(n[0])
            if n[4]:
                info.special.append(n[0])
            for c in n[3]:
                ci = c.get_id()
                if ci not in cset:
                    cset.add(ci)
                    info.cands.append(c)
            stack.extend(n[5])
    return info


class L0:
    """Uninterpreted free-monoid strings."""

    name = "L0"

    def __init__(self):
        self.Str = z3.DeclareSort("Str")
        self.catf = z3.Function("cat", self.Str, self.Str, self.Str)
        self.slenf = z3.Function("slen", self.Str, Int)
        self._lits: dict[str, z3.ExprRef] = {}
        self._litval: dict[int, str] = {}      # term id -> python literal
        self.additive: list[z3.FuncDeclRef] = []   # Str->Int functions assumed additive over cat
        self.ufs: dict[str, z3.FuncDeclRef] = {}
        self._sub_cache = {}
        self._fact_cache = {}
        self.empty = self.lit("")

    # ---- construction
    def lit(self, s: str):
        t = self._lits.get(s)
        if t is None:
            t = z3.Const("lit!%s" % repr(s), self.Str)
            self._lits[s] = t
            self._litval[t.get_id()] = s
        return t

    def litval(self, t):
        return self._litval.get(t.get_id())

    def is_cat(self, t):
        return z3.is_app(t) and t.decl().eq(self.catf)

    def atoms(self, t):
        """Flatten a term into its list of non-cat atoms (left to right)."""
        out = []
        stack = [t]
        while stack:
            x = stack.pop()
            if self.is_cat(x):
                stack.append(x.arg(1))
                stack.append(x.arg(0))
            else:
                out.append(x)
        return out

    def cat(self, *ts):
        atoms = []
        for t in ts:
            atoms.extend(self.atoms(t))
        # drop empties, merge adjacent literals
        norm = []
        for a in atoms:
            v = self.litval(a)
            if v is not None:
                if v == "":
                    continue
                if norm and self.litval(norm[-1]) is not None:
                    norm[-1] = self.lit(self.litval(norm[-1]) + v)
                    continue
            norm.append(a)
        if not norm:
            return self.empty
        r = norm[-1]
        for a in reversed(norm[:-1]):
            r = self.catf(a, r)
        return r

    def length(self, t):
        v = self.litval(t)
        if v is not None:
            return z3.IntVal(len(v))
        return self.slenf(t)

    def uf(self, name, *sorts):
        key = name + "|" + ",".join(str(s) for s in sorts)
        f = self.ufs.get(key)
        if f is None:
            n = sum(1 for k in self.ufs if k.split("|")[0] == name)
            f = z3.Function(name if n == 0 else "%s$%d" % (name, n), *sorts)
            self.ufs[key] = f
        return f

    def fresh(self, hint="s"):
        return z3.FreshConst(self.Str, hint)

    # ---- axiom instantiation for the terms of one VC
    def _facts_of(self, t):
        key = t.get_id()
        hit = self._fact_cache.get(key)
        if hit is not None and len(hit[2]) == len(self.additive):
            return hit[1]
        facts = []
        v = self.litval(t)
        if v is not None:
            facts.append(self.slenf(t) == len(v))
        else:
            facts.append(self.slenf(t) >= 0)
            facts.append((self.slenf(t) == 0) == (t == self.empty))
            if self.is_cat(t):
                a, b = t.arg(0), t.arg(1)
                facts.append(self.slenf(t) == self.length(a) + self.length(b))
                facts.append(z3.Implies(a == self.empty, t == b))      # unit laws (instances)
                facts.append(z3.Implies(b == self.empty, t == a))
                for f in self.additive:
                    facts.append(f(t) == f(a) + f(b))
            for f in self.additive:
                facts.append(f(t) >= 0)
        self._fact_cache[key] = (t, facts, list(self.additive))
        return facts

    def saturate(self, terms):
        """Return ground facts about every Str-sorted subterm occurring in `terms`."""
        seen = set()
        facts = []
        lits = []
        for t in analyze_all(terms, self).strs:
            if self.litval(t) is not None:
                lits.append(t)
            facts.extend(self._facts_of(t))
        if self.empty.get_id() not in {t.get_id() for t in lits}:
            lits.append(self.empty)
        facts.append(self.slenf(self.empty) == 0)
        for f in self.additive:
            facts.append(f(self.empty) == 0)
        if len(lits) > 1:
            facts.append(z3.Distinct(*lits))
        return facts


class L1:
    """z3 native Unicode strings."""

    name = "L1"

    def __init__(self):
        self.Str = z3.StringSort()
        self.empty = z3.StringVal("")
        self.additive = []
        self.ufs = {}

    def lit(self, s):
        return z3.StringVal(s)

    def litval(self, t):
        if z3.is_string_value(t):
            return t.as_string() if False else _unescape(t)
        return None

    def cat(self, *ts):
        ts = [t for t in ts if not (z3.is_string_value(t) and _unescape(t) == "")]
        if not ts:
            return self.empty
        if len(ts) == 1:
            return ts[0]
        return z3.Concat(*ts)

    def length(self, t):
        return z3.Length(t)

    def uf(self, name, *sorts):
        key = name + "|" + ",".join(str(s) for s in sorts)
        f = self.ufs.get(key)
        if f is None:
            n = sum(1 for k in self.ufs if k.split("|")[0] == name)
            f = z3.Function(name if n == 0 else "%s$%d" % (name, n), *sorts)
            self.ufs[key] = f
        return f

    def fresh(self, hint="s"):
        return z3.FreshConst(self.Str, hint)

    def atoms(self, t):
        return [t]

    def saturate(self, terms):
        return []


def _unescape(t):
    """Python value of a z3 string literal (z3 escapes non-printables as \\u{..})."""
    s = t.as_string()
    import re
    return re.sub(r"\\u\{([0-9a-fA-F]+)\}", lambda m: chr(int(m.group(1), 16)), s)
