"""vf — contract-based deductive verification machinery for jlevy/flowmark.

Sidecar contracts (``/verif/contracts``) on the real functions of ``/repo``; the function
bodies are re-read from the working tree on every run, symbolically executed
(``vfcore.symex``) into quantifier-free verification conditions and discharged by z3 / cvc5
(``vfcore.vc``).  See /verif/DESIGN.md.
"""
import os

REPO = os.environ.get("VF_REPO", "/repo")
VERIF = os.path.dirname(os.path.dirname(os.path.abspath(__file__)))
