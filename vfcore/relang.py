"""Finite languages of regex sub-patterns (re._parser trees): used to state what a capture group can hold as an
obligation about the live pattern rather than about its spelling ('\\.\\.\\.' and '\\.{3}' are the same language)."""
from __future__ import annotations

import re._parser as sre_parse


def finite_language(sub, limit=256):
    """set of strings matched by the parsed sub-pattern, or None when it is not (recognisably) finite/small"""
    langs = [""]
    for op, av in sub:
        name = str(op)
        if name == "LITERAL":
            part = [chr(av)]
        elif name == "IN":
            part = []
            for o, v in av:
                if str(o) == "LITERAL":
                    part.append(chr(v))
                elif str(o) == "RANGE" and v[1] - v[0] < 32:
                    part += [chr(c) for c in range(v[0], v[1] + 1)]
                else:
                    return None
        elif name == "SUBPATTERN":
            part = finite_language(av[3], limit)
        elif name == "BRANCH":
            part = []
            for alt in av[1]:
                l = finite_language(alt, limit)
                if l is None:
                    return None
                part += sorted(l)
        elif name in ("MAX_REPEAT", "MIN_REPEAT"):
            lo, hi, item = av
            if hi is sre_parse.MAXREPEAT or hi > 8:
                return None
            base = finite_language(item, limit)
            if base is None:
                return None
            part, cur = [], [""]
            for k in range(hi + 1):
                if k >= lo:
                    part += cur
                cur = [a + b for a in cur for b in base]
                if len(cur) > limit:
                    return None
        else:
            return None
        if part is None:
            return None
        langs = [a + b for a in langs for b in part]
        if len(langs) > limit:
            return None
    return set(langs)


def top_groups(pattern):
    """[(group number | None, parsed sub-pattern)] of a compiled pattern's top-level concatenation"""
    tree = sre_parse.parse(pattern.pattern, pattern.flags)
    out = []
    for op, av in tree:
        if str(op) == "SUBPATTERN":
            out.append((av[0], av[3]))
        else:
            out.append((None, [(op, av)]))
    return out


# ---- nested-quantifier (catastrophic backtracking) analysis ------------------------------------------------------
def _unbounded(op, av):
    return str(op) in ("MAX_REPEAT", "MIN_REPEAT") and av[1] is sre_parse.MAXREPEAT


def _nullable(seq):
    for op, av in seq:
        n = str(op)
        if n in ("AT", "ASSERT", "ASSERT_NOT", "GROUPREF_EXISTS"):
            continue
        if n in ("MAX_REPEAT", "MIN_REPEAT", "POSSESSIVE_REPEAT"):
            if av[0] == 0 or _nullable(av[2]):
                continue
            return False
        if n == "SUBPATTERN":
            if _nullable(av[3]):
                continue
            return False
        if n == "BRANCH":
            if any(_nullable(a) for a in av[1]):
                continue
            return False
        if n == "ATOMIC_GROUP":
            if _nullable(av):
                continue
            return False
        return False
    return True


def _alternatives(seq):
    """the sequences a repeat body can be, looking through groups and branches that make up the *whole* body"""
    seq = list(seq)
    if len(seq) == 1:
        op, av = seq[0]
        n = str(op)
        if n == "SUBPATTERN":
            return _alternatives(av[3])
        if n == "BRANCH":
            out = []
            for a in av[1]:
                out += _alternatives(a)
            return out
    return [seq]


def nested_quantifier_hazards(seq, path=""):
    """[(description, outer repeat node, inner repeat node)]: an unbounded repeat one of whose body alternatives is, up to
    nullable neighbours and zero-width assertions, itself an unbounded repeat -- (X+)*, (X+|Y)*, (X*Y?)+ ... -- so that a run
    of X can be split over the iterations in exponentially many ways when the rest of the pattern fails to match"""
    out = []
    for k, (op, av) in enumerate(seq):
        n = str(op)
        here = "%s/%d:%s" % (path, k, n)
        if n in ("MAX_REPEAT", "MIN_REPEAT"):
            if _unbounded(op, av):
                for alt in _alternatives(av[2]):
                    alt = [(o, a) for o, a in alt if str(o) not in ("AT",)]
                    guards = [x for x in alt if str(x[0]) in ("ASSERT", "ASSERT_NOT")]
                    core = [x for x in alt if str(x[0]) not in ("ASSERT", "ASSERT_NOT")]
                    inner = [x for x in core if _unbounded(*x) or (str(x[0]) == "SUBPATTERN" and len(_alternatives([x])) == 1
                                                                    and len(_alternatives([x])[0]) == 1
                                                                    and _unbounded(*_alternatives([x])[0][0]))]
                    rest = [x for x in core if x not in inner]
                    # (a look-ahead placed after the inner repeat does not disambiguate the split of a run: X+(?!y) inside an
                    # outer repeat is as ambiguous as X+; a guard in front of a single character -- the tempered dot -- has no
                    # inner repeat and is not concerned)
                    if inner and _nullable(rest):
                        out.append(("unbounded repeat over an alternative that is itself an unbounded repeat", (op, av), inner[0]))
            out += nested_quantifier_hazards(av[2], here)
        elif n == "SUBPATTERN":
            out += nested_quantifier_hazards(av[3], here)
        elif n == "BRANCH":
            for a in av[1]:
                out += nested_quantifier_hazards(a, here)
        elif n in ("ASSERT", "ASSERT_NOT"):
            out += nested_quantifier_hazards(av[1], here)
        elif n == "ATOMIC_GROUP":
            out += nested_quantifier_hazards(av, here)
    return out


def _min_match(seq, groups=None):
    """a short string matched by the sequence (best effort; assertions ignored)"""
    groups = {} if groups is None else groups
    s = ""
    for op, av in seq:
        n = str(op)
        if n == "LITERAL":
            s += chr(av)
        elif n == "NOT_LITERAL":
            s += "a" if av != ord("a") else "b"
        elif n == "ANY":
            s += "a"
        elif n == "IN":
            s += _char_in(av)
        elif n in ("MAX_REPEAT", "MIN_REPEAT", "POSSESSIVE_REPEAT"):
            s += _min_match(av[2], groups) * av[0]
        elif n == "SUBPATTERN":
            g = _min_match(av[3], groups)
            if av[0] is not None:
                groups[av[0]] = g
            s += g
        elif n == "BRANCH":
            s += _min_match(av[1][0], groups)
        elif n == "GROUPREF":
            s += groups.get(av, "")
        elif n == "ATOMIC_GROUP":
            s += _min_match(av, groups)
    return s


def _char_in(items):
    neg = items and str(items[0][0]) == "NEGATE"
    import re as _re
    if not neg:
        for o, v in items:
            if str(o) == "LITERAL":
                return chr(v)
            if str(o) == "RANGE":
                return chr(v[0])
        cat = [v for o, v in items if str(o) == "CATEGORY"]
        for c in "a1 _-":
            if cat and _cat(cat[0], c):
                return c
        return "a"
    for c in "ab1 x-":
        ok = True
        for o, v in items[1:]:
            if (str(o) == "LITERAL" and chr(v) == c) or (str(o) == "RANGE" and v[0] <= ord(c) <= v[1]) or \
                    (str(o) == "CATEGORY" and _cat(v, c)):
                ok = False
        if ok:
            return c
    return "a"


def _cat(cat, c):
    n = str(cat)
    return {"CATEGORY_DIGIT": c.isdigit(), "CATEGORY_NOT_DIGIT": not c.isdigit(), "CATEGORY_SPACE": c.isspace(),
            "CATEGORY_NOT_SPACE": not c.isspace(), "CATEGORY_WORD": c.isalnum() or c == "_",
            "CATEGORY_NOT_WORD": not (c.isalnum() or c == "_")}.get(n, False)


def attack_strings(pattern_text, flags=0, ks=(16, 20, 24)):
    """for each hazard: prefix (a minimal match of what precedes the outer repeat) + pumped inner character * k"""
    tree = sre_parse.parse(pattern_text, flags)
    out = []

    def walk(seq, prefix, groups):
        seq = list(seq)
        for i, (op, av) in enumerate(seq):
            n = str(op)
            before = prefix + _min_match(seq[:i], dict(groups))
            if n in ("MAX_REPEAT", "MIN_REPEAT"):
                if any(h[1] == (op, av) for h in nested_quantifier_hazards([(op, av)])):
                    for alt in _alternatives(av[2]):
                        for x in alt:
                            y = x
                            while str(y[0]) == "SUBPATTERN":
                                y = list(y[1][3])[0]
                            if _unbounded(*y):
                                pump = _min_match(y[1][2]) or "a"
                                out.append([before + pump * k for k in ks])
                walk(av[2], before, groups)
            elif n == "SUBPATTERN":
                walk(av[3], before, groups)
            elif n == "BRANCH":
                for a in av[1]:
                    walk(a, before, groups)
    walk(tree, "", {})
    return out


def _contains_unbounded(seq):
    for op, av in seq:
        n = str(op)
        if n in ("MAX_REPEAT", "MIN_REPEAT"):
            if _unbounded(op, av) or _contains_unbounded(av[2]):
                return True
        elif n == "SUBPATTERN":
            if _contains_unbounded(av[3]):
                return True
        elif n == "BRANCH":
            if any(_contains_unbounded(a) for a in av[1]):
                return True
        elif n == "ATOMIC_GROUP":
            if _contains_unbounded(av):
                return True
    return False


def repeated_bodies_with_inner_repeat(pattern_text, flags=0):
    """[(prefix, [one minimal match per body alternative that holds an inner unbounded repeat])] for every unbounded repeat
    whose body contains, at any depth, another unbounded repeat -- the syntactic superset of the catastrophic shapes, e.g.
    (?:\\{%.*?%\\}|\\s)+ where the lazy dot can run over the delimiters of the next iteration"""
    tree = sre_parse.parse(pattern_text, flags)
    out = []

    def walk(seq, prefix, groups):
        seq = list(seq)
        for i, (op, av) in enumerate(seq):
            n = str(op)
            before = prefix + _min_match(seq[:i], dict(groups))
            if n in ("MAX_REPEAT", "MIN_REPEAT"):
                if _unbounded(op, av):
                    pumps = [_min_match(alt) for alt in _alternatives(av[2]) if _contains_unbounded(alt)]
                    pumps = [p for p in pumps if p]
                    if pumps:
                        out.append((before, pumps))
                walk(av[2], before, groups)
            elif n == "SUBPATTERN":
                walk(av[3], before, groups)
            elif n == "BRANCH":
                for a in av[1]:
                    walk(a, before, groups)
    walk(tree, "", {})
    return out


def pumped_timing(pattern_text, flags=0, ks=(12, 16, 20), budget_s=2.0):
    """empirical probe (bounded, not a proof): match / search / fullmatch of the pattern on prefix + pump*k + a suffix that
    makes the match fail late, for the bodies of repeated_bodies_with_inner_repeat; returns the worst observation
    {'input', 'api', 'times'} whose time grows by more than 6x per step of 4 and exceeds 50 ms (or the budget), else None"""
    import re
    import signal
    import time

    class _T(Exception):
        pass

    def _h(*a):
        raise _T()
    rx = re.compile(pattern_text, flags)
    worst = None
    old = signal.signal(signal.SIGALRM, _h)
    try:
        for prefix, pumps in repeated_bodies_with_inner_repeat(pattern_text, flags):
            for pump in pumps:
                for suffix in ("\x01", " and some text", ""):
                    for api in ("fullmatch", "match", "search"):
                        ts = []
                        for k in ks:
                            s = prefix + pump * k + suffix
                            t0 = time.time()
                            signal.setitimer(signal.ITIMER_REAL, budget_s)
                            try:
                                getattr(rx, api)(s)
                            except _T:
                                pass
                            finally:
                                signal.setitimer(signal.ITIMER_REAL, 0)
                            ts.append(max(time.time() - t0, 1e-6))
                            if ts[-1] >= budget_s * 0.95:
                                break
                        blow = ts[-1] >= budget_s * 0.95 or (len(ts) == 3 and ts[2] > 6 * ts[1] and ts[1] > 6 * ts[0] and ts[2] > 0.05)
                        if blow and (worst is None or ts[-1] > worst["times"][-1]):
                            worst = {"input": prefix + pump * ks[len(ts) - 1] + suffix, "api": api, "times": [round(t, 5) for t in ts], "pump": pump}
    finally:
        signal.signal(signal.SIGALRM, old)
    return worst
