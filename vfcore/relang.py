"""Finite languages of regex sub-patterns (re._parser trees): used to state what a capture group can hold as an
obligation about the live pattern rather than about its spelling ('\\.\\.\\.' and '\\.{3}' are the same language)."""
from __future__ import annotations

import re._parser as sre_parse


def finite_language(sub, limit=256):
    """set of strings matched by the parsed sub-pattern, or None when it is not (recognisably) finite/small"""
    langs = [""]
    for op, av in sub:
        name = str(op)
        if name == "LITERAL":
            part = [chr(av)]
        elif name == "IN":
            part = []
            for o, v in av:
                if str(o) == "LITERAL":
                    part.append(chr(v))
                elif str(o) == "RANGE" and v[1] - v[0] < 32:
                    part += [chr(c) for c in range(v[0], v[1] + 1)]
                else:
                    return None
        elif name == "SUBPATTERN":
            part = finite_language(av[3], limit)
        elif name == "BRANCH":
            part = []
            for alt in av[1]:
                l = finite_language(alt, limit)
                if l is None:
                    return None
                part += sorted(l)
        elif name in ("MAX_REPEAT", "MIN_REPEAT"):
            lo, hi, item = av
            if hi is sre_parse.MAXREPEAT or hi > 8:
                return None
            base = finite_language(item, limit)
            if base is None:
                return None
            part, cur = [], [""]
            for k in range(hi + 1):
                if k >= lo:
                    part += cur
                cur = [a + b for a in cur for b in base]
                if len(cur) > limit:
                    return None
        else:
            return None
        if part is None:
            return None
        langs = [a + b for a in langs for b in part]
        if len(langs) > limit:
            return None
    return set(langs)


def top_groups(pattern):
    """[(group number | None, parsed sub-pattern)] of a compiled pattern's top-level concatenation"""
    tree = sre_parse.parse(pattern.pattern, pattern.flags)
    out = []
    for op, av in tree:
        if str(op) == "SUBPATTERN":
            out.append((av[0], av[3]))
        else:
            out.append((None, [(op, av)]))
    return out
