"""Unit = one function under contract.  Path exploration by decision replay; obligations collected."""
from __future__ import annotations

import ast
import enum
import inspect
import time
import types

import z3

from . import extract
from .contracts import REGISTRY, Callee, Contract
from .sx_base import (Base, BreakSig, ContinueSig, GenError, PathEnd, RaiseSig, ReturnSig)
from .sx_calls import CallMixin
from .sx_expr import ExprMixin, is_const
from .sx_spec import SpecMixin, parse_expr
from .sx_stmt import StmtMixin
from .sx_str import StrMixin
from .theory import L0, L1, Bool, Int, Ref
from .values import (EXC_PARENTS, F, FAll, FT, Sym, VCtxMgr, VExc, VFunc, VList, VModule, VObj, VOpaque, VOpt,
                     VSet, VUnique)

import builtins as _bi


class Executor(Base, ExprMixin, StmtMixin, CallMixin, StrMixin, SpecMixin):
    def __init__(self, unit, th, decisions):
        Base.__init__(self, unit, th, decisions)
        self.envs = [{}]
        self.nonlocals = []
        self.frames = []
        self.loop_counter = 0
        self.in_ghost = False
        self.cur_exc = []
        self.joinr_done = set()
        self.old = {}
        self.old_envs = None
        self.free_vals = {}
        self.outcome = None
        self.heap = {}
        self.modstack = []
        self.objstate = {}
        self.loop_depth = 0
        self.callee_envs = {}
        self.heap_old = {}
        self.try_stack = []
        self.handled = []

    def sym_comprehension(self, *a):
        return self.unit.sym_comprehension(self, *a)


class Unit:
    def __init__(self, contract: Contract, fdef_override=None):
        self.contract = contract
        self.ext = extract.find(contract.target)
        self.fdef = fdef_override or self.ext.fdef
        self.modname = self.ext.modname
        self.short = contract.cid.replace("flowmark.", "")
        self.module = extract.live_module(self.modname)
        self.defs = {}
        for sig, body in contract.defs.items():
            name, rest = sig.split("(", 1)
            params = [p.strip() for p in rest.rstrip(")").split(",") if p.strip()]
            self.defs[name.strip()] = (params, parse_expr(body))
        self.spec_funcs = {}
        self._ghost_cache = {}
        loops = [n for n in ast.walk(self.fdef) if isinstance(n, (ast.For, ast.While))]
        loops.sort(key=lambda n: (n.lineno, n.col_offset))
        self._loop_idx = {id(n): i for i, n in enumerate(loops)}
        self.n_loops = len(loops)
        for k in contract.loops:
            if isinstance(k, int) and k >= len(loops):
                raise GenError("contract drift: loop %d of %s does not exist" % (k, contract.target))

    # ---- static helpers used by the executor
    def loop_index(self, node):
        return self._loop_idx.get(id(node))

    def loop_spec(self, ex, idx):
        return self.contract.loops.get(idx)

    def hooks_for(self, ex):
        return self.contract.hooks

    def ghost_ast(self, code):
        t = self._ghost_cache.get(code)
        if t is None:
            t = ast.parse(code)
            self._ghost_cache[code] = t
        return t

    def local_kind(self, ex, name):
        k = self.contract.types.get(name)
        if k is None:
            k = self.annotated_kind(name)
        return k

    def annotated_kind(self, name):
        """kind of a local from its own annotation in the source (`xs: list[Path] = []`), for locals the contract's
        `types` does not know (e.g. introduced by a later change of the body)"""
        simple = {"str": "str", "int": "int", "bool": "bool", "Path": "ref:Path"}
        for n in ast.walk(self.fdef):
            if isinstance(n, ast.AnnAssign) and isinstance(n.target, ast.Name) and n.target.id == name:
                a = ast.unparse(n.annotation).replace(" ", "")
                if a in simple:
                    return simple[a]
                for outer in ("list", "set"):
                    if a.startswith(outer + "[") and a.endswith("]") and a[len(outer) + 1:-1] in simple and outer == "list":
                        return "list[%s]" % simple[a[5:-1]]
        return None

    def field_kind(self, cls, f):
        return self.contract.types.get("%s.%s" % (cls, f))

    def enum_class(self, clsname):
        for modname in (self.modname, "flowmark.formats.flowmark_markdown", "flowmark.linewrapping.text_filling"):
            m = extract.live_module(modname)
            c = getattr(m, clsname, None)
            if isinstance(c, type) and issubclass(c, enum.Enum):
                return c
        raise GenError("enum %s not found" % clsname)

    def enum_construct(self, ex, cls, v):
        if is_const(v):
            return cls(v)
        sort, consts = ex.enum_sort(cls.__name__)
        f = ex.th.uf("enum_of_" + cls.__name__, ex.z(v).sort(), sort)
        t = f(ex.z(v))
        for m in cls:
            if isinstance(m.value, str):
                ex.pc.append(f(ex.th.lit(m.value)) == consts[m.name])
        return Sym(t, "enum", cls.__name__)

    # ---- name resolution
    def global_value(self, ex, name):
        c = self.contract
        if name in c.free:
            if name not in ex.free_vals:
                ex.free_vals[name] = ex.mk(c.free[name], name) if c.free[name] != "callable" else \
                    VFunc(name, "callee", c.calls.get(name))
            return ex.free_vals[name]
        if name in c.calls:
            return VFunc(name, "callee", c.calls[name])
        mod = extract.live_module(ex.modstack[-1]) if ex.modstack else self.module
        if hasattr(mod, name):
            return self.live_value(ex, getattr(mod, name), name)
        if hasattr(self.module, name):
            return self.live_value(ex, getattr(self.module, name), name)
        if name in EXC_PARENTS or (hasattr(_bi, name) and isinstance(getattr(_bi, name), type)
                                   and issubclass(getattr(_bi, name), BaseException)):
            return VFunc(name, "exc")
        if name in ("str", "int", "bool", "list", "dict", "float", "set", "tuple", "object"):
            return getattr(_bi, name)
        if name in ("cast",):
            return VFunc("cast", "builtin", lambda ex, a, k: a[1])
        if self.contract.unknown_calls == "effect" and hasattr(_bi, name):
            return VFunc(name, "unmodelled")
        raise GenError("unresolved name %s in %s" % (name, self.contract.target))

    def live_value(self, ex, v, name):
        if is_const(v):
            return v
        if isinstance(v, types.ModuleType):
            return VModule(v.__name__)
        if isinstance(v, type) and issubclass(v, enum.Enum):
            return v
        if isinstance(v, type) and issubclass(v, BaseException):
            return VFunc(v.__name__, "exc")
        if isinstance(v, (list, tuple)) and all(is_const(x) for x in v):
            return list(v) if isinstance(v, list) else v
        if isinstance(v, (set, frozenset)) and all(is_const(x) for x in v):
            return VSet({x: True for x in v})
        if isinstance(v, dict) and all(is_const(k) and is_const(x) for k, x in v.items()):
            return dict(v)
        if callable(v) or isinstance(v, type):
            spec = self.contract.calls.get(name)
            f = VFunc(name, "callee", spec)
            f.qual = "%s.%s" % (getattr(v, "__module__", "?"), getattr(v, "__qualname__", name))
            return f
        import dataclasses as _dc
        if _dc.is_dataclass(v) and not isinstance(v, type) and all(is_const(getattr(v, f.name)) for f in _dc.fields(v)):
            # a module-level record of constants (read from the live module on every run)
            return VObj(type(v).__name__, {f.name: getattr(v, f.name) for f in _dc.fields(v)})
        import re as _re
        if isinstance(v, _re.Pattern):
            # a compiled pattern is an opaque constant (what it matches is not modelled; callees that take it are UFs)
            return ex.wrap(z3.Const("pattern!%s" % name, Ref), "ref", "Pattern")
        raise GenError("module-level value %s = %r is outside the model" % (name, type(v)))

    def import_module(self, ex, name):
        return VModule(name)

    def import_from(self, ex, module, name):
        key = name
        if key in self.contract.calls:
            return VFunc(key, "callee", self.contract.calls[key])
        m = extract.live_module(module) if module.startswith("flowmark") else __import__(module, fromlist=[name])
        return self.live_value(ex, getattr(m, name), name)

    def module_attr(self, ex, mod: VModule, attr):
        dotted = mod.name + "." + attr
        if dotted in self.contract.calls:
            if self.contract.calls[dotted].kind == "value":
                return self.contract.calls[dotted].handler(ex)
            return VFunc(dotted, "callee", self.contract.calls[dotted])
        try:
            m = __import__(mod.name, fromlist=["x"])
            v = getattr(m, attr)
        except Exception:
            return VModule(dotted)
        if isinstance(v, types.ModuleType) or not (is_const(v) or isinstance(v, type)):
            if callable(v) and not isinstance(v, type):
                return VFunc(dotted, "callee", self.contract.calls.get(dotted))
            return VModule(dotted)
        return self.live_value(ex, v, dotted)

    def method_of(self, ex, obj: VObj, attr):
        for key in ("self." + attr if obj is ex.envs[0].get("self") else None, "%s.%s" % (obj.cls, attr)):
            if key and key in self.contract.calls:
                return VFunc(key, "callee", self.contract.calls[key], env=obj)
        return None

    def heap_arrays(self, ex, attr):
        kind = self.contract.heap[attr]
        if attr not in ex.heap:
            if kind.startswith("list["):
                ek = kind[5:-1]
                ex.heap[attr] = (z3.Array("heap0!%s#len" % attr, Ref, Int),
                                 z3.Array("heap0!%s#arr" % attr, Ref, z3.ArraySort(Int, ex.sort_of(ek))))
            else:
                ex.heap[attr] = z3.Array("heap0!%s" % attr, Ref, ex.sort_of(kind))
        return ex.heap[attr]

    def ref_attr(self, ex, base: Sym, attr):
        if "%s.%s" % (base.cls, attr) in self.contract.heap:       # per-class heap field ('Cls.attr': kind)
            attr = "%s.%s" % (base.cls, attr)
        if attr in self.contract.heap:
            kind = self.contract.heap[attr]
            h = self.heap_arrays(ex, attr)
            if kind.startswith("list["):
                ek = kind[5:-1]
                ln = z3.Select(h[0], base.t)
                ex.pc.append(ln >= 0)
                return VList(ln, z3.Select(h[1], base.t), ek)
            return ex.wrap(z3.Select(h, base.t), kind.split(":")[0], kind.split(":")[1] if ":" in kind else None)
        key = "%s.%s" % (base.cls, attr)
        spec = self.contract.calls.get(key)
        if spec is None and self.contract.unknown_calls == "effect":
            return VFunc(key, "unmodelled")
        if spec is None:
            raise GenError("attribute %s of ref %s has no spec (%s)" % (attr, base.cls, key))
        if spec.kind == "attrfn":           # attribute whose value / kind depends on the object (handler decides, may branch)
            return spec.handler(ex, None, [base], {})
        if spec.kind == "attr":
            rk = spec.ret
            if rk.startswith("list[") or rk.startswith("opt[list["):
                ek = rk[rk.index("list[") + 5:rk.index("]")]
                flen = ex.th.uf("attr#len_" + key, Ref, Int)
                farr = ex.th.uf("attr#arr_" + key, Ref, z3.ArraySort(Int, ex.sort_of(ek)))
                ex.pc.append(flen(base.t) >= 0)
                return VList(flen(base.t), farr(base.t), ek)
            if rk.startswith("opt["):
                inner = rk[4:-1]
                fn = ex.th.uf("attr?_" + key, Ref, Bool)
                fv = ex.th.uf("attr_" + key, Ref, ex.sort_of(inner))
                return VOpt(fn(base.t), ex.wrap(fv(base.t), inner.split(":")[0], inner.split(":")[1] if ":" in inner else None))
            kind = rk.split(":")[0]
            f = ex.th.uf("attr_" + key, Ref, ex.sort_of(rk))
            return ex.wrap(f(base.t), kind, rk.split(":")[1] if ":" in rk else None)
        return VFunc(key, "callee", spec, env=base)

    def ref_method(self, ex, recv, name, args, kwargs, node):
        key = "%s.%s" % (recv.cls, name)
        spec = self.contract.calls.get(key)
        if spec is None and self.contract.unknown_calls == "effect":
            return ex.unmodelled(key, [recv] + list(args), kwargs)
        if spec is None:
            raise GenError("method %s has no callee spec" % key)
        return self.call_callee(ex, key, spec, [recv] + list(args), kwargs, node, method=True)

    def ref_setattr(self, ex, base, attr, v):
        if "%s.%s" % (base.cls, attr) in self.contract.heap:
            attr = "%s.%s" % (base.cls, attr)
        if attr in self.contract.heap:
            kind = self.contract.heap[attr]
            h = self.heap_arrays(ex, attr)
            if kind.startswith("list["):
                lv = ex.as_vlist(v, kind[5:-1])
                ex.heap[attr] = (z3.Store(h[0], base.t, ex.z(lv.length)), z3.Store(h[1], base.t, lv.arr))
            else:
                ex.heap[attr] = z3.Store(h, base.t, ex.z(v))
            return
        setter = self.contract.calls.get("set:%s.%s" % (base.cls, attr.split(".")[-1]))
        if setter is not None and setter.kind == "custom":
            # a store whose meaning depends on the stored value / the object's type (contract-supplied handler)
            return setter.handler(ex, None, [base, v], {})
        raise GenError("attribute store on ref %s.%s" % (base.cls, attr))

    def ref_setitem(self, ex, base, idx, v):
        raise GenError("item store on ref %s" % base.cls)

    def on_setattr(self, ex, obj, attr, v):
        pass

    def hasattr(self, ex, v, name):
        raise GenError("hasattr on %r" % (v,))

    def isinstance(self, ex, v, clsnode):
        names = [ast.unparse(e) for e in (clsnode.elts if isinstance(clsnode, ast.Tuple) else [clsnode])]
        if isinstance(v, VObj):
            return any(n.split(".")[-1] == v.cls for n in names)
        if is_const(v):
            m = {"str": str, "int": int, "bool": bool, "dict": dict, "list": list}
            return any(isinstance(v, m[n]) for n in names if n in m)
        if isinstance(v, (list, VList)):
            return "list" in names
        if isinstance(v, dict):
            return "dict" in names
        if isinstance(v, Sym) and v.k == "str":
            return "str" in names
        if isinstance(v, Sym) and v.k == "ref":
            return self.ref_isinstance(ex, v, clsnode)
        raise GenError("isinstance(%r, %s)" % (v, names))

    def class_universe(self):
        """every Marko element class known after importing flowmark's renderer module (live hierarchy)"""
        if not hasattr(Unit, "_universe"):
            extract.live_module("flowmark.formats.flowmark_markdown")
            from marko.element import Element
            seen, stack = [], [Element]
            while stack:
                c = stack.pop()
                if c in seen:
                    continue
                seen.append(c)
                stack.extend(c.__subclasses__())
            seen.sort(key=lambda c: (c.__module__, c.__qualname__))
            Unit._universe = seen
        return Unit._universe

    def resolve_classes(self, clsnode):
        ns = dict(vars(self.module))
        val = eval(compile(ast.Expression(clsnode), "<cls>", "eval"), ns)
        return val if isinstance(val, tuple) else (val,)

    def ref_isinstance(self, ex, v, clsnode):
        classes = clsnode if isinstance(clsnode, tuple) else self.resolve_classes(clsnode)
        uni = self.class_universe()
        tf = ex.th.uf("type_of", Ref, Int)
        t = tf(v.t)
        ex.pc.append(z3.And(t >= 0, t < len(uni)))
        ids = [i for i, c in enumerate(uni) if issubclass(c, classes)]
        return ex.wrap(z3.Or(*[t == i for i in ids]) if ids else z3.BoolVal(False), "bool")

    def path_join(self, ex, a, b):
        f = ex.th.uf("path_join", Ref, ex.z(b).sort(), Ref)
        return Sym(f(ex.z(a), ex.z(b)), "ref", "Path")

    def builtin_next(self, ex, n):
        raise GenError("next()")

    def list_sort(self, ex, lst, kwargs):
        """assumed contract of list.sort() (no key): the list becomes a sorted permutation of itself.
        Witnesses: perm / perm_inv arrays with new[k] == old[perm[k]], perm_inv[perm[k]] == k."""
        if kwargs or not isinstance(lst, VList) or isinstance(lst.elem, tuple):
            raise GenError("list.sort with key / on a concrete list")
        n = lst.length
        old = lst.arr
        new = z3.FreshConst(old.sort(), "sorted")
        perm = z3.FreshConst(z3.ArraySort(Int, Int), "perm")
        inv = z3.FreshConst(z3.ArraySort(Int, Int), "perm_inv")
        srt = ex.sort_of(lst.elem)
        lt = ex.th.uf("ref_lt" if srt.eq(Ref) else "elem_lt", srt, srt, Bool)
        nz = ex.z(n)
        ex.hyps.append(FAll("k", 0, n, lambda c: FT(z3.And(
            z3.Select(new, c) == z3.Select(old, z3.Select(perm, c)), z3.Select(perm, c) >= 0, z3.Select(perm, c) < nz,
            z3.Select(inv, z3.Select(perm, c)) == c,
            z3.Implies(c + 1 < nz, z3.Not(lt(z3.Select(new, c + 1), z3.Select(new, c)))))), "list.sort"))
        lst.arr = new
        ex.sort_witness = (perm, inv, old)
        return None

    def spec_log(self, ex, n):
        raise GenError("log() spec function not available")

    def sym_quant(self, ex, comp, g, seq, mapper, any_):
        return ex.sym_quant_impl(comp, g, seq, mapper, any_)

    def sym_comprehension(self, ex, n, g, it: VList):
        """[f(x) for x in xs] over a symbolic list: a fresh list tied to its definition by a
        quantified hypothesis (no filter allowed)."""
        if g.ifs:
            return self.sym_filter(ex, n, g, it)
        envs = ex.snapshot_envs()
        it_c = it.copy()
        # determine element kind by evaluating the element expression once at a fresh index
        probe = z3.FreshConst(Int, "probe")

        def elem(c):
            def run():
                ex.envs.append({})
                try:
                    ex.bind_target(g.target, ex.list_get(it_c, c))
                    return ex.eval(n.elt)
                finally:
                    ex.envs.pop()
            saved = ex.spec
            try:
                return ex.with_envs(list(envs), run)
            finally:
                ex.spec = saved
        v0 = elem(probe)
        kind = ex.kind_of(v0)
        out = ex.fresh("list[%s]" % kind, "comp")
        out.length = it.length
        arr = out.arr
        ex.hyps.append(FAll("k", 0, it.length,
                            lambda c: FT(z3.Select(arr, c) == ex.z(elem(c))), "comprehension"))
        # a map keeps positions: the index map of a filtered source list is also the index map of the mapped list
        out.filter_of = getattr(it, "filter_of", None)
        return out

    def sym_filter(self, ex, n, g, it: VList):
        """[x for x in xs if c(x)] over a symbolic list: a fresh list `out` tied to `xs` by an index map idx (ghost, exposed to
        specs as srcidx(out, k)) and its inverse on kept elements inv (keptat(out, j)):
          for k < len(out):  0 <= idx(k) < len(xs), idx strictly increasing, out[k] == xs[idx(k)], c(out[k])
          for j < len(xs):   c(xs[j])  ->  0 <= inv(j) < len(out) and idx(inv(j)) == j
        which is the meaning of a filter (order and multiplicity kept, nothing kept that fails c, nothing dropped that passes)."""
        if not isinstance(g.target, ast.Name):
            raise GenError("filtered comprehension with a tuple target over a symbolic list")
        if not (isinstance(n.elt, ast.Name) and n.elt.id == g.target.id):
            # [f(x) for x in xs if c(x)]  ==  [f(x) for x in [x for x in xs if c(x)]]
            ident = ast.ListComp(elt=ast.Name(id=g.target.id, ctx=ast.Load()), generators=[g])
            flt = self.sym_filter(ex, ident, g, it)
            g2 = ast.comprehension(target=g.target, iter=g.iter, ifs=[], is_async=0)
            return self.sym_comprehension(ex, ast.ListComp(elt=n.elt, generators=[g2]), g2, flt)
        envs = ex.snapshot_envs()
        ek = it.elem if isinstance(it.elem, str) else "tuple[%s]" % ",".join(it.elem)
        out = ex.fresh("list[%s]" % ek, "filtered")
        ex.pc.append(z3.And(ex.z(out.length) >= 0, ex.z(out.length) <= ex.z(it.length)))
        out_c, it_c = out.copy(), it.copy()
        tag = "%d" % out.uid
        idx = z3.Function("filter_idx!" + tag, Int, Int)
        inv = z3.Function("filter_inv!" + tag, Int, Int)

        def cond_at(lst, c):
            def run():
                ex.envs.append({g.target.id: ex.list_get(lst, c)})
                try:
                    ts = [ex.b(ex.truth(ex.eval(cn))) for cn in g.ifs]
                    return z3.And(*ts)
                finally:
                    ex.envs.pop()
            saved = ex.spec
            try:
                return ex.with_envs(list(envs), run)
            finally:
                ex.spec = saved

        def elem_eq(k):
            a, b = ex.list_get(out_c, k), ex.list_get(it_c, idx(k))
            if isinstance(a, tuple):
                return z3.And(*[ex.b(ex.truth(ex.eq(x, y))) for x, y in zip(a, b)])
            return ex.b(ex.truth(ex.eq(a, b)))
        ex.hyps.append(FAll("k", 0, out.length, lambda c: FT(z3.And(
            cond_at(out_c, c), 0 <= idx(c), idx(c) < ex.z(it_c.length), z3.Implies(c > 0, idx(c - 1) < idx(c)), elem_eq(c))), "filter"))
        ex.hyps.append(FAll("j", 0, it_c.length, lambda c: FT(z3.Implies(cond_at(it_c, c), z3.And(
            0 <= inv(c), inv(c) < ex.z(out_c.length), idx(inv(c)) == c))), "filter-complete"))
        out.filter_of = (it_c, idx, inv)
        return out

    def eval_default(self, ex, dnode):
        if isinstance(dnode, ast.Constant):
            return dnode.value
        return ex.with_envs([{}], lambda: ex.eval(dnode))

    def call_ordinal(self, name, node):
        if node is None:
            return None
        if not hasattr(self, "_call_sites"):
            self._call_sites = {}
            sites = [n for n in ast.walk(self.fdef) if isinstance(n, ast.Call)]
            sites.sort(key=lambda n: (n.lineno, n.col_offset))
            for n in sites:
                key = ast.unparse(n.func).split(".")[-1]
                lst = self._call_sites.setdefault(key, [])
                lst.append(id(n))
        lst = self._call_sites.get(name.split(".")[-1], [])
        return lst.index(id(node)) if id(node) in lst else None

    # ---- callee handling
    def callee_signature(self, name, spec: Callee):
        """(param names, {name: default ast or const})"""
        if spec.sig is not None:
            return list(spec.sig), {}, None
        if spec.target:
            e = extract.find(spec.target)
            return None, None, e
        obj = getattr(self.module, name.split(".")[-1], None) if "." not in name else None
        if obj is None:
            return None, None, None
        try:
            sig = inspect.signature(obj)
        except (TypeError, ValueError):
            return None, None, None
        names = list(sig.parameters)
        defaults = {k: p.default for k, p in sig.parameters.items() if p.default is not inspect._empty}
        return names, defaults, None

    def call_callee(self, ex, name, spec, args, kwargs, node, method=False, pure=False):
        if spec is None and self.contract.unknown_calls == "effect":
            return ex.unmodelled(name, args, kwargs)
        if spec is None:
            raise GenError("call to %s has no callee spec in contract %s (line %s)" % (
                name, self.contract.cid, getattr(node, "lineno", "?")))
        if spec.kind == "custom":
            return spec.handler(ex, node, args, kwargs)
        names, defaults, e = self.callee_signature(name, spec)
        if e is not None:
            ex.modstack.append(e.modname)
            try:
                bound = ex.bind_params(e.fdef.args, args, kwargs, name)
            finally:
                ex.modstack.pop()
            order = [x.arg for x in e.fdef.args.posonlyargs + e.fdef.args.args + e.fdef.args.kwonlyargs]
        elif names is not None:
            bound = {}
            if len(args) > len(names):
                raise GenError("too many args for %s" % name)
            for k, v in zip(names, args):
                bound[k] = v
            for k, v in kwargs.items():
                if k in bound:
                    raise GenError("duplicate arg %s for %s" % (k, name))
                if k not in names:
                    raise RaiseSig(VExc("TypeError"), "unexpected keyword %s" % k)
                bound[k] = v
            for k in names:
                if k not in bound:
                    if k in (defaults or {}):
                        d = defaults[k]
                        bound[k] = d if is_const(d) else Sym(z3.Const("default!%s.%s" % (name, k), Ref), "ref")
                    elif spec.sig is None:
                        raise RaiseSig(VExc("TypeError"), "missing argument %s for %s" % (k, name))
            order = [k for k in names if k in bound]
        else:
            bound = {"arg%d" % i: v for i, v in enumerate(args)}
            bound.update(kwargs)
            order = list(bound)
        # call-site obligations
        site_clauses = {}
        if not pure:
            site_clauses.update(self.contract.at_call.get(name, {}))
            k = self.call_ordinal(name, node)
            if k is not None:
                site_clauses.update(self.contract.at_call.get("%s#%d" % (name, k), {}))
        ex.cur_call = bound
        for label, cl in site_clauses.items():
            cl = self.contract.clause(cl)
            f = ex.spec_eval(cl.expr, extra_env={"arg": _Ns(bound), **{"arg_" + k: v for k, v in bound.items()}})
            ex.prove("call", "%s.%s" % (name, label), f, cl.props, cl.finding, src=str(cl.expr))
        if spec.kind == "ctxgen":
            return self.ctxgen(ex, e, bound, name)
        if spec.kind == "inline":
            return self.inline(ex, e, bound, name)
        if spec.kind == "contract":
            return self.by_contract(ex, spec, e, bound, name)
        # uninterpreted
        result = self.uf_result(ex, name, spec, [bound[k] for k in order])
        if pure:
            return result
        if spec.kind == "effect":
            ex.log.append((spec.effect or name, dict(bound), result))
        if spec.raises:
            k = ex.choose(len(spec.raises) + 1, "raise@" + name)
            if k > 0:
                if spec.raise_guard is not None:
                    ex.pc.append(spec.raise_guard(ex, bound))
                raise RaiseSig(VExc(spec.raises[k - 1]), name)
        if spec.post is not None:
            f = spec.post(ex, bound, result)
            if f is not None:
                ex.assume(f)
        return result

    def uf_result(self, ex, name, spec, argvals):
        rk = spec.ret
        if rk in (None, "none"):
            return None
        zs = []
        pure = True
        for a in argvals:
            if a is None:
                zs.append(z3.IntVal(-1))
                continue
            if isinstance(a, VFunc):
                zs.append(z3.Const("fn!%s" % getattr(a, "qual", a.name), Ref))
                continue
            if isinstance(a, VUnique):
                zs.append(z3.Const("uniq!%s" % a.tag, Ref))
                continue
            if isinstance(a, (dict, list)) and not a:
                zs.append(z3.Const("empty!%s" % type(a).__name__, Ref))
                continue
            if isinstance(a, VOpt) and (isinstance(a.val, Sym) or is_const(a.val)) and not ex.feasible(a.is_none):
                zs.append(ex.z(a.val))
                continue
            if isinstance(a, VOpt):
                if isinstance(a.val, Sym) or is_const(a.val):
                    zs.append(a.is_none)
                    zs.append(ex.z(a.val))
                    continue
                pure = False
                break
            try:
                zs.append(ex.z(a))
            except GenError:
                pure = False
                break
        tag = name.replace(".", "_")
        if rk.startswith("tuple["):
            parts = [x.strip() for x in rk[6:-1].split(",")]
            if not pure:
                return tuple(ex.fresh(p, tag) for p in parts)
            out = []
            for i, p in enumerate(parts):
                f = ex.th.uf("call_%s.%d" % (tag, i), *([z.sort() for z in zs] + [ex.sort_of(p)]))
                out.append(ex.wrap(f(*zs), p.split(":")[0], p.split(":")[1] if ":" in p else None))
            return tuple(out)
        if rk.startswith("opt["):
            inner = rk[4:-1]
            if pure and not inner.startswith("list"):
                fn = ex.th.uf("call?_" + tag, *([z.sort() for z in zs] + [Bool]))
                fv = ex.th.uf("call_" + tag, *([z.sort() for z in zs] + [ex.sort_of(inner)]))
                return VOpt(fn(*zs), ex.wrap(fv(*zs), inner.split(":")[0], inner.split(":")[1] if ":" in inner else spec.cls))
            return ex.fresh(rk, tag)
        if rk.startswith("list["):
            if pure:
                ek = rk[5:-1]
                fl = ex.th.uf("call#len_" + tag, *([z.sort() for z in zs] + [Int]))
                ex.pc.append(fl(*zs) >= 0)
                el = ex.elem_of(ek)
                if isinstance(el, tuple):        # list of tuples: one array-valued UF per component
                    arrs = tuple(ex.th.uf("call#arr%d_%s" % (i, tag), *([z.sort() for z in zs] + [z3.ArraySort(Int, ex.sort_of(p))]))(*zs)
                                 for i, p in enumerate(el))
                    return VList(fl(*zs), arrs, el)
                fa = ex.th.uf("call#arr_" + tag, *([z.sort() for z in zs] + [z3.ArraySort(Int, ex.sort_of(ek))]))
                return VList(fl(*zs), fa(*zs), el)
            return ex.fresh(rk, tag)
        if not pure:
            return ex.fresh(rk, tag)
        f = ex.th.uf("call_" + tag, *([z.sort() for z in zs] + [ex.sort_of(rk)]))
        return ex.wrap(f(*zs), rk.split(":")[0], rk.split(":")[1] if ":" in rk else spec.cls)

    def inline(self, ex, e, bound, name):
        if e is None:
            raise GenError("inline callee %s needs target=" % name)
        sub = _module_env(self, ex, e)
        fn = VFunc(name, "closure", e.fdef, [sub])
        env = dict(bound)
        saved = ex.envs
        ex.envs = [sub, env]
        ex.nonlocals.append(set())
        ex.frames.append(name)
        ex.modstack.append(e.modname)
        try:
            ex.exec_block(extract.strip_docstring(e.fdef.body))
            return None
        except ReturnSig as r:
            return r.v
        finally:
            ex.modstack.pop()
            ex.frames.pop()
            ex.nonlocals.pop()
            ex.envs = saved

    def ctxgen(self, ex, e, bound, name):
        """@contextmanager generator of the repo: the real body split at its single top-level `yield`
        (enter = statements before it, exit = statements after it; the exit half does not run when the
        with-body raises, exactly as for a generator without try/finally)"""
        body = extract.strip_docstring(e.fdef.body)
        idx = [i for i, st in enumerate(body) if isinstance(st, ast.Expr) and isinstance(st.value, ast.Yield)]
        if len(idx) != 1:
            raise GenError("context manager %s: expected exactly one top-level yield" % name)
        i = idx[0]
        env = dict(bound)
        yv = body[i].value.value

        def run(stmts, ret=None):
            saved = ex.envs
            ex.envs = [env]
            ex.nonlocals.append(set())
            ex.frames.append(name)
            ex.modstack.append(e.modname)
            try:
                ex.exec_block(stmts)
                return ex.eval(ret) if ret is not None else None
            finally:
                ex.modstack.pop()
                ex.frames.pop()
                ex.nonlocals.pop()
                ex.envs = saved

        def enter(ex_):
            return run(body[:i], yv)

        def exit_(ex_, exc):
            if exc is None:
                run(body[i + 1:])
        return VCtxMgr(enter, exit_)

    def by_contract(self, ex, spec, e, bound, name):
        c = REGISTRY.get(spec.target)
        if c is None:
            raise GenError("no contract registered for %s" % spec.target)
        sub = Unit(c) if False else None
        env = dict(bound)
        cu = _unit_cache(c)
        cu.bind_callee_locals(ex, env, bound)
        saved_unit = ex.unit
        # requires of the callee are obligations of the caller
        ex.unit = cu
        try:
            for label, cl in c.requires.items():
                cl = c.clause(cl)
                f = ex.with_envs([env], lambda: ex.spec_eval(cl.expr))
                ex.unit = saved_unit
                ex.prove("pre", "%s.%s" % (name, label), f, src=str(cl.expr))
                ex.unit = cu
            rk = spec.ret
            result = None if rk in (None, "none") else ex.fresh(rk, "res_" + name.split(".")[-1])
            env["result"] = result
            # the callee's locals / ghost variables its postconditions mention: existential witnesses
            for lname, kind in c.types.items():
                if lname in env or "." in lname:
                    continue
                env[lname] = result if lname in c.result_alias else ex.fresh(kind, "%s.%s" % (name.split(".")[-1], lname))
            saved_old = ex.old_envs
            ex.old_envs = [dict(bound)]
            for label, cl in c.ensures.items():
                cl = c.clause(cl)
                if cl.finding:
                    continue        # a clause known to fail on this tree is not assumed of the callee
                f = ex.with_envs([env], lambda: ex.spec_eval(cl.expr))
                ex.assume(f)
            ex.old_envs = saved_old
            ex.callee_envs[name] = env
        finally:
            ex.unit = saved_unit
        return result

    def bind_callee_locals(self, ex, env, bound):
        """hook: bind locals of this (callee) contract that are defined by calls, e.g. words = splitter(ws(text))"""
        if self.contract.setup_callee:
            self.contract.setup_callee(ex, env, bound)


class _Ns:
    def __init__(self, d):
        self.__dict__.update(d)


_units: dict[str, Unit] = {}


def _unit_cache(c: Contract) -> Unit:
    if c.cid not in _units:
        _units[c.cid] = Unit(c)
    return _units[c.cid]


def _module_env(unit, ex, e):
    return {}


# ------------------------------------------------------------------ running a unit
def run_path(unit: Unit, th, decisions):
    ex = Executor(unit, th, decisions)
    c = unit.contract
    try:
        fdef = unit.fdef
        env = ex.envs[0]
        pos, kwonly, a = extract.param_names(fdef)
        for name in pos + kwonly:
            kind = c.params.get(name)
            if name == "self":
                env[name] = VObj(c.self_cls or (unit.ext.cls.name if unit.ext.cls else "object"))
                continue
            if kind is None:
                kind = _kind_from_annotation(fdef, name)
            if kind is None:
                raise GenError("parameter %s of %s has no kind hint" % (name, c.target))
            if kind == "callable":
                env[name] = VFunc(name, "callee", c.calls.get(name))
            elif kind.startswith("enumcase:"):
                members = list(unit.enum_class(kind[9:]))
                env[name] = members[ex.choose(len(members), "enumcase")]
            elif kind.startswith("obj:"):
                env[name] = VObj(kind[4:])
            else:
                env[name] = ex.mk(kind, name)
        if c.setup:
            c.setup(ex)
        for g, init in c.ghost.items():
            ex.set_name(g, ex.spec_eval_value(init) if isinstance(init, str) else init(ex))
        for label, cl in c.requires.items():
            ex.assume(ex.spec_eval(c.clause(cl).expr))
        ex.old_envs = ex.snapshot_envs()
        for a in c.heap:
            unit.heap_arrays(ex, a)
        ex.heap_old = dict(ex.heap)
        try:
            ex.exec_block(extract.strip_docstring(fdef.body))
            result = None
        except ReturnSig as r:
            result = r.v
        env = ex.envs[0]
        env["result"] = result
        ex.outcome = ("return", result)
        for label, cl in c.ensures.items():
            cl = c.clause(cl)
            ex.prove("post", label, ex.spec_eval(cl.expr), cl.props, cl.finding, src=str(cl.expr))
    except RaiseSig as r:
        ex.outcome = ("raise", r.exc.cls, r.where)
        if any(_exc_ok(r.exc.cls, ok) for ok in c.raises):
            ex.envs[0]["exc"] = r.exc.cls
            for label, cl in c.ensures_raise.items():
                cl = c.clause(cl)
                ex.prove("post-raise", label, ex.spec_eval(cl.expr), cl.props, cl.finding, src=str(cl.expr))
        else:
            ex.prove("noraise", "%s@%s" % (r.exc.cls, r.where), z3.BoolVal(False), src=r.where)
    except PathEnd:
        ex.outcome = ex.outcome or ("cut",)
    except (BreakSig, ContinueSig):
        raise GenError("break/continue outside loop")
    return ex


def _exc_ok(cls, ok):
    from .values import exc_isinstance
    return exc_isinstance(cls, ok)


def _kind_from_annotation(fdef, name):
    for a in fdef.args.posonlyargs + fdef.args.args + fdef.args.kwonlyargs:
        if a.arg == name and a.annotation is not None:
            s = ast.unparse(a.annotation).replace(" ", "")
            m = {"str": "str", "int": "int", "bool": "bool", "list[str]": "list[str]",
                 "str|None": "opt[str]", "int|None": "opt[int]", "Path|str": "str",
                 "Path|str|None": "opt[str]", "list[str]|None": "opt[list[str]]"}
            return m.get(s)
    return None


class UnitResult:
    def __init__(self, unit):
        self.unit = unit
        self.obligations = []
        self.paths = 0
        self.outcomes = []
        self.hook_hits = {}
        self.gen_time = 0.0
        self.executors = []
        self.seen = set()


def explore(unit: Unit, th=None) -> UnitResult:
    t0 = time.time()
    th = th or (L0() if unit.contract.strings == "L0" else L1())
    unit.th = th
    res = UnitResult(unit)
    work = [[]]
    while work:
        d = work.pop()
        ex = run_path(unit, th, d)
        res.paths += 1
        if res.paths > unit.contract.max_paths:
            raise GenError("path explosion in %s (> %d paths)" % (unit.contract.cid, unit.contract.max_paths))
        work.extend(ex.pending)
        for ob in ex.obligations:
            ob.detail = ex
            if ob.oid in res.seen:
                continue
            res.seen.add(ob.oid)
            res.obligations.append(ob)
        res.outcomes.append(ex.outcome)
        for k, v in ex.hook_hits.items():
            res.hook_hits[k] = res.hook_hits.get(k, 0) + v
    for i, h in enumerate(unit.contract.hooks):
        if res.hook_hits.get(i, 0) == 0:
            raise GenError("contract drift: ghost hook %r never fired in %s" % (h[1], unit.contract.target))
    res.gen_time = time.time() - t0
    return res
