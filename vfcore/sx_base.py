"""Executor base: path condition, branching by decision replay, obligations, lifting."""
from __future__ import annotations

import enum

import z3

from .theory import NONE_REF, Bool, Int, Ref
from .values import (F, FAll, FAnd, FEx, FImp, FOr, FT, Sym, VExc, VFunc, VList, VObj, VOpt, VSet,
                     VUnique)


_ENUMS: dict = {}


class GenError(Exception):
    """The function uses something outside the modelled subset / contract drift (exit 3)."""


class PathEnd(Exception):
    """This path is finished (infeasible, or cut at a loop head)."""


class ReturnSig(Exception):
    def __init__(self, v):
        self.v = v


class BreakSig(Exception):
    pass


class ContinueSig(Exception):
    pass


class RaiseSig(Exception):
    def __init__(self, exc: VExc, where=""):
        self.exc, self.where = exc, where


class Obligation:
    __slots__ = ("oid", "kind", "label", "pc", "hyps", "goal", "path", "props", "unit", "finding",
                 "status", "backend", "time", "model", "detail", "theory", "src", "base_len", "extra")

    def __init__(self, **kw):
        for k in self.__slots__:
            setattr(self, k, kw.get(k))


class Base:
    def __init__(self, unit, th, decisions):
        self.unit = unit            # vfcore.explore.Unit
        self.th = th
        self.decisions = list(decisions)
        self.pos = 0
        self.pending = []           # alternative decision prefixes discovered on this path
        self.pc: list = []          # z3 facts
        self.hyps: list = []        # quantified hypotheses (FAll with captured env)
        self.obligations: list[Obligation] = []
        self.log: list = []         # effect log: (name, bound-args dict, result)
        self.fresh_n = 0
        self.enums: dict = {}
        self.hook_hits: dict = {}
        self.covers: list = []

    # ---- fresh symbols
    def fresh(self, kind, hint="v", cls=None):
        self.fresh_n += 1
        name = "%s!%d" % (hint, self.fresh_n)
        return self.mk(kind, name, cls)

    def mk(self, kind, name, cls=None):
        if kind == "int":
            return Sym(z3.Int(name), "int")
        if kind == "bool":
            return Sym(z3.Bool(name), "bool")
        if kind == "str":
            return Sym(z3.Const(name, self.th.Str), "str")
        if kind.startswith("ref") or kind.startswith("nref"):
            c = kind.split(":", 1)[1] if ":" in kind else cls
            return Sym(z3.Const(name, Ref), "ref", c, nullable=kind.startswith("nref"))
        if kind.startswith("enum:"):
            c = kind.split(":", 1)[1]
            sort, _ = self.enum_sort(c)
            return Sym(z3.Const(name, sort), "enum", c)
        if kind.startswith("opt[") and kind.endswith("]"):
            inner = self.mk(kind[4:-1], name, cls)
            return VOpt(z3.Bool(name + "?none"), inner)
        if kind.startswith("list[") and kind.endswith("]"):
            ek = kind[5:-1]
            ln = z3.Int(name + "#len")
            self.pc.append(ln >= 0)
            return VList(ln, self.mk_arr(ek, name), self.elem_of(ek))
        if kind == "none":
            return None
        raise GenError("unknown kind %r" % kind)

    def elem_of(self, ek):
        if ek.startswith("tuple[") and ek.endswith("]"):
            return tuple(x.strip() for x in ek[6:-1].split(","))
        return ek

    def sort_of(self, ek):
        if ek == "int":
            return Int
        if ek == "bool":
            return Bool
        if ek == "str":
            return self.th.Str
        if ek.startswith("ref") or ek.startswith("nref"):
            return Ref
        if ek.startswith("enum:"):
            return self.enum_sort(ek[5:])[0]
        raise GenError("no sort for element kind %r" % ek)

    def mk_arr(self, ek, name):
        e = self.elem_of(ek)
        if isinstance(e, tuple):
            return tuple(z3.Array("%s.%d" % (name, i), Int, self.sort_of(x)) for i, x in enumerate(e))
        return z3.Array(name, Int, self.sort_of(e))

    def enum_sort(self, clsname):
        if clsname not in _ENUMS:
            cls = self.unit.enum_class(clsname)
            names = [m.name for m in cls]
            sort, consts = z3.EnumSort(clsname, names)
            _ENUMS[clsname] = (sort, dict(zip(names, consts)), cls)
        s = _ENUMS[clsname]
        return s[0], s[1]

    # ---- lifting python constants / values to z3
    def z(self, v, want=None):
        if isinstance(v, Sym):
            return v.t
        if v is None:
            return NONE_REF          # (only meaningful where a nullable reference is expected)
        if isinstance(v, VFunc) and v.kind == "unmodelled":
            # the value of an unmodelled attribute used as data (Path(x).name in a path join ...): an unconstrained object
            return z3.FreshConst(Ref, "unmodelled_" + v.name.replace(".", "_"))
        if isinstance(v, bool):
            return z3.BoolVal(v)
        if isinstance(v, enum.Enum):
            sort, consts = self.enum_sort(type(v).__name__)
            return consts[v.name]
        if isinstance(v, int):
            return z3.IntVal(v)
        if isinstance(v, str):
            return self.th.lit(v)
        if z3.is_expr(v):
            return v
        if isinstance(v, VOpt) and isinstance(v.val, Sym):
            return v.val.t          # (the caller has established / assumes that it is not None)
        raise GenError("cannot lift %r to a term" % (v,))

    def kind_of(self, v):
        if isinstance(v, Sym):
            if v.k == "ref" and v.nullable:
                return "nref:%s" % v.cls
            return v.k if v.k not in ("ref", "enum") else "%s:%s" % (v.k, v.cls)
        if isinstance(v, bool):
            return "bool"
        if isinstance(v, enum.Enum):
            return "enum:" + type(v).__name__
        if isinstance(v, int):
            return "int"
        if isinstance(v, str):
            return "str"
        if v is None:
            return "none"
        if isinstance(v, VOpt):
            return "opt[%s]" % self.kind_of(v.val)
        if isinstance(v, VList):
            e = v.elem
            return "list[%s]" % (e if isinstance(e, str) else "tuple[%s]" % ",".join(e))
        if isinstance(v, list):
            ks = {self.kind_of(x) for x in v}
            if len(ks) == 1:
                return "list[%s]" % ks.pop()
            return "list[?]"
        return type(v).__name__

    def wrap(self, t, k=None, cls=None):
        if k is None:
            s = t.sort()
            if s.eq(Int):
                k = "int"
            elif s.eq(Bool):
                k = "bool"
            elif s.eq(self.th.Str):
                k = "str"
            elif s.eq(Ref):
                k = "ref"
            else:
                k = "enum"
        t = z3.simplify(t) if k in ("int", "bool") else t
        if k == "bool":
            if z3.is_true(t):
                return True
            if z3.is_false(t):
                return False
        if k == "int" and z3.is_int_value(t):
            return t.as_long()
        if k == "str":
            lv = self.th.litval(t)
            if lv is not None:
                return lv
        if k == "nref":
            return Sym(t, "ref", cls, nullable=True)
        return Sym(t, k, cls)

    # ---- assumptions / obligations
    def assume(self, f):
        """Assume a formula (F tree, z3 Bool, python bool, Sym bool)."""
        if f is None or f is True:
            return
        if f is False:
            raise PathEnd()
        if isinstance(f, Sym):
            f = f.t
        if z3.is_expr(f):
            if z3.is_false(z3.simplify(f)):
                raise PathEnd()
            self.pc.append(f)
            return
        if isinstance(f, FT):
            return self.assume(f.t)
        if isinstance(f, FAnd):
            for p in f.parts:
                self.assume(p)
            return
        if isinstance(f, FAll):
            self.hyps.append(f)
            return
        if isinstance(f, FEx):
            c = z3.FreshConst(Int, f.var)
            self.pc.append(z3.And(self.z(f.lo) <= c, c < self.z(f.hi)))
            return self.assume(f.body(c))
        if isinstance(f, FImp):
            a = self.f_to_term(f.a)
            if a is not None:
                # guard => quantified consequent: keep as guarded hypothesis
                return self.assume_guarded(a, f.b)
            raise GenError("implication with quantified antecedent in hypothesis position")
        if isinstance(f, FOr):
            ts = [self.f_to_term(p) for p in f.parts]
            if all(t is not None for t in ts):
                self.pc.append(z3.Or(*ts))
                return
            raise GenError("disjunction with quantified part in hypothesis position")
        raise GenError("cannot assume %r" % (f,))

    def assume_guarded(self, guard, f):
        if isinstance(f, FAll):
            body = f.body
            self.hyps.append(FAll(f.var, f.lo, f.hi,
                                  lambda c, body=body, guard=guard: FImp(FT(guard), body(c)), f.src))
            return
        if isinstance(f, FAnd):
            for p in f.parts:
                self.assume_guarded(guard, p)
            return
        if isinstance(f, FImp):
            a = self.f_to_term(f.a)
            if a is None:
                raise GenError("nested quantified antecedent")
            return self.assume_guarded(z3.And(guard, a), f.b)
        t = self.f_to_term(f)
        if t is None:
            raise GenError("cannot assume guarded %r" % (f,))
        self.pc.append(z3.Implies(guard, t))

    def f_to_term(self, f):
        """z3 Bool for a quantifier-free formula, None when it contains quantifier leaves."""
        if f is True or f is False:
            return z3.BoolVal(f)
        if isinstance(f, Sym):
            return f.t
        if z3.is_expr(f):
            return f
        if isinstance(f, FT):
            return f.t
        if isinstance(f, (FAnd, FOr)):
            ts = [self.f_to_term(p) for p in f.parts]
            if any(t is None for t in ts):
                return None
            return z3.And(*ts) if isinstance(f, FAnd) else z3.Or(*ts)
        if isinstance(f, FImp):
            a, b = self.f_to_term(f.a), self.f_to_term(f.b)
            if a is None or b is None:
                return None
            return z3.Implies(a, b)
        return None

    def prove(self, kind, label, f, props=None, finding=None, extra_pc=(), src="", extra_hyps=()):
        """Emit obligations for goal formula f: conjunctions split, foralls skolemised; a universally quantified
        antecedent becomes a hypothesis of the obligations of its consequent."""
        if f is None or f is True:
            f = z3.BoolVal(True)
        if f is False:
            f = z3.BoolVal(False)
        if isinstance(f, Sym):
            f = f.t
        if isinstance(f, FT):
            f = f.t
        if z3.is_expr(f):
            if z3.is_and(f) and len(f.children()) > 1 and kind != "nosplit":
                for i, c in enumerate(f.children()):
                    self.prove(kind, "%s.%d" % (label, i), c, props, finding, extra_pc, src, extra_hyps)
                return
            self._emit(kind, label, f, props, finding, extra_pc, src, extra_hyps)
            return
        if isinstance(f, FAnd):
            for i, p in enumerate(f.parts):
                self.prove(kind, "%s.%d" % (label, i) if len(f.parts) > 1 else label, p, props, finding,
                           extra_pc, src, extra_hyps)
            return
        if isinstance(f, FImp):
            a = self.f_to_term(f.a)
            if a is None:
                parts = f.a.parts if isinstance(f.a, FAnd) else [f.a]
                terms = [self.f_to_term(p) for p in parts if not isinstance(p, FAll)]
                alls = [p for p in parts if isinstance(p, FAll)]
                if any(t is None for t in terms) or not alls:
                    raise GenError("quantified antecedent in goal %s" % label)
                return self.prove(kind, label, f.b, props, finding, tuple(extra_pc) + tuple(terms), src,
                                  tuple(extra_hyps) + tuple(alls))
            return self.prove(kind, label, f.b, props, finding, tuple(extra_pc) + (a,), src, extra_hyps)
        if isinstance(f, FAll):
            c = z3.FreshConst(Int, f.var)
            rng = z3.And(self.z(f.lo) <= c, c < self.z(f.hi))
            try:
                body = f.body(c)
            except GenError:
                # names undefined on this (early-return) path: fine only if the guard is infeasible here
                if extra_pc and not self.feasible(z3.And(*extra_pc)):
                    return
                raise
            return self.prove(kind, label, body, props, finding, tuple(extra_pc) + (rng,), src, extra_hyps)
        if isinstance(f, (FOr, FEx)):
            t = self.goal_term(f)
            if t is not None:
                return self._emit(kind, label, t, props, finding, extra_pc, src, extra_hyps)
        raise GenError("cannot prove formula shape %r (%s)" % (f, label))

    def goal_term(self, f):
        """z3 Bool for a GOAL that may contain existential leaves (bounded `any(..)`): they become z3 Exists terms (negated
        in the query, i.e. a universal hypothesis for the solver's own instantiation); None for anything with a FAll leaf"""
        if isinstance(f, FEx):
            k = z3.FreshConst(Int, f.var)
            body = self.goal_term(f.body(k))
            if body is None:
                return None
            return z3.Exists([k], z3.And(self.z(f.lo) <= k, k < self.z(f.hi), body))
        if isinstance(f, (FAnd, FOr)):
            ts = [self.goal_term(p) for p in f.parts]
            if any(t is None for t in ts):
                return None
            return z3.And(*ts) if isinstance(f, FAnd) else z3.Or(*ts)
        return self.f_to_term(f)

    def _emit(self, kind, label, goal, props, finding, extra_pc, src, extra_hyps=()):
        sig = "".join("T" if d else "F" for d in self.decisions[:self.pos]) or "-"
        self.obligations.append(Obligation(
            oid="%s/%s[%s]/%s" % (self.unit.short, kind, label, sig),
            kind=kind, label=label, pc=list(self.pc) + list(extra_pc), hyps=list(self.hyps) + list(extra_hyps), goal=goal,
            base_len=len(self.pc), extra=list(extra_pc),
            path=sig, props=props or self.unit.contract.props, unit=self.unit.short, finding=finding,
            theory=self.th, src=src))

    # ---- branching
    def branch(self, cond, tag=""):
        """Decide a symbolic condition; explores both sides over re-executions."""
        if isinstance(cond, bool):
            return cond
        if isinstance(cond, Sym):
            cond = cond.t
        cond = z3.simplify(cond)
        if z3.is_true(cond):
            return True
        if z3.is_false(cond):
            return False
        if self.pos < len(self.decisions):
            d = self.decisions[self.pos]
        else:
            ft = self.feasible(cond)
            ff = self.feasible(z3.Not(cond))
            if ft and ff:
                self.pending.append(self.decisions[:self.pos] + [False])
                d = True
            elif ft:
                d = True
            elif ff:
                d = False
            else:
                raise PathEnd()
            self.decisions.append(d)
        self.pos += 1
        self.pc.append(cond if d else z3.Not(cond))
        return d

    def choose(self, n, tag=""):
        """Engine-level n-way choice (all alternatives explored): returns an index."""
        k = 0
        while k < n - 1:
            if self.pos < len(self.decisions):
                d = self.decisions[self.pos]
            else:
                self.pending.append(self.decisions[:self.pos] + [False])
                d = True
                self.decisions.append(d)
            self.pos += 1
            if d:
                return k
            k += 1
        return k

    def feasible(self, cond):
        s = z3.Solver()
        s.set("rlimit", 2000000)
        facts = list(self.pc) + [cond]
        for f in facts:
            s.add(f)
        for f in self.th.saturate(facts):
            s.add(f)
        r = s.check()
        return r != z3.unsat

    # ---- misc helpers shared by the mixins
    def truth(self, v):
        """Python truthiness as python bool or z3 Bool."""
        if isinstance(v, bool):
            return v
        if v is None:
            return False
        if isinstance(v, (int, str, tuple, list, dict, frozenset, set)):
            return bool(v)
        if isinstance(v, enum.Enum):
            return bool(v)
        if isinstance(v, Sym):
            if v.k == "bool":
                return v.t
            if v.k == "int":
                return v.t != 0
            if v.k == "str":
                return v.t != self.th.empty
            return True
        if isinstance(v, VOpt):
            inner = self.truth(v.val)
            inner = z3.BoolVal(inner) if isinstance(inner, bool) else inner
            return z3.And(z3.Not(v.is_none), inner)
        if isinstance(v, VList):
            return self.z(v.length) > 0 if not isinstance(v.length, int) else v.length > 0
        if isinstance(v, VSet):
            ms = [m if not isinstance(m, bool) else z3.BoolVal(m) for m in v.members.values()]
            return z3.Or(*ms) if ms else False
        if isinstance(v, (VObj, VFunc, VUnique)):
            return True
        if type(v).__name__ == "VOpaque":
            return z3.FreshConst(Bool, "opaque_truth")
        if isinstance(v, F):
            t = self.f_to_term(v)
            if t is not None:
                return t
        raise GenError("truthiness of %r" % (v,))

    def b(self, x):
        return z3.BoolVal(x) if isinstance(x, bool) else x
