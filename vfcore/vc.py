"""Discharging obligations: engine-side instantiation of quantified hypotheses, theory
saturation, z3 (rlimit, deterministic) first, SMT-LIB dump to the CLI solvers for unknowns."""
from __future__ import annotations

import os
import subprocess
import tempfile
import time

import z3

from .sx_base import GenError, Obligation
from .theory import Int
from .values import FAll, FAnd, FImp, FT, F

RLIMIT = int(os.environ.get("VF_RLIMIT", "40000000"))
MAX_CANDS = 24


def _int_candidates(terms, limit=200):
    """Int-sorted terms that occur as array indices or as arguments of uninterpreted functions."""
    seen, out, outset = set(), [], set()
    stack = list(terms)
    while stack:
        t = stack.pop()
        i = t.get_id()
        if i in seen:
            continue
        seen.add(i)
        if z3.is_quantifier(t):
            continue
        if not z3.is_app(t):
            continue
        ch = t.children()
        stack.extend(ch)
        k = t.decl().kind()
        cand = []
        if k == z3.Z3_OP_SELECT or k == z3.Z3_OP_STORE:
            cand.append(ch[1])
        elif k == z3.Z3_OP_UNINTERPRETED and ch:
            cand.extend(c for c in ch if c.sort().eq(Int))
        for c in cand:
            c = z3.simplify(c)
            if _has_var(c):
                continue
            if c.get_id() not in outset and len(out) < limit:
                outset.add(c.get_id())
                out.append(c)
    return out


def _has_var(t):
    stack = [t]
    while stack:
        x = stack.pop()
        if z3.is_var(x):
            return True
        if z3.is_app(x):
            stack.extend(x.children())
        elif z3.is_quantifier(x):
            return True
    return False


def instantiate(ob: Obligation, ex, rounds=2):
    """Ground instances of the quantified hypotheses at the index terms occurring in the VC."""
    facts = []
    base = list(ob.pc) + [ob.goal]
    done = set()
    for rnd in range(rounds):
        cands = _int_candidates(base + facts)
        # prefer small terms
        cands.sort(key=lambda c: (len(str(c)), str(c)))
        cands = cands[:MAX_CANDS]
        new = []
        for hi, h in enumerate(ob.hyps):
            for c in cands:
                key = (hi, c.get_id())
                if key in done:
                    continue
                done.add(key)
                collector = []
                saved = ex.pc
                ex.pc = collector
                try:
                    body = h.body(c)
                    t = _to_term(ex, body, new, collector)
                except GenError:
                    t = None
                finally:
                    ex.pc = saved
                if t is None:
                    continue
                rng = z3.And(ex.z(h.lo) <= c, c < ex.z(h.hi))
                new.append(z3.Implies(rng, t))
                new.extend(collector)
        if not new:
            break
        facts.extend(new)
    return facts


def _to_term(ex, f, extra, collector):
    t = ex.f_to_term(f)
    if t is not None:
        return t
    # nested quantifier inside a hypothesis body: keep only the quantifier-free conjuncts
    if isinstance(f, FAnd):
        ts = [_to_term(ex, p, extra, collector) for p in f.parts]
        ts = [x for x in ts if x is not None]
        return z3.And(*ts) if ts else None
    if isinstance(f, FImp):
        a = ex.f_to_term(f.a)
        b = _to_term(ex, f.b, extra, collector)
        if a is not None and b is not None:
            return z3.Implies(a, b)
    return None


def build_query(ob: Obligation, ex):
    inst = instantiate(ob, ex) if ob.hyps else []
    core = list(ob.pc) + inst
    sat_facts = ob.theory.saturate(core + [ob.goal])
    return core + sat_facts, ob.goal


def discharge(ob: Obligation, ex, rlimit=RLIMIT):
    t0 = time.time()
    try:
        facts, goal = build_query(ob, ex)
    except GenError as e:
        ob.status, ob.backend, ob.model, ob.time = "error", "vf", str(e), time.time() - t0
        return ob
    s = z3.Solver()
    s.set("rlimit", rlimit)
    s.set("random_seed", 7)
    for f in facts:
        s.add(f)
    s.add(z3.Not(goal))
    r = s.check()
    ob.backend = "z3-%s" % z3.get_version_string()
    if r == z3.unsat:
        ob.status = "discharged"
    elif r == z3.sat:
        ob.status = "refuted"
        try:
            ob.model = s.model()
        except z3.Z3Exception:
            ob.model = None
    else:
        ob.status = "unknown"
        ob.model = s.reason_unknown()
        # second opinion from the CLI solvers on the SMT-LIB dump
        smt = s.to_smt2()
        for name, cmd in (("z3-4.8.12", ["/usr/bin/z3", "-T:20", "-in"]),
                          ("cvc5", ["/usr/bin/cvc5", "--lang=smt2", "--tlimit=20000", "--strings-exp"])):
            try:
                p = subprocess.run(cmd, input=smt, capture_output=True, text=True, timeout=30)
                out = p.stdout.strip().splitlines()[0] if p.stdout.strip() else ""
            except Exception:
                out = ""
            if out == "unsat":
                ob.status, ob.backend = "discharged", name
                break
            if out == "sat":
                ob.status, ob.backend = "refuted", name
                break
    ob.time = time.time() - t0
    return ob


def smtlib(ob: Obligation, ex):
    facts, goal = build_query(ob, ex)
    s = z3.Solver()
    for f in facts:
        s.add(f)
    s.add(z3.Not(goal))
    return s.to_smt2()
