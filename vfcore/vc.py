"""Discharging obligations: engine-side instantiation of quantified hypotheses, definitional
unfolding of spec functions (joinr, strip), free-monoid saturation; z3 (rlimit, deterministic)
first, SMT-LIB dump to the CLI solvers for unknowns.  All queries are quantifier-free."""
from __future__ import annotations

import os
import subprocess
import time

import z3

from .sx_base import GenError, Obligation
from .theory import Int
from .values import FAll, FAnd, FImp, FT, F

RLIMIT = int(os.environ.get("VF_RLIMIT", "60000000"))
CAND_STEPS = (10, 40)
TIMEOUT_MS = int(os.environ.get("VF_TIMEOUT_MS", "30000"))   # wall-clock guard on top of the deterministic rlimit

from .theory import analyze_all


_inst_cache: dict = {}


def _instance(ex, h, c):
    """ground instance of hypothesis h at c; memoised"""
    key = (id(h), c.get_id())
    hit = _inst_cache.get(key)
    if hit is not None:
        return hit[2], hit[3]
    collector = []
    saved = ex.pc
    ex.pc = collector
    try:
        body = h.body(c)
        t = _to_term(ex, body)
    except GenError:
        t = None
    finally:
        ex.pc = saved
    if t is not None:
        rng = z3.And(ex.z(h.lo) <= c, c < ex.z(h.hi))
        t = z3.Implies(rng, t)
    _inst_cache[key] = (h, c, t, collector)
    return t, collector


def _to_term(ex, f):
    t = ex.f_to_term(f)
    if t is not None:
        return t
    # nested quantifier inside a hypothesis body: keep only the quantifier-free conjuncts
    if isinstance(f, FAnd):
        ts = [_to_term(ex, p) for p in f.parts]
        ts = [x for x in ts if x is not None]
        return z3.And(*ts) if ts else None
    if isinstance(f, FImp):
        a = ex.f_to_term(f.a)
        b = _to_term(ex, f.b)
        if a is not None and b is not None:
            return z3.Implies(a, b)
    return None


def candidates(terms, th, limit):
    return analyze_all(terms, th).cands[:limit]


def definitional(ex, th, terms, depth=2):
    """Unfolding / stability facts for every joinr and strip application in `terms` (closure to `depth`)."""
    facts = []
    done = set()
    frontier = analyze_all(terms, th).special
    for level in range(depth):
        new_terms = []
        for app in frontier:
            if app.get_id() in done:
                continue
            done.add(app.get_id())
            fs = ex.unfold(app)
            facts.extend(fs)
            new_terms.extend(fs)
        if not new_terms:
            break
        frontier = [x for x in analyze_all(new_terms, th).special if x.get_id() not in done]
    seen_sub = set()
    for _round in range(2):       # second round: slices introduced by the concatenation facts of the first
        apps = [x for x in analyze_all(list(terms) + facts, th).special if x.decl().name() == "substr"]
        key = tuple(sorted(a.get_id() for a in apps))
        if not apps or key in seen_sub:
            break
        seen_sub.add(key)
        facts.extend(_substr_facts(th, apps))
    return facts


def _substr_facts(th, apps, limit=18):
    """Definitional facts of s[a:b] (bounds already clamped to 0..len(s)): the empty and the whole slice, and adjacent
    slices of one string concatenate: s[a:b] + s[b:c] == s[a:c]."""
    out = []
    apps = apps[:limit]
    for p in apps:
        s0, a, b = p.arg(0), p.arg(1), p.arg(2)
        out.append(z3.Implies(b <= a, p == th.empty))
        out.append(z3.Implies(z3.And(a == 0, b == th.length(s0)), p == s0))
    f = apps[0].decl() if apps else None
    for p in apps:
        for q in apps:
            if p.get_id() == q.get_id() or not p.arg(0).eq(q.arg(0)):
                continue
            a, b, c = p.arg(1), p.arg(2), q.arg(2)
            out.append(z3.Implies(z3.And(b == q.arg(1), a <= b, b <= c), th.cat(p, q) == f(p.arg(0), a, c)))
    return out


def build_query(ob: Obligation, ex, ncands=40, rounds=2):
    th = ob.theory
    base = [ob.goal] + list(reversed(ob.pc))
    inst = []
    if ob.hyps and ncands:
        done = set()
        for rnd in range(rounds):
            cands = candidates(base + inst, th, ncands)
            new = []
            for hi, h in enumerate(ob.hyps):
                for c in cands:
                    key = (hi, c.get_id())
                    if key in done:
                        continue
                    done.add(key)
                    t, extra = _instance(ex, h, c)
                    if t is not None:
                        new.append(t)
                        new.extend(extra)
            if not new:
                break
            inst.extend(new)
    core = list(ob.pc) + inst
    defs = definitional(ex, th, core + [ob.goal], depth=getattr(getattr(getattr(ex, 'unit', None), 'contract', None), 'unfold_depth', 2))
    core += defs
    sat_facts = th.saturate(core + [ob.goal])
    seen, facts = set(), []
    for f in core + sat_facts:
        if f.get_id() not in seen:
            seen.add(f.get_id())
            facts.append(f)
    return facts, ob.goal


def discharge(ob: Obligation, ex, rlimit=RLIMIT):
    t0 = time.time()
    r = None
    s = None
    steps = CAND_STEPS if ob.hyps else (0,)
    try:
        for n in steps:
            facts, goal = build_query(ob, ex, ncands=n)
            s = z3.Solver()
            s.set("rlimit", rlimit)
            s.set("timeout", TIMEOUT_MS)
            s.set("random_seed", 7)
            for f in facts:
                s.add(f)
            s.add(z3.Not(goal))
            r = s.check()
            if r == z3.unsat:
                break
    except GenError as e:
        ob.status, ob.backend, ob.model, ob.time = "error", "vf", str(e), time.time() - t0
        return ob
    ob.backend = "z3-%s" % z3.get_version_string()
    if r == z3.unsat:
        ob.status = "discharged"
    elif r == z3.sat:
        ob.status = "refuted"
        try:
            ob.model = s.model()
        except z3.Z3Exception:
            ob.model = None
    else:
        ob.status = "unknown"
        ob.model = s.reason_unknown()
        smt = s.to_smt2()
        for name, cmd in (("z3-4.8.12", ["/usr/bin/z3", "-T:20", "-in"]),
                          ("cvc5", ["/usr/bin/cvc5", "--lang=smt2", "--tlimit=20000", "--strings-exp"])):
            try:
                p = subprocess.run(cmd, input=smt, capture_output=True, text=True, timeout=30)
                out = p.stdout.strip().splitlines()[0] if p.stdout.strip() else ""
            except Exception:
                out = ""
            if out == "unsat":
                ob.status, ob.backend = "discharged", name
                break
            if out == "sat":
                ob.status, ob.backend = "refuted", name
                break
        if ob.status == "unknown" and "timeout" in str(ob.model) or ob.status == "unknown" and "canceled" in str(ob.model):
            # the wall-clock guard fired (machine load), not the deterministic rlimit: one more attempt with four times
            # the wall budget, so that verdicts do not flip when all cores are busy
            s2 = z3.Solver()
            s2.set("rlimit", rlimit)
            s2.set("timeout", 4 * TIMEOUT_MS)
            s2.set("random_seed", 7)
            for f in facts:
                s2.add(f)
            s2.add(z3.Not(goal))
            r2 = s2.check()
            if r2 == z3.unsat:
                ob.status, ob.backend = "discharged", "z3-%s(retry)" % z3.get_version_string()
            elif r2 == z3.sat:
                ob.status, ob.backend = "refuted", "z3-%s(retry)" % z3.get_version_string()
                try:
                    ob.model = s2.model()
                except z3.Z3Exception:
                    pass
    ob.time = time.time() - t0
    return ob


def discharge_all(obligations, rlimit=RLIMIT, shard=0, nshards=1):
    """Discharge a unit's obligations, sharing instantiation and solver state between obligations that
    were emitted at the same program point of the same path (same path condition and hypotheses).
    With nshards > 1 only every nshards-th group is handled (the others keep status None)."""
    groups = {}
    for ob in obligations:
        key = (id(ob.detail), ob.base_len, len(ob.hyps), id(ob.hyps[-1]) if ob.hyps else 0)
        groups.setdefault(key, []).append(ob)
    for gi, obs in enumerate(groups.values()):
        if gi % nshards != shard:
            continue
        if len(obs) == 1:
            discharge(obs[0], obs[0].detail, rlimit)
        else:
            _discharge_group(obs, rlimit)
    return obligations


def _discharge_group(obs, rlimit):
    ex = obs[0].detail
    th = obs[0].theory
    t0 = time.time()
    base_pc = obs[0].pc[:obs[0].base_len]
    goals = [z3.Implies(z3.And(*o.extra), o.goal) if o.extra else o.goal for o in obs]
    pseudo = Obligation(pc=list(base_pc), hyps=obs[0].hyps, goal=z3.And(*goals), theory=th, base_len=len(base_pc), extra=[])
    try:
        facts, _ = build_query(pseudo, ex, ncands=CAND_STEPS[0] + 2 * len(obs))
    except GenError:
        for o in obs:
            discharge(o, ex, rlimit)
        return
    s = z3.Solver()
    s.set("rlimit", rlimit)
    s.set("timeout", TIMEOUT_MS)
    s.set("random_seed", 7)
    for f in facts:
        s.add(f)
    per = (time.time() - t0) / len(obs)
    for o, g in zip(obs, goals):
        t1 = time.time()
        s.push()
        s.add(z3.Not(g))
        r = s.check()
        s.pop()
        if r == z3.unsat:
            o.status, o.backend, o.time = "discharged", "z3-%s" % z3.get_version_string(), per + time.time() - t1
        else:
            discharge(o, ex, rlimit)     # full individual treatment (more instances, model, fallbacks)


def smtlib(ob: Obligation, ex):
    facts, goal = build_query(ob, ex)
    s = z3.Solver()
    for f in facts:
        s.add(f)
    s.add(z3.Not(goal))
    return s.to_smt2()
