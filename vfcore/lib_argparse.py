"""Assumed contract of argparse (DESIGN §2.4), as a model for the symbolic executor.

  * `add_argument(*option_strings, action=, type=, default=, dest=, nargs=, choices=)` registers an
    option; dest is derived as argparse does (explicit dest, else first long option without the
    dashes and with '-' -> '_', else first short option, else the positional name).
  * `parse_args(cmdline)` / `parse_known_args(cmdline)` return a namespace in which, for each
    registered option, the attribute is the option's value if one of its option strings occurs on
    the command line and its default otherwise.  Whether an option "occurs" is a property of the
    command line and the *set of option strings* only (symbol given!<cmdline>!<strings>), so two
    parsers agree on it exactly when they declare the same strings for it; the parsed value is a
    symbol val!<cmdline>!<strings> (an int for type=int, a non-empty list for action='append', a
    member of `choices` when given).
  * store_true: value True when given; default False unless stated.
"""
from __future__ import annotations

import z3

from .contracts import Callee
from .sx_base import GenError, RaiseSig
from .theory import Int
from .values import Sym, VChoice, VExc, VFunc, VList, VObj, VOpt, VUnique


def _parser_ctor(ex, node, args, kwargs):
    return VObj("ArgumentParser", {"_opts": [], "_kw": dict(kwargs)})


def derive_dest(names, kw):
    if "dest" in kw:
        return kw["dest"]
    longs = [n for n in names if n.startswith("--")]
    if longs:
        return longs[0][2:].replace("-", "_")
    shorts = [n for n in names if n.startswith("-")]
    if shorts:
        return shorts[0][1:].replace("-", "_")
    return names[0]


def _add_argument(ex, node, args, kwargs):
    parser, names = args[0], [a for a in args[1:]]
    if not all(isinstance(n, str) for n in names):
        raise GenError("add_argument with symbolic option strings")
    spec = {"names": tuple(names), "dest": derive_dest(names, kwargs), "action": kwargs.get("action", "store"),
            "type": kwargs.get("type"), "has_default": "default" in kwargs, "default": kwargs.get("default"),
            "nargs": kwargs.get("nargs"), "choices": kwargs.get("choices"),
            "positional": not names[0].startswith("-")}
    parser.fields["_opts"].append(spec)
    return None


def cmdline_token(ex, args):
    """Identify which command line is parsed: the caller's `args` parameter or sys.argv[1:]."""
    if args is None:
        return "argv[1:None]"
    if isinstance(args, VOpt):
        if ex.branch(args.is_none, "args is None"):
            return "argv[1:None]"
        return "ARGS"
    if isinstance(args, VList):
        return args.cls or "list%d" % args.uid
    raise GenError("parse_args of %r" % (args,))


def given_sym(token, names):
    return z3.Bool("given!%s!%s" % (token, "/".join(sorted(names))))


def _namespace(ex, parser, token):
    ns = VObj("Namespace")
    S = ex.th.Str
    for o in parser.fields["_opts"]:
        key = "%s!%s" % (token, "/".join(sorted(o["names"])))
        given = z3.Bool("given!" + key)
        default = o["default"]
        act, typ = o["action"], o["type"]
        tname = getattr(typ, "name", None) or (typ.__name__ if isinstance(typ, type) else None)
        if o["positional"]:
            lst = VList(z3.Int("val!%s#len" % key), z3.Array("val!" + key, Int, S), "str")
            ex.pc.append(lst.length >= 0)
            v = lst
        elif act == "store_true":
            if not o["has_default"]:
                default = False
            v = _choice(ex, given, True, default)
        elif act == "append":
            lst = VList(z3.Int("val!%s#len" % key), z3.Array("val!" + key, Int, S), "str")
            ex.pc.append(lst.length >= 1)
            if default is None:
                v = VOpt(z3.Not(given), lst)
            elif isinstance(default, list) and not default:
                v = ex.ite(given, lst, VList(0, z3.Array("empty!" + key, Int, S), "str"))
            else:
                raise GenError("append with default %r" % (default,))
        elif act == "store":
            if tname == "int":
                val = Sym(z3.Int("val!" + key), "int")
            else:
                val = Sym(z3.Const("val!" + key, S), "str")
                if o["choices"]:
                    ex.pc.append(z3.Implies(given, z3.Or(*[val.t == ex.th.lit(c) for c in o["choices"]])))
            v = _choice(ex, given, val, default)
        else:
            raise GenError("argparse action %r" % (act,))
        ns.fields[o["dest"]] = v
    return ns


def _choice(ex, given, val, default):
    if default is None:
        return VOpt(z3.Not(given), val) if isinstance(val, Sym) else VChoice(given, val, None)
    if isinstance(default, VUnique):
        return VChoice(given, val, default)
    kv, kd = ex.kind_of(val), ex.kind_of(default)
    if kv == kd:
        return ex.ite(given, val, default)
    return VChoice(given, val, default)


def _parse_args(ex, node, args, kwargs):
    parser = args[0]
    cmd = args[1] if len(args) > 1 else kwargs.get("args")
    token = cmdline_token(ex, cmd)
    return _namespace(ex, parser, token)


def _parse_known_args(ex, node, args, kwargs):
    parser = args[0]
    cmd = args[1] if len(args) > 1 else kwargs.get("args")
    token = cmdline_token(ex, cmd)
    return (_namespace(ex, parser, token), ex.fresh("list[str]", "extras"))


def _argv(ex):
    S = ex.th.Str
    l = VList(z3.Int("argv#len"), z3.Array("argv", Int, S), "str", cls="argv")
    ex.pc.append(l.length >= 1)
    return l


CALLS = {
    "argparse.ArgumentParser": Callee("custom", handler=_parser_ctor),
    "ArgumentParser.add_argument": Callee("custom", handler=_add_argument),
    "ArgumentParser.parse_args": Callee("custom", handler=_parse_args),
    "ArgumentParser.parse_known_args": Callee("custom", handler=_parse_known_args),
    "sys.argv": Callee("value", handler=_argv),
}
