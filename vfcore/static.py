"""ST obligations: frame conditions decided by exact syntactic read/write-set computation over the
ASTs of the real source (DESIGN §3 C13, "ST").  Every obligation is generated from what the code
contains today (no allow-list of names), so adding a harmless constant raises nothing and a new
write to shared state fails a named obligation."""
from __future__ import annotations

import ast
import os

from . import REPO

# standard-library calls that change state of the whole process (visible to every other call, also one in progress)
PROCESS_SETTERS = {"setrecursionlimit", "setswitchinterval", "settrace", "setprofile", "chdir", "umask", "putenv", "unsetenv",
                   "setlocale", "seed", "simplefilter", "filterwarnings", "resetwarnings", "signal", "basicConfig", "setcontext",
                   "set_threshold", "setdefaulttimeout", "reload", "tzset", "setrlimit", "set_int_max_str_digits",
                   "setdefaultencoding", "install", "set_start_method", "addaudithook", "setLevel", "addHandler", "disable"}

MUTATORS = {"append", "extend", "insert", "pop", "remove", "clear", "update", "add", "discard", "setdefault",
            "sort", "reverse", "popitem", "__setitem__", "__delitem__"}


def package_modules(root=None, include=None, exclude=()):
    root = root or os.path.join(REPO, "src", "flowmark")
    out = {}
    for dp, dn, fn in os.walk(root):
        for f in fn:
            if not f.endswith(".py"):
                continue
            p = os.path.join(dp, f)
            rel = os.path.relpath(p, os.path.join(REPO, "src"))[:-3].replace(os.sep, ".")
            if rel.endswith(".__init__"):
                rel = rel[:-9]
            if any(rel.startswith(e) for e in exclude):
                continue
            if include and not any(rel.startswith(i) for i in include):
                continue
            out[rel] = ast.parse(open(p, encoding="utf-8").read())
    return out


class FuncInfo:
    def __init__(self, mod, qual, node, cls=None, parent=None):
        self.mod, self.qual, self.node, self.cls, self.parent = mod, qual, node, cls, parent
        self.locals = set()
        self.params = set()


def functions_of(modname, tree):
    out = []

    def visit(node, prefix, cls, parent):
        for n in ast.iter_child_nodes(node):
            if isinstance(n, (ast.FunctionDef, ast.AsyncFunctionDef)):
                fi = FuncInfo(modname, prefix + n.name, n, cls, parent)
                out.append(fi)
                visit(n, prefix + n.name + ".<locals>.", None, fi)
            elif isinstance(n, ast.ClassDef):
                visit(n, prefix + n.name + ".", n, parent)
            elif isinstance(n, (ast.If, ast.Try, ast.With, ast.For, ast.While)):
                visit(n, prefix, cls, parent)
    visit(tree, "", None, None)
    return out


def local_names(fn: ast.FunctionDef):
    """names bound inside the function itself (params, assignments, for/with targets, imports, defs)"""
    a = fn.args
    params = {x.arg for x in a.posonlyargs + a.args + a.kwonlyargs}
    if a.vararg:
        params.add(a.vararg.arg)
    if a.kwarg:
        params.add(a.kwarg.arg)
    names = set(params)
    declared_global = set()
    for n in _walk_own(fn):
        if isinstance(n, ast.Global):
            declared_global |= set(n.names)
        elif isinstance(n, ast.Name) and isinstance(n.ctx, (ast.Store, ast.Del)):
            names.add(n.id)
        elif isinstance(n, (ast.FunctionDef, ast.ClassDef)) and n is not fn:
            names.add(n.name)
        elif isinstance(n, (ast.Import, ast.ImportFrom)):
            for al in n.names:
                names.add((al.asname or al.name).split(".")[0])
        elif isinstance(n, ast.ExceptHandler) and n.name:
            names.add(n.name)
        elif isinstance(n, ast.comprehension):
            for x in ast.walk(n.target):
                if isinstance(x, ast.Name):
                    names.add(x.id)
    return names - declared_global, params, declared_global


def _walk_own(fn):
    """walk the body of fn without descending into nested function / class definitions"""
    stack = list(fn.body)
    while stack:
        n = stack.pop()
        yield n
        if isinstance(n, (ast.FunctionDef, ast.AsyncFunctionDef, ast.ClassDef, ast.Lambda)):
            continue
        for c in ast.iter_child_nodes(n):
            if isinstance(c, (ast.FunctionDef, ast.AsyncFunctionDef, ast.ClassDef, ast.Lambda)):
                yield c          # the def itself (binding), not its body
                continue
            stack.append(c)


def root_name(n):
    while isinstance(n, (ast.Attribute, ast.Subscript)):
        n = n.value
    return n.id if isinstance(n, ast.Name) else None


def module_bindings(tree):
    """module-level names -> ('mutable'|'other', node) for assignments; imports -> 'import'"""
    out = {}
    for n in tree.body:
        targets = []
        if isinstance(n, ast.Assign):
            targets, val = n.targets, n.value
        elif isinstance(n, ast.AnnAssign) and n.value is not None:
            targets, val = [n.target], n.value
        elif isinstance(n, (ast.Import, ast.ImportFrom)):
            for al in n.names:
                out[(al.asname or al.name).split(".")[0]] = ("import", n)
            continue
        elif isinstance(n, (ast.FunctionDef, ast.ClassDef)):
            out[n.name] = ("def", n)
            continue
        else:
            continue
        kind = "mutable" if _is_mutable_literal(val) else "other"
        for t in targets:
            if isinstance(t, ast.Name):
                out[t.id] = (kind, val)
    return out


def _is_mutable_literal(v):
    if isinstance(v, (ast.List, ast.Dict, ast.Set, ast.ListComp, ast.DictComp, ast.SetComp)):
        return True
    if isinstance(v, ast.Call) and isinstance(v.func, ast.Name) and v.func.id in ("list", "dict", "set", "defaultdict", "OrderedDict"):
        return True
    return False


def enclosing_locals(fi: FuncInfo):
    names = set()
    p = fi.parent
    while p is not None:
        ln, _, _ = local_names(p.node)
        names |= ln
        p = p.parent
    return names


def frame_obligations(modules: dict):
    """Returns list of records {oid, status, src, detail}."""
    recs = []

    def rec(oid, ok, src, detail=""):
        recs.append({"oid": oid, "status": "discharged" if ok else "refuted", "src": src, "detail": detail})

    for modname, tree in sorted(modules.items()):
        mb = module_bindings(tree)
        short = modname.replace("flowmark.", "")
        for fi in functions_of(modname, tree):
            fn = fi.node
            lnames, params, gdecl = local_names(fn)
            outer = enclosing_locals(fi)
            visible_local = lnames | outer
            # the first parameter of a classmethod is the class object itself: shared by every call in the process
            if any(ast.unparse(d).split(".")[-1] == "classmethod" for d in fn.decorator_list) and fn.args.args:
                visible_local = visible_local - {fn.args.args[0].arg}
            bad_global, bad_store, bad_mut, bad_self, bad_dyn, bad_default, bad_proc = [], [], [], [], [], [], []
            if gdecl:
                bad_global = sorted(gdecl)
            for n in _walk_own(fn):
                # stores through attribute / subscript whose root is not a local
                tgts = []
                if isinstance(n, ast.Assign):
                    tgts = n.targets
                elif isinstance(n, (ast.AugAssign, ast.AnnAssign)):
                    tgts = [n.target]
                elif isinstance(n, ast.Delete):
                    tgts = n.targets
                for t in tgts:
                    for x in ([t] if not isinstance(t, (ast.Tuple, ast.List)) else t.elts):
                        if isinstance(x, (ast.Attribute, ast.Subscript)):
                            r = root_name(x)
                            if r is None or r not in visible_local:
                                bad_store.append("%s (line %d)" % (ast.unparse(x), n.lineno))
                if isinstance(n, ast.Call):
                    f = n.func
                    if isinstance(f, ast.Attribute) and f.attr in MUTATORS:
                        r = root_name(f.value)
                        if r is not None and r not in visible_local:
                            bad_mut.append("%s (line %d)" % (ast.unparse(f), n.lineno))
                    if ((isinstance(f, ast.Attribute) and f.attr in PROCESS_SETTERS and (root_name(f.value) is None or root_name(f.value) not in visible_local))
                            or (isinstance(f, ast.Name) and f.id in PROCESS_SETTERS and f.id not in visible_local)):
                        bad_proc.append("%s (line %d)" % (ast.unparse(f), n.lineno))
                    if isinstance(f, ast.Name) and f.id in ("globals", "vars", "exec", "eval"):
                        bad_dyn.append("%s() (line %d)" % (f.id, n.lineno))
                    if isinstance(f, ast.Name) and f.id in ("setattr", "delattr") and n.args:
                        r = root_name(n.args[0])
                        if r is None or r not in visible_local:
                            bad_dyn.append("%s (line %d)" % (ast.unparse(n), n.lineno))
                if isinstance(n, ast.Attribute) and n.attr in ("__dict__", "__class__") and isinstance(n.ctx, ast.Store):
                    bad_dyn.append(ast.unparse(n))
            a = fn.args
            for d in list(a.defaults) + [d for d in a.kw_defaults if d is not None]:
                if _is_mutable_literal(d):
                    bad_default.append(ast.unparse(d))
            base = "%s:%s" % (short, fi.qual)
            rec("frame/%s/no_global_decl" % base, not bad_global, "no `global` statement", ", ".join(bad_global))
            rec("frame/%s/no_nonlocal_store" % base, not bad_store,
                "no attribute/subscript store or del whose base is a module-level name, an imported module or a class object",
                "; ".join(bad_store))
            rec("frame/%s/no_shared_mutation" % base, not bad_mut,
                "no mutating method call on an object that is not local to the call", "; ".join(bad_mut))
            rec("frame/%s/no_dynamic_state" % base, not bad_dyn, "no globals()/exec/setattr on non-local objects", "; ".join(bad_dyn))
            rec("frame/%s/no_process_wide_setter" % base, not bad_proc,
                "no call of a standard-library function that changes process-wide state (recursion limit, cwd, locale, warnings, ...)",
                "; ".join(bad_proc))
            rec("frame/%s/no_mutable_default" % base, not bad_default, "no mutable default argument", "; ".join(bad_default))
        # module-level mutable bindings: not mutated, not escaping un-copied
        for name, (kind, val) in sorted(mb.items()):
            if kind != "mutable":
                continue
            escapes = []
            for fi in functions_of(modname, tree):
                lnames, _, _ = local_names(fi.node)
                if name in lnames:
                    continue
                for n in _walk_own(fi.node):
                    if isinstance(n, ast.Return) and isinstance(n.value, ast.Name) and n.value.id == name:
                        escapes.append("returned by %s" % fi.qual)
                    if isinstance(n, ast.Assign) and isinstance(n.value, ast.Name) and n.value.id == name:
                        escapes.append("aliased in %s (line %d)" % (fi.qual, n.lineno))
                    if isinstance(n, ast.IfExp) or isinstance(n, ast.BoolOp):
                        for v in ([n.body, n.orelse] if isinstance(n, ast.IfExp) else n.values):
                            if isinstance(v, ast.Name) and v.id == name:
                                escapes.append("may flow un-copied out of an expression in %s (line %d)" % (fi.qual, n.lineno))
            rec("frame/%s:%s/module_state_unshared" % (short, name), not escapes,
                "module-level mutable value %s is never returned / aliased un-copied" % name, "; ".join(escapes))
        # class-level mutable attributes
        for n in ast.walk(tree):
            if isinstance(n, ast.ClassDef):
                for st in n.body:
                    v = st.value if isinstance(st, (ast.Assign, ast.AnnAssign)) else None
                    if v is not None and _is_mutable_literal(v):
                        tname = ast.unparse(st.targets[0] if isinstance(st, ast.Assign) else st.target)
                        rec("frame/%s:%s.%s/class_attr_immutable" % (short, n.name, tname), False,
                            "class attribute with a mutable default is shared by all instances", ast.unparse(st))
    return recs


def cache_obligations(modules):
    """memoising decorators: the cached function takes no parameters and returns an instance of a class none
    of whose methods stores an attribute (so the single cached object carries no state between calls)"""
    recs = []
    for modname, tree in sorted(modules.items()):
        short = modname.replace("flowmark.", "")
        classes = {n.name: n for n in ast.walk(tree) if isinstance(n, ast.ClassDef)}
        for n in ast.walk(tree):
            if not isinstance(n, ast.FunctionDef):
                continue
            decos = [ast.unparse(d) for d in n.decorator_list]
            if not any(d.split("(")[0].split(".")[-1] in ("cache", "lru_cache", "cached_property") for d in decos):
                continue
            a = n.args
            noparams = not (a.posonlyargs or a.args or a.kwonlyargs or a.vararg or a.kwarg)
            stateless = True
            detail = []
            rets = [r.value for r in ast.walk(n) if isinstance(r, ast.Return) and r.value is not None]
            for r in rets:
                if isinstance(r, ast.Call) and isinstance(r.func, ast.Name) and r.func.id in classes:
                    for m in classes[r.func.id].body:
                        if isinstance(m, ast.FunctionDef):
                            for x in ast.walk(m):
                                if isinstance(x, ast.Attribute) and isinstance(x.ctx, ast.Store) and root_name(x) == "self":
                                    stateless = False
                                    detail.append("%s.%s stores %s" % (r.func.id, m.name, ast.unparse(x)))
                else:
                    stateless = False
                    detail.append("returns %s (not a known stateless class instance)" % ast.unparse(r))
            recs.append({"oid": "frame/%s:%s/cache_stateless" % (short, n.name),
                         "status": "discharged" if (noparams and stateless) else "refuted",
                         "src": "@cache function has no parameters and returns a stateless object",
                         "detail": "; ".join(detail) + ("" if noparams else "; has parameters")})
    return recs


def init_covers_reads(modname, clsname, modules):
    """every self._field read by a method of the class is assigned in __init__"""
    tree = modules[modname]
    cls = next(n for n in ast.walk(tree) if isinstance(n, ast.ClassDef) and n.name == clsname)
    init = next((m for m in cls.body if isinstance(m, ast.FunctionDef) and m.name == "__init__"), None)
    inits = set()
    if init:
        for x in ast.walk(init):
            if isinstance(x, ast.Attribute) and isinstance(x.ctx, ast.Store) and root_name(x) == "self":
                inits.add(x.attr)
    reads = {}
    for m in cls.body:
        if isinstance(m, ast.FunctionDef) and m.name != "__init__":
            for x in ast.walk(m):
                if isinstance(x, ast.Attribute) and isinstance(x.ctx, ast.Load) and isinstance(x.value, ast.Name) \
                        and x.value.id == "self" and x.attr.startswith("_") and not x.attr.startswith("__"):
                    reads.setdefault(x.attr, m.name)
    methods = {m.name for m in cls.body if isinstance(m, ast.FunctionDef)}
    recs = []
    for f, where in sorted(reads.items()):
        if f in methods:
            continue
        recs.append({"oid": "frame/%s:%s/init_sets.%s" % (modname.replace("flowmark.", ""), clsname, f),
                     "status": "discharged" if f in inits else "refuted",
                     "src": "self.%s (read in %s) is initialised by __init__ on every construction" % (f, where), "detail": ""})
    return recs
