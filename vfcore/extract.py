"""Source extraction: the verified text is the code that runs.

Every run re-parses the files of /repo's working tree ($VF_REPO overrides the root), locates a
function by qualified name ('pkg.mod:outer.<locals>.inner' or 'pkg.mod:Class.method') and returns
its ast.FunctionDef plus the sha256 of its source segment.  What is dropped: docstrings, type
annotations (kept only as sort hints), decorators (recorded; @contextmanager generators are split
at their yield by the executor, @cache calls are pure functions), `typing.cast(T, e)` => e.
"""
from __future__ import annotations

import ast
import hashlib
import importlib
import os
import sys

from . import REPO

_cache: dict[str, tuple[ast.Module, str]] = {}


def ensure_repo_on_path():
    src = os.path.join(REPO, "src")
    if sys.path[0] != src:
        if src in sys.path:
            sys.path.remove(src)
        sys.path.insert(0, src)
        for m in [m for m in sys.modules if m == "flowmark" or m.startswith("flowmark.")]:
            f = getattr(sys.modules[m], "__file__", "") or ""
            if not f.startswith(src):
                del sys.modules[m]


def module_path(modname: str) -> str:
    rel = modname.replace(".", "/")
    p = os.path.join(REPO, "src", rel + ".py")
    if os.path.exists(p):
        return p
    p2 = os.path.join(REPO, "src", rel, "__init__.py")
    if os.path.exists(p2):
        return p2
    # installed dependency (e.g. strif): resolve through import machinery
    spec = importlib.util.find_spec(modname)
    if spec and spec.origin:
        return spec.origin
    raise FileNotFoundError(modname)


def module_ast(modname: str):
    if modname not in _cache:
        p = module_path(modname)
        src = open(p, encoding="utf-8").read()
        _cache[modname] = (ast.parse(src), src, p)
    return _cache[modname]


class Extracted:
    def __init__(self, target, fdef, src, path, sha, cls=None, enclosing=None):
        self.target, self.fdef, self.src, self.path, self.sha = target, fdef, src, path, sha
        self.cls = cls                  # ClassDef when the function is a method
        self.enclosing = enclosing or []  # enclosing FunctionDefs (outermost first)
        self.modname = target.split(":")[0]


def find(target: str) -> Extracted:
    modname, qual = target.split(":")
    tree, src, path = module_ast(modname)
    parts = [p for p in qual.split(".") if p != "<locals>"]
    node = tree
    cls = None
    enclosing = []
    for i, p in enumerate(parts):
        found = None
        for n in ast.walk(node) if isinstance(node, (ast.FunctionDef,)) else ast.iter_child_nodes(node):
            if isinstance(n, (ast.FunctionDef, ast.AsyncFunctionDef, ast.ClassDef)) and n.name == p:
                if n is node:
                    continue
                found = n
                break
        if found is None:
            raise LookupError("contract drift: %s not found in %s" % (qual, path))
        if isinstance(found, ast.ClassDef):
            cls = found
        elif i < len(parts) - 1:
            enclosing.append(found)
        node = found
    if not isinstance(node, (ast.FunctionDef, ast.AsyncFunctionDef)):
        raise LookupError("contract drift: %s is not a function" % target)
    seg = ast.get_source_segment(src, node) or ""
    sha = hashlib.sha256(seg.encode()).hexdigest()
    return Extracted(target, node, seg, path, sha, cls, enclosing)


def live_module(modname: str):
    ensure_repo_on_path()
    return importlib.import_module(modname)


def strip_docstring(body):
    if body and isinstance(body[0], ast.Expr) and isinstance(body[0].value, ast.Constant) \
            and isinstance(body[0].value.value, str):
        return body[1:]
    return body


def param_names(fdef: ast.FunctionDef):
    a = fdef.args
    return [x.arg for x in a.posonlyargs + a.args], [x.arg for x in a.kwonlyargs], a


def class_methods(modname: str, clsname: str):
    tree, src, path = module_ast(modname)
    for n in ast.walk(tree):
        if isinstance(n, ast.ClassDef) and n.name == clsname:
            return {m.name: m for m in n.body if isinstance(m, ast.FunctionDef)}
    raise LookupError(clsname)
