"""Statement execution, loops cut by invariants, with/try, ghost hooks."""
from __future__ import annotations

import ast

import z3

from .sx_base import (BreakSig, ContinueSig, GenError, PathEnd, RaiseSig, ReturnSig)
from .sx_expr import is_const
from .values import (Sym, VCtxMgr, VExc, VFunc, VList, VObj, VOpaque, VOpt, VRefMap, VSet, exc_isinstance)
from .theory import NONE_REF, Ref, Int as _Int

MUTATORS = {"append", "extend", "insert", "pop", "remove", "clear", "update", "add", "discard",
            "setdefault", "sort", "reverse"}


class StmtMixin:
    def exec_block(self, stmts):
        for s in stmts:
            self.exec(s)

    def exec(self, s):
        m = getattr(self, "s_" + type(s).__name__, None)
        if m is None:
            raise GenError("unsupported statement %s at line %s" % (type(s).__name__, s.lineno))
        self.run_hooks("before", s)
        m(s)
        self.run_hooks("after", s)

    # ---- ghost hooks
    def run_hooks(self, when, s):
        hooks = self.unit.hooks_for(self)
        if not hooks or self.in_ghost:
            return
        if isinstance(s, (ast.For, ast.While, ast.With, ast.Try, ast.FunctionDef)):
            return
        src = None
        if isinstance(s, ast.If):
            if when != "before":
                return
            src = "if " + ast.unparse(s.test)
        for i, (w, pat, code) in enumerate(hooks):
            if w != when:
                continue
            if src is None:
                src = ast.unparse(s)
            if pat.startswith("assign:"):
                spec = pat[7:]
                inloop = spec.endswith("@loop")
                name = spec[:-5] if inloop else spec
                hit = isinstance(s, (ast.Assign, ast.AugAssign, ast.AnnAssign)) and any(
                    isinstance(t, ast.Name) and t.id == name
                    for t in (s.targets if isinstance(s, ast.Assign) else [s.target]))
                if hit and inloop and self.loop_depth == 0:
                    hit = False
            elif pat.startswith("call:"):
                name, _, ordinal = pat[5:].partition("#")
                hit = isinstance(s, ast.Expr) and isinstance(s.value, ast.Call) and ast.unparse(s.value.func) == name
                if hit and ordinal:
                    # 'call:f#k': the k-th statement (in source order) of the function that is a call of f -- independent of
                    # how the arguments are spelled
                    sites = [x for x in ast.walk(self.unit.fdef) if isinstance(x, ast.Expr) and isinstance(x.value, ast.Call)
                             and ast.unparse(x.value.func) == name]
                    sites.sort(key=lambda x: (x.lineno, x.col_offset))
                    hit = int(ordinal) < len(sites) and sites[int(ordinal)] is s
            else:
                hit = src == pat
            if hit:
                self.hook_hits[i] = self.hook_hits.get(i, 0) + 1
                self.run_ghost(code)

    def run_ghost(self, code):
        tree = self.unit.ghost_ast(code)
        self.in_ghost = True
        saved = self.spec
        self.spec = True        # ghost code is total: ite(), no branching, no obligations
        try:
            self.exec_block(tree.body)
        finally:
            self.in_ghost = False
            self.spec = saved

    # ---- simple statements
    def s_Pass(self, s):
        pass

    def s_Expr(self, s):
        if isinstance(s.value, ast.Constant):
            return
        if isinstance(s.value, ast.Yield):
            # generator: the yielded values form the (finite) result log
            v = self.eval(s.value.value) if s.value.value is not None else None
            self.log.append(("YIELD", {"value": v}, None))
            return
        self.eval(s.value)

    def s_Import(self, s):
        for a in s.names:
            self.envs[-1][(a.asname or a.name).split(".")[0]] = self.unit.import_module(self, a.name)

    def s_ImportFrom(self, s):
        for a in s.names:
            self.envs[-1][a.asname or a.name] = self.unit.import_from(self, s.module, a.name)

    def s_Nonlocal(self, s):
        for n in s.names:
            self.nonlocals[-1].add(n)

    def s_Global(self, s):
        raise GenError("global statement")

    def s_FunctionDef(self, s):
        self.envs[-1][s.name] = VFunc(s.name, "closure", s, list(self.envs))

    def s_Assign(self, s):
        v = self.eval(s.value)
        for t in s.targets:
            self.assign(t, v)

    def s_AnnAssign(self, s):
        if s.value is not None:
            self.assign(s.target, self.eval(s.value))

    def s_AugAssign(self, s):
        cur = self.eval(ast.copy_location(_load(s.target), s.target))
        v = self.eval(s.value)
        if isinstance(cur, (list, VList)) and isinstance(s.op, ast.Add):
            self.list_extend(cur, v)
            return
        self.assign(s.target, self.binop(s.op, cur, v))

    def set_name(self, name, v):
        hint0 = self.unit.local_kind(self, name)
        if hint0 in ("refset", "refmap:int") and not self.frames and isinstance(v, (VSet, dict)) and not (v.members if isinstance(v, VSet) else v):
            v = VRefMap(z3.K(Ref, z3.BoolVal(False)) if hint0 == "refset" else z3.K(Ref, z3.IntVal(-1)),
                        "bool" if hint0 == "refset" else "int")
        if isinstance(v, list):
            hint = self.unit.local_kind(self, name)
            if hint and hint.startswith("list[") and not self.frames:
                v = self.as_vlist(v, self.elem_of(hint[5:-1]))
        if self.nonlocals and name in self.nonlocals[-1]:
            for env in reversed(self.envs[:-1]):
                if name in env:
                    env[name] = v
                    return
        self.envs[-1][name] = v

    def assign(self, t, v):
        if isinstance(t, ast.Name):
            self.set_name(t.id, v)
        elif isinstance(t, (ast.Tuple, ast.List)):
            if any(isinstance(e, ast.Starred) for e in t.elts):
                if isinstance(v, VList):
                    return self.star_unpack(t, v)
                if not isinstance(v, (list, tuple)):
                    raise GenError("starred unpack of %r" % (v,))
                i = [isinstance(e, ast.Starred) for e in t.elts].index(True)
                after = len(t.elts) - i - 1
                for e, x in zip(t.elts[:i], v[:i]):
                    self.assign(e, x)
                self.assign(t.elts[i].value, list(v[i:len(v) - after]))
                for e, x in zip(t.elts[i + 1:], v[len(v) - after:]):
                    self.assign(e, x)
                return
            if isinstance(v, (tuple, list)) and len(v) == len(t.elts):
                for e, x in zip(t.elts, v):
                    self.assign(e, x)
            else:
                raise GenError("unpacking %r into %d targets" % (v, len(t.elts)))
        elif isinstance(t, ast.Attribute):
            base = self.eval(t.value)
            self.setattr(base, t.attr, v)
        elif isinstance(t, ast.Subscript):
            base = self.eval(t.value)
            if isinstance(t.slice, ast.Slice):
                lo = self.eval(t.slice.lower) if t.slice.lower else None
                hi = self.eval(t.slice.upper) if t.slice.upper else None
                return self.slice_assign(base, lo, hi, v)
            idx = self.eval(t.slice)
            self.setitem(base, idx, v, t)
        else:
            raise GenError("assignment target %s" % type(t).__name__)

    def star_unpack(self, t, v: VList):
        i = [isinstance(e, ast.Starred) for e in t.elts].index(True)
        after = len(t.elts) - i - 1
        need = i + after
        ok = self.z(v.length) >= need
        self.prove("noraise", "unpack_arity", ok)
        self.pc.append(ok)
        for j, e in enumerate(t.elts[:i]):
            self.assign(e, self.list_get(v, j))
        self.assign(t.elts[i].value, self.slice(v, i, -after if after else None))
        for j, e in enumerate(t.elts[i + 1:]):
            self.assign(e, self.list_get(v, self.z(v.length) - after + j))

    def setattr(self, base, attr, v):
        if isinstance(base, VObj):
            self.unit.on_setattr(self, base, attr, v)
            base.fields[attr] = v
            return
        if isinstance(base, Sym) and base.k == "ref":
            if base.nullable:
                self.prove("noraise", "not_none@store ." + attr, base.t != NONE_REF, src=attr)
                self.pc.append(base.t != NONE_REF)
            return self.unit.ref_setattr(self, base, attr, v)
        if isinstance(base, VOpt):
            self.deref(base, "setattr")
            return self.setattr(base.val, attr, v)
        raise GenError("attribute store on %r" % (base,))

    def setitem(self, base, idx, v, node=None):
        if isinstance(base, dict):
            if not is_const(idx):
                raise GenError("dict store with symbolic key")
            base[idx] = v
            return
        if isinstance(base, list):
            if isinstance(idx, int):
                if -len(base) <= idx < len(base):
                    base[idx] = v
                    return
                raise RaiseSig(VExc("IndexError"), "store")
            raise GenError("store into concrete list at symbolic index")
        if isinstance(base, VList):
            i = self.zi(idx)
            n = self.z(base.length)
            ok = z3.And(i >= -n, i < n)
            self.prove("noraise", "store_in_range", ok, src=ast.unparse(node) if node else "")
            self.pc.append(ok)
            i = z3.simplify(z3.If(i < 0, i + n, i))
            self.list_store(base, i, v)
            return
        if isinstance(base, VRefMap):
            base.arr = z3.Store(base.arr, self.z(idx), self.z(v))
            return
        if type(base).__name__ == "VOptRefMap":
            k = self.z(idx)
            from .theory import NONE_REF
            if v is None:
                none, val = z3.BoolVal(True), NONE_REF
            elif isinstance(v, VOpt):
                none, val = v.is_none, self.z(v.val)
            else:
                none, val = z3.BoolVal(False), self.z(v)
            base.present = z3.Store(base.present, k, z3.BoolVal(True))
            base.isnone = z3.Store(base.isnone, k, none)
            base.val = z3.Store(base.val, k, val)
            return
        if isinstance(base, Sym) and base.k == "ref":
            return self.unit.ref_setitem(self, base, idx, v)
        raise GenError("subscript store on %r" % (base,))

    def list_store(self, lst: VList, i, v):
        if isinstance(lst.elem, tuple):
            lst.arr = tuple(z3.Store(a, i, self.z(x)) for a, x in zip(lst.arr, v))
        else:
            lst.arr = z3.Store(lst.arr, i, self.z(v))

    def slice_assign(self, base, lo, hi, v):
        """xs[lo:hi] = v   (in place: the list object keeps its identity)."""
        if isinstance(base, list) and (lo is None or isinstance(lo, int)) and (hi is None or isinstance(hi, int)) \
                and isinstance(v, list):
            base[lo:hi] = v
            return
        if not isinstance(base, VList):
            raise GenError("slice assignment on %r" % (base,))
        src = self.as_vlist(v, base.elem)
        n = self.z(base.length)
        a = z3.IntVal(0) if lo is None else self.clamp(self.zi(lo), n)
        b = n if hi is None else self.clamp(self.zi(hi), n)
        b = z3.If(b < a, a, b)
        m = self.z(src.length)
        k = z3.Int("k!sa")

        def mix(old, new):
            return z3.Lambda([k], z3.If(k < a, z3.Select(old, k),
                                        z3.If(k < a + m, z3.Select(new, k - a), z3.Select(old, k - m + (b - a)))))
        if isinstance(base.elem, tuple):
            base.arr = tuple(mix(o, s) for o, s in zip(base.arr, src.arr))
        else:
            base.arr = mix(base.arr, src.arr)
        ln = z3.simplify(n - (b - a) + m)
        base.length = ln.as_long() if z3.is_int_value(ln) else ln

    # ---- list mutation primitives (shared with call handling)
    def list_append(self, lst, v):
        if isinstance(lst, list):
            lst.append(v)
            return
        n = self.z(lst.length)
        self.list_store(lst, n, v)
        ln = z3.simplify(n + 1)
        lst.length = ln.as_long() if z3.is_int_value(ln) else ln

    def list_extend(self, lst, other):
        if isinstance(lst, list) and isinstance(other, (list, tuple)):
            lst.extend(other)
            return
        if isinstance(lst, list):
            raise GenError("extending a concrete list with a symbolic one (declare it in `types`)")
        new = self.list_concat(lst, other)
        lst.arr, lst.length = new.arr, new.length

    # ---- control flow
    def s_Return(self, s):
        raise ReturnSig(self.eval(s.value) if s.value is not None else None)

    def s_Break(self, s):
        raise BreakSig()

    def s_Continue(self, s):
        raise ContinueSig()

    def s_Raise(self, s):
        if s.exc is None:
            if self.cur_exc:
                raise RaiseSig(self.cur_exc[-1], "re-raise")
            raise GenError("bare raise")
        v = self.eval(s.exc)
        if isinstance(v, VExc):
            raise RaiseSig(v, "raise")
        if isinstance(v, VFunc) and v.kind == "exc":
            raise RaiseSig(VExc(v.name), "raise")
        raise GenError("raise of %r" % (v,))

    def s_Assert(self, s):
        c = self.truth(self.eval(s.test))
        self.prove("noraise", "assert@%s" % ast.unparse(s.test)[:60], self.b(c), src=ast.unparse(s.test))
        if isinstance(c, bool):
            if not c:
                raise PathEnd()
        else:
            self.pc.append(c)

    def s_If(self, s):
        c = self.truth(self.eval(s.test))
        if self.branch(c, "if"):
            self.exec_block(s.body)
        else:
            self.exec_block(s.orelse)

    def s_With(self, s):
        if len(s.items) != 1:
            raise GenError("multi-item with")
        item = s.items[0]
        cm = self.eval(item.context_expr)
        if isinstance(cm, VOpaque):
            cm = VCtxMgr(lambda ex, n=cm.name: VOpaque(n + ".__enter__()"), lambda ex, exc: None)
        if not isinstance(cm, VCtxMgr):
            raise GenError("with on %r" % (cm,))
        v = cm.enter(self)
        if item.optional_vars is not None:
            self.assign(item.optional_vars, v)
        try:
            self.exec_block(s.body)
        except RaiseSig as r:
            cm.exit(self, r.exc)
            raise
        except (ReturnSig, BreakSig, ContinueSig):
            cm.exit(self, None)
            raise
        cm.exit(self, None)

    def s_Try(self, s):
        names = []
        for h in s.handlers:
            if h.type is None:
                names.append("BaseException")
            else:
                for t in (h.type.elts if isinstance(h.type, ast.Tuple) else [h.type]):
                    names.append(t.attr if isinstance(t, ast.Attribute) else t.id)
        try:
            try:
                self.try_stack.append(names)
                try:
                    self.exec_block(s.body)
                finally:
                    self.try_stack.pop()
            except RaiseSig as r:
                for h in s.handlers:
                    if self.handler_matches(h, r.exc):
                        if h.name:
                            self.envs[-1][h.name] = r.exc
                        self.handled.append(r.exc.cls)
                        self.cur_exc.append(r.exc)
                        try:
                            self.exec_block(h.body)
                        finally:
                            self.cur_exc.pop()
                        break
                else:
                    raise
            else:
                self.exec_block(s.orelse)
        finally:
            if s.finalbody:
                self.exec_block(s.finalbody)

    def handler_matches(self, h, exc: VExc):
        if h.type is None:
            return True
        names = []
        ts = h.type.elts if isinstance(h.type, ast.Tuple) else [h.type]
        for t in ts:
            names.append(t.attr if isinstance(t, ast.Attribute) else t.id)
        return any(exc_isinstance(exc.cls, n) for n in names)

    # ---- loops
    def s_For(self, s):
        idx = self.unit.loop_index(s)
        spec = self.unit.loop_spec(self, idx) if idx is not None else None
        it = self.eval(s.iter)
        it, mapper = self.iter_view(it)
        if isinstance(it, list) and (spec is None or spec.unroll or len(it) == 0):
            try:
                for k, x in enumerate(it):
                    self.bind_target(s.target, mapper(k, x))
                    try:
                        self.exec_block(s.body)
                    except ContinueSig:
                        pass
            except BreakSig:
                return
            self.exec_block(s.orelse)
            return
        if spec is None:
            raise GenError("loop %s over a symbolic sequence has no invariant (line %d)" % (idx, s.lineno))
        if isinstance(it, list):
            return self.for_per_iteration(s, idx, spec, it, mapper)
        return self.for_symbolic(s, idx, spec, it, mapper)

    def iter_view(self, it):
        """Return (sequence, mapper(k, x) -> loop target value)."""
        ident = lambda k, x: x
        if isinstance(it, VFunc) and it.kind == "iterview":
            kind, payload = it.payload
            if kind == "enumerate":
                seq, m = self.iter_view(payload[0])
                start = payload[1]
                return seq, (lambda k, x: (self.wrap(self.zi(k) + start, "int") if not (isinstance(k, int) and isinstance(start, int)) else k + start, m(k, x)))
            if kind == "custom":
                return payload
            if kind == "range":
                lo, hi = payload
                if isinstance(lo, int) and isinstance(hi, int):
                    return list(range(lo, hi)), ident
                n = z3.simplify(self.zi(hi) - self.zi(lo))
                arr = z3.Lambda([z3.Int("k!rng")], z3.Int("k!rng") + self.zi(lo))
                return VList(z3.If(n > 0, n, 0), arr, "int"), ident
        if isinstance(it, dict):
            return list(it), ident
        if isinstance(it, (tuple, frozenset, set)):
            return sorted(it) if isinstance(it, (frozenset, set)) else list(it), ident
        if isinstance(it, str):
            return list(it), ident
        if isinstance(it, VSet):
            if all(m is True for m in it.members.values()):
                return list(it.members), ident
            raise GenError("iteration over symbolic set")
        if isinstance(it, (list, VList)):
            return (list(it) if isinstance(it, list) else it), ident
        raise GenError("iteration over %r" % (it,))

    def modified_names(self, body):
        names, objs = set(), set()
        for n in ast.walk(ast.Module(body=body, type_ignores=[])):
            if isinstance(n, (ast.Assign, ast.AugAssign, ast.AnnAssign)):
                ts = n.targets if isinstance(n, ast.Assign) else [n.target]
                for t in ts:
                    for x in ast.walk(t):
                        if isinstance(x, ast.Name) and isinstance(x.ctx, ast.Store):
                            names.add(x.id)
                    if isinstance(t, (ast.Attribute, ast.Subscript)):
                        r = _root(t)
                        if r:
                            objs.add((r, t.attr if isinstance(t, ast.Attribute) else None))
            elif isinstance(n, (ast.For,)):
                for x in ast.walk(n.target):
                    if isinstance(x, ast.Name):
                        names.add(x.id)
            elif isinstance(n, ast.NamedExpr):
                names.add(n.target.id)
            elif isinstance(n, ast.With):
                for it in n.items:
                    if it.optional_vars is not None:
                        for x in ast.walk(it.optional_vars):
                            if isinstance(x, ast.Name):
                                names.add(x.id)
            elif isinstance(n, ast.Call) and isinstance(n.func, ast.Attribute) and n.func.attr in MUTATORS:
                r = _root(n.func.value)
                if r:
                    objs.add((r, None))
            elif isinstance(n, ast.Call) and isinstance(n.func, ast.Name) and n.func.id == "setattr" and n.args:
                r = _root(n.args[0])
                if r:
                    objs.add((r, None))
        names |= self.hook_assigned_names(body)
        return names, objs

    def hook_assigned_names(self, body):
        """Ghost names assigned by a hook that can fire on a statement of this (loop) body: they change with the loop and
        are havoced with it (a ghost left at its entry value would make the invariant speak about the first iteration only)."""
        hooks = self.unit.hooks_for(self)
        out = set()
        if not hooks:
            return out
        stmts = [n for n in ast.walk(ast.Module(body=body, type_ignores=[])) if isinstance(n, ast.stmt)]
        for (w, pat, code) in hooks:
            hit = False
            for s in stmts:
                if pat.startswith("assign:"):
                    spec = pat[7:]
                    name = spec[:-5] if spec.endswith("@loop") else spec
                    hit = isinstance(s, (ast.Assign, ast.AugAssign, ast.AnnAssign)) and any(
                        isinstance(t, ast.Name) and t.id == name
                        for t in (s.targets if isinstance(s, ast.Assign) else [s.target]))
                elif pat.startswith("call:"):
                    name = pat[5:].partition("#")[0]
                    hit = isinstance(s, ast.Expr) and isinstance(s.value, ast.Call) and ast.unparse(s.value.func) == name
                elif isinstance(s, ast.If):
                    hit = ("if " + ast.unparse(s.test)) == pat
                elif not isinstance(s, (ast.For, ast.While, ast.With, ast.Try, ast.FunctionDef)):
                    hit = ast.unparse(s) == pat
                if hit:
                    break
            if hit:
                for x in ast.walk(self.unit.ghost_ast(code)):
                    if isinstance(x, ast.Name) and isinstance(x.ctx, ast.Store):
                        out.add(x.id)
        return out

    def havoc(self, names, objs, spec):
        """Forget everything the loop body may change (values keep their kinds)."""
        for extra in (spec.modifies if spec else []):
            objs.add((extra, None)) if self.is_object(extra) else names.add(extra)
        for name in sorted(names):
            try:
                cur = self.lookup(name)
            except GenError:
                continue
            except KeyError:
                continue
            kind = self.unit.local_kind(self, name) or self.kind_of(cur)
            if kind in ("none", "list[?]") or kind[0].isupper():
                hint = self.unit.local_kind(self, name)
                if hint is None:
                    if isinstance(cur, (VObj,)):
                        continue
                    raise GenError("cannot havoc %s (kind %s): add a `types` hint" % (name, kind))
                kind = hint
            self.set_name(name, self.fresh(kind, name))
        for name, attr in sorted(objs, key=lambda x: (x[0], x[1] or "")):
            try:
                cur = self.lookup(name)
            except (GenError, KeyError):
                continue
            self.havoc_object(name, cur, attr)

    def is_object(self, name):
        try:
            return isinstance(self.lookup(name), (list, VList, VObj, VSet, VRefMap, dict))
        except (GenError, KeyError):
            return False

    def havoc_object(self, name, cur, attr=None):
        if isinstance(cur, list):
            kind = self.unit.local_kind(self, name) or self.kind_of(cur)
            if kind == "list[?]":
                raise GenError("cannot havoc list %s: add a `types` hint" % name)
            fresh = self.fresh(kind, name)
            # concrete list objects cannot change identity in place: rebind every alias we can see
            for env in self.envs:
                for k, v in list(env.items()):
                    if v is cur:
                        env[k] = fresh
            return
        if isinstance(cur, VList):
            e = cur.elem
            f = self.fresh("list[%s]" % (e if isinstance(e, str) else "tuple[%s]" % ",".join(e)), name)
            cur.length, cur.arr = f.length, f.arr
            return
        if isinstance(cur, VRefMap):
            cur.arr = z3.FreshConst(cur.arr.sort(), name)
            return
        if isinstance(cur, VSet):
            hint = self.unit.local_kind(self, name)
            if hint and hint.startswith("set:"):
                for k in hint[4:].split(","):
                    cur.members.setdefault(k, False)
            for k in list(cur.members):
                cur.members[k] = z3.FreshConst(z3.BoolSort(), "mem_%s" % k)
            return
        if isinstance(cur, VObj):
            fields = [attr] if attr else list(cur.fields)
            for f in fields:
                old = cur.fields.get(f)
                if isinstance(old, (VObj, VFunc)) or old is None and self.unit.field_kind(cur.cls, f) is None:
                    continue
                kind = self.unit.field_kind(cur.cls, f) or self.kind_of(old)
                cur.fields[f] = self.fresh(kind, "%s.%s" % (name, f))
            return
        if isinstance(cur, dict):
            raise GenError("havoc of dict %s" % name)

    def prove_inv(self, spec, kind, loop_idx):
        for label, c in spec.inv.items():
            cl = self.unit.contract.clause(c)
            self.prove(kind, "loop%d.%s" % (loop_idx, label), self.spec_eval(cl.expr), cl.props, cl.finding,
                       src=str(cl.expr))

    def assume_inv(self, spec):
        for label, c in spec.inv.items():
            cl = self.unit.contract.clause(c)
            self.assume(self.spec_eval(cl.expr))

    def for_symbolic(self, s, idx, spec, it: VList, mapper):
        iname = "_i" if idx == 0 or "_i" not in self.envs[-1] else "_i%d" % idx
        n = self.z(it.length)
        self.envs[-1][iname] = 0
        self.prove_inv(spec, "inv-init", idx)
        names, objs = self.modified_names(s.body)
        names |= {x.id for x in ast.walk(s.target) if isinstance(x, ast.Name)}
        mode = self.choose(2, "loop%d" % idx)     # 0: arbitrary iteration, 1: exit
        it_snapshot = it.copy()
        self.havoc(names, objs, spec)
        self.envs[-1]["_it%d" % idx] = it_snapshot       # ghost: the sequence being iterated (for clauses)
        i = self.fresh("int", iname)
        self.envs[-1][iname] = i
        self.pc.append(z3.And(i.t >= 0, i.t <= n))
        self.assume_inv(spec)
        self.log.append(("LOOP", {"idx": idx, "mode": mode}, None))
        # (per-iteration bookkeeping of an enclosing loop is restored when this loop is left)
        outer_iter = (getattr(self, "iter_log_start", 0), getattr(self, "iter_envs", None), getattr(self, "iter_heap", None))
        self.iter_log_start = len(self.log)
        self.iter_envs = self.snapshot_envs()
        self.iter_heap = dict(self.heap)
        if mode == 0:
            self.pc.append(i.t < n)
            self.bind_target(s.target, mapper(i, self.list_get(it_snapshot, i.t)))
            dec0 = self.spec_eval_value(spec.decreases) if spec.decreases else None
            self.loop_depth += 1
            try:
                try:
                    self.exec_block(s.body)
                except ContinueSig:
                    pass
            except BreakSig:
                self.iter_log_start, self.iter_envs, self.iter_heap = outer_iter
                return      # leaves the loop with the state at the break
            finally:
                self.loop_depth -= 1
            self.envs[-1][iname] = self.wrap(i.t + 1, "int")
            self.prove_inv(spec, "inv-preserve", idx)
            self.check_body_ensures(spec, idx)
            if dec0 is not None:
                dec1 = self.spec_eval_value(spec.decreases)
                self.prove("variant", "loop%d.decreases" % idx,
                           z3.And(self.zi(dec1) < self.zi(dec0), self.zi(dec0) >= 0))
            raise PathEnd()
        self.pc.append(i.t == n)
        self.iter_log_start, self.iter_envs, self.iter_heap = outer_iter
        self.exec_block(s.orelse)

    def check_body_ensures(self, spec, idx):
        for label, c in spec.body_ensures.items():
            cl = self.unit.contract.clause(c)
            self.prove("iter-ensures", "loop%d.%s" % (idx, label), self.spec_eval(cl.expr), cl.props,
                       cl.finding, src=str(cl.expr))

    def for_per_iteration(self, s, idx, spec, items, mapper):
        """Concrete sequence, but every iteration is cut by the invariant inv(_k) (k concrete)."""
        names, objs = self.modified_names(s.body)
        names |= {x.id for x in ast.walk(s.target) if isinstance(x, ast.Name)}
        self.envs[-1]["_k"] = 0
        self.prove_inv(spec, "inv-init", idx)
        mode = self.choose(len(items) + 1, "loop%d" % idx)
        self.havoc(names, objs, spec)
        self.envs[-1]["_k"] = mode
        self.assume_inv(spec)
        if mode < len(items):
            self.bind_target(s.target, mapper(mode, items[mode]))
            try:
                try:
                    self.exec_block(s.body)
                except ContinueSig:
                    pass
            except BreakSig:
                return
            self.envs[-1]["_k"] = mode + 1
            self.prove_inv(spec, "inv-preserve", idx)
            self.check_body_ensures(spec, idx)
            raise PathEnd()
        self.exec_block(s.orelse)

    def s_While(self, s):
        idx = self.unit.loop_index(s)
        spec = self.unit.loop_spec(self, idx) if idx is not None else None
        if spec is None:
            raise GenError("while loop %s has no invariant (line %d)" % (idx, s.lineno))
        self.prove_inv(spec, "inv-init", idx)
        names, objs = self.modified_names(s.body)
        self.havoc(names, objs, spec)
        self.assume_inv(spec)
        g = self.truth(self.eval(s.test))
        if self.branch(g, "while%d" % idx):
            dec0 = self.spec_eval_value(spec.decreases) if spec.decreases else None
            self.loop_depth += 1
            try:
                try:
                    self.exec_block(s.body)
                except ContinueSig:
                    pass
            except BreakSig:
                return
            finally:
                self.loop_depth -= 1
            self.prove_inv(spec, "inv-preserve", idx)
            self.check_body_ensures(spec, idx)
            if dec0 is not None:
                dec1 = self.spec_eval_value(spec.decreases)
                self.prove("variant", "loop%d.decreases" % idx,
                           z3.And(self.zi(dec1) < self.zi(dec0), self.zi(dec0) >= 0))
            raise PathEnd()
        self.exec_block(s.orelse)


def _load(t):
    t2 = ast.parse(ast.unparse(t), mode="eval").body
    return t2


def _root(n):
    while isinstance(n, (ast.Attribute, ast.Subscript)):
        n = n.value
    return n.id if isinstance(n, ast.Name) else None
