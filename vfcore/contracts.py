"""Sidecar contract API.  Contracts live in /verif/contracts/*.py; nothing here is imported by /repo."""
from __future__ import annotations

from dataclasses import dataclass, field
from typing import Any, Callable

REGISTRY: dict[str, "Contract"] = {}


@dataclass
class Clause:
    expr: Any                      # python expression string (spec mode) or callable(ex) -> F/term
    props: list[str] | None = None  # properties this clause carries (default: contract.props)
    finding: str | None = None      # id of a known-finding class this clause is expected to hit


@dataclass
class Loop:
    inv: dict[str, Any] = field(default_factory=dict)
    decreases: str | None = None
    modifies: list[str] = field(default_factory=list)     # extra (ghost) names havoced
    per_iteration: bool = False     # concrete sequence: unroll, but cut every iteration by inv(k)
    body_ensures: dict[str, Any] = field(default_factory=dict)
    unroll: bool = False            # concrete sequence: plain unrolling (complete, no invariant)


@dataclass
class Callee:
    """How a call inside a function under contract is treated.

    kind: 'uf'       pure uninterpreted function of its (bound) arguments
          'effect'   uninterpreted + appended to the effect log (+ may raise)
          'inline'   the callee's real body is executed symbolically
          'contract' use the callee's own contract (assert pre, assume post)
          'custom'   python handler(ex, node, args, kwargs) -> value
          'attr'     attribute of a ref: uninterpreted function of the object (ret = kind)
          'attrfn'   attribute of a ref computed by handler(ex, None, [obj], {}) (may branch on the object's type)
    """
    kind: str
    ret: str | None = "ref"          # result kind: 'str','int','bool','ref','none','list[str]',...
    effect: str | None = None
    raises: tuple[str, ...] = ()
    handler: Callable | None = None
    target: str | None = None        # qualified name for inline/contract ('module:qualname')
    sig: Any = None                  # explicit parameter list (names) when no real signature is available
    cls: str | None = None           # class name of a returned ref
    post: Any = None                 # for kind 'uf'/'effect': assumed facts  callable(ex, bound, result)->F|term|None
    lazy: bool = False               # kind 'custom' called by bare name: the handler gets the call node, arguments unevaluated
    raise_guard: Any = None          # callable(ex, bound) -> z3 Bool assumed on the raising branch (when the callee can only raise under a condition)


@dataclass
class Contract:
    target: str                       # 'flowmark.mod.sub:qual.name'  (qualname may contain <locals>)
    props: list[str]
    strings: str = "L0"
    params: dict[str, str] = field(default_factory=dict)    # kind hints: 'str','int','bool','list[str]','opt[str]','callable','ref:Path','obj:Cls', 'enum:Cls'
    types: dict[str, str] = field(default_factory=dict)     # kind hints for locals (when havoc needs them)
    requires: dict[str, Any] = field(default_factory=dict)
    ensures: dict[str, Any] = field(default_factory=dict)
    ensures_raise: dict[str, Any] = field(default_factory=dict)   # checked on exceptional exit
    raises: tuple[str, ...] = ()       # exception classes the function may raise
    ghost: dict[str, Any] = field(default_factory=dict)      # name -> initial value expr (string)
    hooks: list[tuple[str, str, str]] = field(default_factory=list)   # (when, stmt pattern, ghost code)
    loops: dict[int, Loop] = field(default_factory=dict)
    calls: dict[str, Callee] = field(default_factory=dict)
    defs: dict[str, str] = field(default_factory=dict)       # 'name(a,b)': 'expr'
    at_call: dict[str, dict[str, Any]] = field(default_factory=dict)  # callee key -> {label: clause} checked at each call
    free: dict[str, str] = field(default_factory=dict)       # closure/global variables treated as symbolic inputs
    setup_callee: Callable | None = None   # hook(ex, env, bound) when this contract is used at a call site
    setup: Callable | None = None      # python hook(ex) run after parameter binding (build records etc.)
    canaries: list[Any] = field(default_factory=list)        # AST mutations that must be refuted
    replay: Callable | None = None     # (model_decoder) -> concrete replay; see vfcore.replay
    cid: str = ""
    note: str = ""
    self_cls: str | None = None        # for methods: class of `self`
    max_paths: int = 4000
    result_alias: list[str] = field(default_factory=list)   # locals that denote the result (for callers)
    heap: dict[str, str] = field(default_factory=dict)   # fields of symbolic refs kept in a heap: name -> kind
    unknown_calls: str = "error"      # 'error': generation error (exit 3); 'effect': logged as UNMODELLED effect
    shards: int = 1                    # split the discharge of this unit over that many pool processes
    unfold_depth: int = 2              # closure depth of the definitional unfolding of joinr / strip / substr per query
    assumes: list[str] = field(default_factory=list)   # assumptions made by this contract (dependencies' invariants, regex facts): reported

    def clause(self, c):
        return c if isinstance(c, Clause) else Clause(c)


def contract(c: Contract) -> Contract:
    c.cid = c.cid or c.target
    if c.cid in REGISTRY:
        raise ValueError("duplicate contract " + c.cid)
    REGISTRY[c.cid] = c
    return c
